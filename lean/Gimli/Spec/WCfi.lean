import Gimli.Model.WCfi
import Gimli.Spec.Unwind
/-!
# Spec: what the writer-side call-frame instructions mean

`gimli::write::CallFrameInstruction` carries *unfactored* offsets ("the previous value of the
register is saved at address CFA + offset", …).  `wStep` gives each variant its meaning on the
state of the declarative call-frame semantics of C06 (`Spec.Unwind.State`: current rule set,
implicit stack, initial rules), written from the documentation of the variants and DWARF 5 §6.4.2,
not from the encoder: no opcode, no factor, no LEB128 appears here.

`WInstr.InRange` states the ranges of the Rust operand types (`i32` offsets, `u32` argument size,
expression length a `u64`).
-/
namespace Gimli.Spec.WCfi
open Gimli Gimli.Cfi Gimli.Unwind Gimli.Spec.Unwind Gimli.WCfi

/-- the meaning of one supplied instruction; never creates a row (rows are created by the code
offsets at which instructions are supplied) -/
def wStep (s : State) : WInstr → Except Err (State × Option TableRow)
  | .cfa r o => .ok (setCfa s (.registerAndOffset r o), none)
  | .cfaRegister r =>
    match s.cur.cfa with
    | .registerAndOffset _ o => .ok (setCfa s (.registerAndOffset r o), none)
    | .expression _ => .error .rCfiInstructionInInvalidContext
  | .cfaOffset o =>
    match s.cur.cfa with
    | .registerAndOffset r _ => .ok (setCfa s (.registerAndOffset r o), none)
    | .expression _ => .error .rCfiInstructionInInvalidContext
  | .cfaExpression e => .ok (setCfa s (.expression e), none)
  | .restore r =>
    match s.init with
    | none => .error .rCfiInstructionInInvalidContext
    | some init => .ok (setReg s r (init r), none)
  | .undefined r => .ok (setReg s r (some .undefined), none)
  | .sameValue r => .ok (setReg s r (some .sameValue), none)
  | .offset r o => .ok (setReg s r (some (.offset o)), none)
  | .valOffset r o => .ok (setReg s r (some (.valOffset o)), none)
  | .register r1 r2 => .ok (setReg s r1 (some (.register r2)), none)
  | .expression r e => .ok (setReg s r (some (.expression e)), none)
  | .valExpression r e => .ok (setReg s r (some (.valExpression e)), none)
  | .rememberState => .ok ({ s with stack := s.cur :: s.stack }, none)
  | .restoreState =>
    match s.stack with
    | [] => .error .rPopWithEmptyStack
    | top :: rest => .ok ({ s with cur := top, stack := rest }, none)
  | .argsSize n => .ok ({ s with cur := { s.cur with argsSize := n } }, none)
  | .negateRaState =>
    match s.cur.regs Spec.Unwind.raSignState with
    | none => .ok (setReg s Spec.Unwind.raSignState (some (.constant 1)), none)
    | some (.constant v) => .ok (setReg s Spec.Unwind.raSignState (some (.constant (v ^^^ 1))), none)
    | some _ => .error .rCfiInstructionInInvalidContext

/-- an `i32` -/
def isI32 (o : Int) : Prop := -(2 ^ 31) ≤ o ∧ o < 2 ^ 31

instance (o : Int) : Decidable (isI32 o) := by unfold isI32; infer_instance

/-- operands are in the range of their Rust types -/
def _root_.Gimli.WCfi.WInstr.InRange : WInstr → Prop
  | .cfa _ o => isI32 o
  | .cfaOffset o => isI32 o
  | .offset _ o => isI32 o
  | .valOffset _ o => isI32 o
  | .cfaExpression e => e.length < 2 ^ 64
  | .expression _ e => e.length < 2 ^ 64
  | .valExpression _ e => e.length < 2 ^ 64
  | .argsSize n => n < 2 ^ 32
  | _ => True

/-! ## observations on the entries a table write produced -/

/-- the CIE indices of the CIE entries, in emission order -/
def cieIdxs : List Entry → List Nat
  | [] => []
  | .cie i _ _ :: es => i :: cieIdxs es
  | .fde _ _ _ :: es => cieIdxs es

/-- every CIE entry is immediately followed by an FDE entry that uses it, placed right after it -/
def CieThenFde : List Entry → Prop
  | [] => True
  | .fde _ _ _ :: es => CieThenFde es
  | .cie i off b :: .fde j off' _ :: es => j = i ∧ off' = off + b.length ∧ CieThenFde es
  | .cie _ _ _ :: _ => False

/-- entries are laid out back to back from `pos` -/
def Contiguous : Nat → List Entry → Prop
  | _, [] => True
  | pos, .cie _ off b :: es => off = pos ∧ Contiguous (pos + b.length) es
  | pos, .fde _ off b :: es => off = pos ∧ Contiguous (pos + b.length) es

/-! ## the meaning of a supplied program -/

/-- **the meaning of instructions supplied at code offsets** (`FrameDescriptionEntry::add_instruction
(offset, instruction)`): an instruction at a later offset than the previous one first completes
the row that was being built — it covers `[loc, loc + (offset − prev))` with the rules as they
were — and moves the location there (which must stay inside the address space of the CIE's address
size); then the instruction takes effect.  After the last instruction the current rules hold up
to `endAddr`.  Returns the rows and the final state, or the rows completed before the first
meaningless instruction and its error — the same result type as C06's `Spec.Unwind.exec`. -/
def wExec (p : Params) (endAddr : Nat) : State → Nat → List (Nat × WInstr) →
    List TableRow × Except Err State
  | s, _, [] => ([⟨s.loc, endAddr, s.cur⟩], .ok s)
  | s, prev, (o, wi) :: is =>
    if o = prev then
      match wStep s wi with
      | .error e => ([], .error e)
      | .ok (s', _) => wExec p endAddr s' o is
    else
      let n := s.loc + (o - prev)
      if n < 2 ^ (8 * p.addressSize) then
        match wStep { s with loc := n } wi with
        | .error e => ([⟨s.loc, n, s.cur⟩], .error e)
        | .ok (s', _) =>
          let r := wExec p endAddr s' o is
          (⟨s.loc, n, s.cur⟩ :: r.1, r.2)
      else ([], .error .rAddressOverflow)

/-- the unwind table meant by a CIE program and an FDE program supplied to the writer: the CIE's
instructions from the initial state (all at offset 0: rows they would create are not part of the
table), their register columns as initial rules, then the FDE's instructions from `initial`;
mirrors the structure of C06's `Spec.Unwind.table` -/
def wTable (p : Params) (cie : List WInstr) (fde : List (Nat × WInstr)) (initial len : Nat) :
    List TableRow × Except Err Unit :=
  let s0 : State := { loc := 0, cur := RuleSet.initial, stack := [], init := none }
  match (wExec p 0 s0 0 (cie.map (fun i => (0, i)))).2 with
  | .error e => ([], .error e)
  | .ok s1 =>
    let s2 : State := { s1 with loc := initial, init := some s1.cur.regs }
    let r := wExec p (fdeEnd p initial len) s2 0 fde
    (r.1, r.2.map (fun _ => ()))


/-! ## the layout of entries (a small reader written from DWARF 5 §6.4.1 and the LSB `.eh_frame` text) -/

/-- the fixed part of a CIE as DWARF 5 §6.4.1 / the LSB `.eh_frame` text lay it out -/
structure CieHeader where
  format : Format
  /-- value of the length field -/
  length : Nat
  version : Nat
  /-- augmentation string without its terminator -/
  augmentation : Bytes
  /-- `address_size` field (version 4 only; the `segment_selector_size` that follows must be 0) -/
  addressSize : Option Nat
  codeAlign : Nat
  dataAlign : Int
  raReg : Nat
  /-- the augmentation data (without its length) when the augmentation string starts with `z` -/
  augData : Option Bytes
  /-- initial instructions, with the padding -/
  instructions : Bytes
  deriving DecidableEq, Repr

/-- a NUL-terminated string -/
def readCStr : Bytes → Out (Bytes × Bytes)
  | [] => .err .rUnexpectedEof
  | b :: rest =>
    if b = 0 then .ok ([], rest)
    else do
      let (s, r) ← readCStr rest
      pure (b :: s, r)

/-- read the CIE that starts at the beginning of `bs`: initial length, CIE id (`0` as `u32` in
`.eh_frame`; all ones of the offset size in `.debug_frame`), version, augmentation string,
(version 4) address and segment selector sizes, the two alignment factors, the return address
register — **one byte in version 1, ULEB128 from version 3 on** — and, under a `z` augmentation,
the length-prefixed augmentation data.  What remains of the entry are the initial instructions. -/
def readCieHeader (e : Endian) (eh : Bool) (bs : Bytes) : Out CieHeader := do
  let ((len, fmt), rest) ← Ints.readInitialLength e 64 bs
  let (body, _) ← Ints.take len rest
  let idSize := if eh then 4 else fmt.wordSize
  let (id, r) ← Ints.readFixed e idSize body
  if id ≠ (if eh then 0 else 2 ^ (8 * idSize) - 1) then .err .rNotCieId else do
  let (ver, r) ← Ints.readFixed e 1 r
  let (aug, r) ← readCStr r
  let (asz, r) ← (if ver = 4 then do
      let (a, r) ← Ints.readFixed e 1 r
      let (seg, r) ← Ints.readFixed e 1 r
      if seg ≠ 0 then .err .rUnsupportedSegmentSize else pure (some a, r)
    else pure (none, r) : Out (Option Nat × Bytes))
  let (caf, r) ← Leb.unsigned r
  let (daf, r) ← Leb.signed r
  let (ra, r) ← (if ver = 1 then Ints.readFixed e 1 r else Leb.unsigned r)
  let (augData, r) ← (if aug.head? = some 0x7a then do
      let (n, r) ← Leb.unsigned r
      let (d, r) ← Ints.take n r
      pure (some d, r)
    else pure (none, r) : Out (Option Bytes × Bytes))
  pure { format := fmt, length := len, version := ver, augmentation := aug, addressSize := asz,
         codeAlign := caf, dataAlign := daf, raReg := ra, augData := augData, instructions := r }

/-- the fixed part of an FDE (DWARF 5 §6.4.1 / LSB): which CIE it belongs to, the address range it
covers, the LSDA pointer of its augmentation data, and its instructions (with the padding) -/
structure FdeHeader where
  format : Format
  length : Nat
  /-- section offset of the CIE the entry designates -/
  cieOffset : Nat
  initialLocation : Nat
  addressRange : Nat
  /-- `(address, indirect)` -/
  lsda : Option (Nat × Bool)
  instructions : Bytes
  deriving DecidableEq, Repr

/-- what reading an FDE needs to know from its CIE -/
structure CieInfo where
  addressSize : Nat
  /-- the `R` augmentation -/
  fdeEncoding : Option Nat
  /-- the augmentation string starts with `z` -/
  hasAugData : Bool
  /-- the `L` augmentation -/
  lsdaEncoding : Option Nat

/-- initial location and address range of an FDE: plain addresses of the CIE's address size unless
the CIE has an `R` encoding (then an encoded pointer and an encoded value of the same format);
`pos` is the section offset of the first field -/
def readFdeAddrs (m : Mode) (e : Endian) (ci : CieInfo) (pos : Nat) (r : Bytes) : Out (Nat × Nat × Bytes) :=
  match ci.fdeEncoding with
  | some enc => do
    let ((a, _), r1) ← parseEncodedPointer m e enc { addressSize := ci.addressSize, sectionBase := some 0 } pos r
    let (l, r2) ← parseEncodedValue e enc ci.addressSize r1
    pure (a, l, r2)
  | none => do
    let (a, r1) ← Ints.readAddress e ci.addressSize r
    let (l, r2) ← Ints.readAddress e ci.addressSize r1
    pure (a, l, r2)

/-- the augmentation data of an FDE (present iff the CIE's augmentation starts with `z`): a ULEB128
length, then the LSDA pointer if the CIE has an `L` encoding; `posOf r1` is the section offset of
the data given what remains after the length -/
def readFdeAug (m : Mode) (e : Endian) (ci : CieInfo) (posOf : Bytes → Nat) (r : Bytes) :
    Out (Option (Nat × Bool) × Bytes) :=
  if ci.hasAugData then do
    let (n, r1) ← Leb.unsigned r
    let (d, r2) ← Ints.take n r1
    match ci.lsdaEncoding with
    | some enc => do
      let (pl, _) ← parseEncodedPointer m e enc { addressSize := ci.addressSize, sectionBase := some 0 } (posOf r1) d
      pure (some pl, r2)
    | none => pure (none, r2)
  else pure (none, r)

/-- read the FDE that starts at section offset `off`, the section from there on being `bs`.
`.debug_frame`: the CIE pointer is the section offset of the CIE, of the offset size of the format.
`.eh_frame`: it is a `u32`, the distance back from the pointer field itself to the CIE.
Address and range are plain addresses of the CIE's address size unless the CIE has an `R`
encoding (then an encoded pointer and an encoded value of the same format); encoded pointers are
decoded as C06's Model of `parse_encoded_pointer` does, `DW_EH_PE_pcrel` relative to section
address 0. -/
def readFdeHeader (m : Mode) (e : Endian) (eh : Bool) (ci : CieInfo) (off : Nat) (bs : Bytes) : Out FdeHeader := do
  let ((len, fmt), rest) ← Ints.readInitialLength e 64 bs
  let (body, _) ← Ints.take len rest
  let lf := lenFieldSize fmt
  let psize := if eh then 4 else fmt.wordSize
  let (p, r) ← Ints.readFixed e psize body
  let cieOff := if eh then off + lf - p else p
  let (initial, range, r) ← readFdeAddrs m e ci (off + lf + psize) r
  let (lsda, r) ← readFdeAug m e ci (fun r1 => off + lf + (body.length - r1.length)) r
  pure { format := fmt, length := len, cieOffset := cieOff, initialLocation := initial,
         addressRange := range, lsda := lsda, instructions := r }


/-- every FDE entry was produced by `fdeWrite` for its CIE, against the offset at which that CIE
was written: either a CIE written before the loop state `offs` was reached, or the CIE entry of
this very list -/
def FdesBound (m : Mode) (e : Endian) (eh : Bool) (cies : List WCie) (offs : List (Option Nat))
    (all : List Entry) : List Entry → Prop
  | [] => True
  | .cie _ _ _ :: es => FdesBound m e eh cies offs all es
  | .fde ci off fb :: es =>
    (∃ c f cieOff, cies[ci]? = some c ∧ fdeWrite m e eh off cieOff c f = .ok fb ∧ cieOff ≤ off ∧
      (offs.getD ci none = some cieOff ∨
        ∃ cb, Entry.cie ci cieOff cb ∈ all ∧ cieWrite m e eh c cieOff = .ok cb)) ∧
    FdesBound m e eh cies offs all es


end Gimli.Spec.WCfi

namespace Gimli.WCfi
open Gimli Gimli.Cfi Gimli.Spec.WCfi

/-- field ranges of the Rust types of a `CommonInformationEntry` -/
def WCie.InRange (c : WCie) : Prop :=
  c.addressSize < 256 ∧ c.codeAlign < 256 ∧ -128 ≤ c.dataAlign ∧ c.dataAlign ≤ 127 ∧
  (∀ enc a, c.personality = some (enc, a) → enc < 256 ∧ ∀ v, a = .const v → v < 2 ^ 64) ∧
  (∀ enc, c.lsdaEncoding = some enc → enc < 256) ∧ c.fdeAddressEncoding < 256

/-- the CIE as an FDE reader sees it -/
def WCie.info (c : WCie) : CieInfo :=
  { addressSize := c.addressSize,
    fdeEncoding := if c.fdeAddressEncoding != 0 then some c.fdeAddressEncoding else none,
    hasAugData := c.hasAugmentation,
    lsdaEncoding := c.lsdaEncoding }

/-- what the LSDA pointer of an FDE must read back as -/
def expectedLsda (c : WCie) (f : WFde) : Option (Nat × Bool) :=
  match f.lsda, c.lsdaEncoding with
  | some (.const v), some enc => some (v, enc / 128 % 2 = 1)
  | _, _ => none

/-- operands of a supplied program are in range -/
def ProgInRange : List (Nat × WInstr) → Prop
  | [] => True
  | (o, wi) :: is => o < 2 ^ 32 ∧ wi.InRange ∧ ProgInRange is

/-- no `NegateRaState`, or the AArch64 vendor setting -/
def ProgVendorOk (c : DecodeCfg) : List (Nat × WInstr) → Prop
  | [] => True
  | (_, wi) :: is => (wi = .negateRaState → c.vendor = .aarch64) ∧ ProgVendorOk c is


end Gimli.WCfi

