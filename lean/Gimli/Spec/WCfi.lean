import Gimli.Model.WCfi
import Gimli.Spec.Unwind
/-!
# Spec: what the writer-side call-frame instructions mean

`gimli::write::CallFrameInstruction` carries *unfactored* offsets ("the previous value of the
register is saved at address CFA + offset", …).  `wStep` gives each variant its meaning on the
state of the declarative call-frame semantics of C06 (`Spec.Unwind.State`: current rule set,
implicit stack, initial rules), written from the documentation of the variants and DWARF 5 §6.4.2,
not from the encoder: no opcode, no factor, no LEB128 appears here.

`WInstr.InRange` states the ranges of the Rust operand types (`i32` offsets, `u32` argument size,
expression length a `u64`).
-/
namespace Gimli.Spec.WCfi
open Gimli Gimli.Cfi Gimli.Unwind Gimli.Spec.Unwind Gimli.WCfi

/-- the meaning of one supplied instruction; never creates a row (rows are created by the code
offsets at which instructions are supplied) -/
def wStep (s : State) : WInstr → Except Err (State × Option TableRow)
  | .cfa r o => .ok (setCfa s (.registerAndOffset r o), none)
  | .cfaRegister r =>
    match s.cur.cfa with
    | .registerAndOffset _ o => .ok (setCfa s (.registerAndOffset r o), none)
    | .expression _ => .error .rCfiInstructionInInvalidContext
  | .cfaOffset o =>
    match s.cur.cfa with
    | .registerAndOffset r _ => .ok (setCfa s (.registerAndOffset r o), none)
    | .expression _ => .error .rCfiInstructionInInvalidContext
  | .cfaExpression e => .ok (setCfa s (.expression e), none)
  | .restore r =>
    match s.init with
    | none => .error .rCfiInstructionInInvalidContext
    | some init => .ok (setReg s r (init r), none)
  | .undefined r => .ok (setReg s r (some .undefined), none)
  | .sameValue r => .ok (setReg s r (some .sameValue), none)
  | .offset r o => .ok (setReg s r (some (.offset o)), none)
  | .valOffset r o => .ok (setReg s r (some (.valOffset o)), none)
  | .register r1 r2 => .ok (setReg s r1 (some (.register r2)), none)
  | .expression r e => .ok (setReg s r (some (.expression e)), none)
  | .valExpression r e => .ok (setReg s r (some (.valExpression e)), none)
  | .rememberState => .ok ({ s with stack := s.cur :: s.stack }, none)
  | .restoreState =>
    match s.stack with
    | [] => .error .rPopWithEmptyStack
    | top :: rest => .ok ({ s with cur := top, stack := rest }, none)
  | .argsSize n => .ok ({ s with cur := { s.cur with argsSize := n } }, none)
  | .negateRaState =>
    match s.cur.regs Spec.Unwind.raSignState with
    | none => .ok (setReg s Spec.Unwind.raSignState (some (.constant 1)), none)
    | some (.constant v) => .ok (setReg s Spec.Unwind.raSignState (some (.constant (v ^^^ 1))), none)
    | some _ => .error .rCfiInstructionInInvalidContext

/-- an `i32` -/
def isI32 (o : Int) : Prop := -(2 ^ 31) ≤ o ∧ o < 2 ^ 31

instance (o : Int) : Decidable (isI32 o) := by unfold isI32; infer_instance

/-- operands are in the range of their Rust types -/
def _root_.Gimli.WCfi.WInstr.InRange : WInstr → Prop
  | .cfa _ o => isI32 o
  | .cfaOffset o => isI32 o
  | .offset _ o => isI32 o
  | .valOffset _ o => isI32 o
  | .cfaExpression e => e.length < 2 ^ 64
  | .expression _ e => e.length < 2 ^ 64
  | .valExpression _ e => e.length < 2 ^ 64
  | .argsSize n => n < 2 ^ 32
  | _ => True

/-! ## observations on the entries a table write produced -/

/-- the CIE indices of the CIE entries, in emission order -/
def cieIdxs : List Entry → List Nat
  | [] => []
  | .cie i _ _ :: es => i :: cieIdxs es
  | .fde _ _ _ :: es => cieIdxs es

/-- every CIE entry is immediately followed by an FDE entry that uses it, placed right after it -/
def CieThenFde : List Entry → Prop
  | [] => True
  | .fde _ _ _ :: es => CieThenFde es
  | .cie i off b :: .fde j off' _ :: es => j = i ∧ off' = off + b.length ∧ CieThenFde es
  | .cie _ _ _ :: _ => False

/-- entries are laid out back to back from `pos` -/
def Contiguous : Nat → List Entry → Prop
  | _, [] => True
  | pos, .cie _ off b :: es => off = pos ∧ Contiguous (pos + b.length) es
  | pos, .fde _ off b :: es => off = pos ∧ Contiguous (pos + b.length) es

end Gimli.Spec.WCfi
