import Gimli.Model.Unwind
/-!
# Spec: DWARF call-frame semantics (DWARF 5 §6.4, LSB `.eh_frame`, GNU/AArch64 extensions)

A small declarative interpreter, written from the standard and not from the code:

* the register columns of a table row are a **function** `Reg → Option Rule` (`none` = the
  default rule of the ABI), the CFA column is a `CfaRule`; together with the GNU
  `args_size` value they form the `RuleSet` that `DW_CFA_remember_state` pushes on an
  **unbounded** implicit stack and `DW_CFA_restore_state` pops;
* the *initial rules* used by `DW_CFA_restore` are the register columns as they are after the
  CIE's initial instructions; `DW_CFA_restore` inside the initial instructions is invalid;
* factored operands are multiplied by the alignment factors modulo 2^64 (offsets are reported in
  two's complement, like every consumer that stores them in 64-bit integers);
* `DW_CFA_advance_loc*` must stay inside the address space of the CIE's address size,
  `DW_CFA_set_loc` must not move backwards (staying at the current location is accepted, like an
  advance by 0 — the standard's "always greater" is a producer rule that no consumer enforces);
* a table is not required to stay inside the FDE's range: the last row ends at the FDE's end
  address even if the program advanced beyond it (that row then covers no address);
* `DW_CFA_def_cfa_register / def_cfa_offset(_sf)` are valid only while the CFA rule is
  register+offset;
* `DW_CFA_AARCH64_negate_ra_state` toggles bit 0 of the constant held by the `RA_SIGN_STATE`
  pseudo register (34), which is 0 by default; it is invalid if that column holds another kind
  of rule.

One behaviour the standard leaves open is fixed to what gimli does and stated here: rule sets
still on the implicit stack when the CIE's initial instructions end stay there, so the FDE can
pop them.

The vocabulary (`Instr`, `Rule`, `CfaRule`, `wrapI64`) is shared with the Model; nothing else is.
Resource use is *measured* on the Spec state (`rowsNeeded`, `ruleCount`) so that theorems can
say exactly when a fixed-capacity implementation must give up.
-/
namespace Gimli.Spec.Unwind
open Gimli Gimli.Cfi Gimli.Unwind

/-- register columns of a row -/
abbrev RegMap := Reg → Option Rule

def RegMap.empty : RegMap := fun _ => none

def RegMap.update (m : RegMap) (r : Reg) (v : Option Rule) : RegMap :=
  fun x => if x = r then v else m x

/-- everything `DW_CFA_remember_state` saves -/
structure RuleSet where
  cfa : CfaRule
  regs : RegMap
  argsSize : Nat

/-- the state before any instruction: CFA = register 0 + 0 (gimli's documented default), every
register column at its default rule -/
def RuleSet.initial : RuleSet := { cfa := .registerAndOffset 0 0, regs := RegMap.empty, argsSize := 0 }

structure State where
  /-- location (address) of the row being built -/
  loc : Nat
  cur : RuleSet
  /-- the implicit stack, most recent first -/
  stack : List RuleSet
  /-- initial rules; `none` while the CIE's initial instructions are being executed -/
  init : Option RegMap

/-- a finished row of the table: it applies to `start ≤ pc < end_` -/
structure TableRow where
  start : Nat
  end_ : Nat
  rules : RuleSet

structure Params where
  codeAlign : Nat
  dataAlign : Int
  addressSize : Nat

/-- `operand * data_alignment_factor`, as a 64-bit two's complement number -/
def factored (p : Params) (operand : Int) : Int := wrapI64 (operand * p.dataAlign)

def setReg (s : State) (r : Reg) (v : Option Rule) : State :=
  { s with cur := { s.cur with regs := s.cur.regs.update r v } }

def setCfa (s : State) (c : CfaRule) : State := { s with cur := { s.cur with cfa := c } }

/-- the register whose constant `DW_CFA_AARCH64_negate_ra_state` toggles -/
def raSignState : Reg := 34

/-- one instruction: the new state and the row it completes, if it is a row-creating
instruction; `.error e` when the instruction is invalid in this state -/
def step (p : Params) (s : State) : Instr → Except Err (State × Option TableRow)
  | .setLoc a =>
    if a < s.loc then .error .rInvalidCfiSetLoc
    else .ok ({ s with loc := a }, some ⟨s.loc, a, s.cur⟩)
  | .advanceLoc d =>
    let n := s.loc + (d * p.codeAlign) % 2 ^ 64
    if n < 2 ^ (8 * p.addressSize) then .ok ({ s with loc := n }, some ⟨s.loc, n, s.cur⟩)
    else .error .rAddressOverflow
  | .defCfa r o => .ok (setCfa s (.registerAndOffset r (wrapI64 o)), none)
  | .defCfaSf r o => .ok (setCfa s (.registerAndOffset r (factored p o)), none)
  | .defCfaRegister r =>
    match s.cur.cfa with
    | .registerAndOffset _ o => .ok (setCfa s (.registerAndOffset r o), none)
    | .expression _ => .error .rCfiInstructionInInvalidContext
  | .defCfaOffset o =>
    match s.cur.cfa with
    | .registerAndOffset r _ => .ok (setCfa s (.registerAndOffset r (wrapI64 o)), none)
    | .expression _ => .error .rCfiInstructionInInvalidContext
  | .defCfaOffsetSf o =>
    match s.cur.cfa with
    | .registerAndOffset r _ => .ok (setCfa s (.registerAndOffset r (factored p o)), none)
    | .expression _ => .error .rCfiInstructionInInvalidContext
  | .defCfaExpression e => .ok (setCfa s (.expression e), none)
  | .undefined r => .ok (setReg s r (some .undefined), none)
  | .sameValue r => .ok (setReg s r (some .sameValue), none)
  | .offset r o => .ok (setReg s r (some (.offset (factored p o))), none)
  | .offsetExtendedSf r o => .ok (setReg s r (some (.offset (factored p o))), none)
  | .valOffset r o => .ok (setReg s r (some (.valOffset (factored p o))), none)
  | .valOffsetSf r o => .ok (setReg s r (some (.valOffset (factored p o))), none)
  | .register d src => .ok (setReg s d (some (.register src)), none)
  | .expression r e => .ok (setReg s r (some (.expression e)), none)
  | .valExpression r e => .ok (setReg s r (some (.valExpression e)), none)
  | .restore r =>
    match s.init with
    | none => .error .rCfiInstructionInInvalidContext
    | some init => .ok (setReg s r (init r), none)
  | .rememberState => .ok ({ s with stack := s.cur :: s.stack }, none)
  | .restoreState =>
    match s.stack with
    | [] => .error .rPopWithEmptyStack
    | top :: rest => .ok ({ s with cur := top, stack := rest }, none)
  | .argsSize n => .ok ({ s with cur := { s.cur with argsSize := n } }, none)
  | .negateRaState =>
    match s.cur.regs raSignState with
    | none => .ok (setReg s raSignState (some (.constant 1)), none)
    | some (.constant v) => .ok (setReg s raSignState (some (.constant (v ^^^ 1))), none)
    | some _ => .error .rCfiInstructionInInvalidContext
  | .nop => .ok (s, none)

/-! ## resources a fixed-capacity implementation needs for a Spec state -/

/-- every register number -/
def allRegs : List Reg := (List.range 65536).map UInt16.ofNat

/-- number of register columns that hold an explicit rule -/
def ruleCount (m : RegMap) : Nat := (allRegs.filter (fun r => (m r).isSome)).length

/-- the extra row an implementation of gimli's design holds for the initial rules: none while the
CIE is being executed, none for zero or one initial rule (kept outside the row stack), one row
once the CIE has left two or more initial rules -/
def initRowsNeeded : Option RegMap → Nat
  | some m => if 2 ≤ ruleCount m then 1 else 0
  | none => 0

/-- rows an implementation of gimli's design holds for a Spec state: the current row, the
remembered ones, and `initRowsNeeded` -/
def rowsNeeded (s : State) : Nat := s.stack.length + 1 + initRowsNeeded s.init

/-- `n` items do not fit in a storage of capacity `c` -/
def exceeds (c : Cap) (n : Nat) : Bool :=
  match c with
  | none => false
  | some k => k < n

/-- `step`, then the two storage limits: `StackFull` exactly when the new state needs more than
`R` rows, `TooManyRegisterRules` exactly when its current row has more than `N` explicit rules -/
def stepB (p : Params) (R N : Cap) (s : State) (i : Instr) : Except Err (State × Option TableRow) :=
  match step p s i with
  | .error e => .error e
  | .ok (s', row) =>
    if exceeds R (rowsNeeded s') then .error .rStackFull
    else if exceeds N (ruleCount s'.cur.regs) then .error .rTooManyRegisterRules
    else .ok (s', row)

/-- run a stream: the instructions `is`, then the stream ends cleanly (`malformed = none`) or is
undecodable from there on (`some e`).  A clean end completes the last row at `endAddr`. -/
def exec (p : Params) (R N : Cap) (endAddr : Nat) : State → List Instr → Option Err →
    List TableRow × Except Err State
  | s, [], none => ([⟨s.loc, endAddr, s.cur⟩], .ok s)
  | _, [], some e => ([], .error e)
  | s, i :: is, malformed =>
    match stepB p R N s i with
    | .error e => ([], .error e)
    | .ok (s', none) => exec p R N endAddr s' is malformed
    | .ok (s', some row) =>
      let r := exec p R N endAddr s' is malformed
      (row :: r.1, r.2)

/-- the end address of an FDE: `initial_location + address_range` in the CIE's address size -/
def fdeEnd (p : Params) (initial len : Nat) : Nat := ((initial + len) % 2 ^ 64) % 2 ^ (8 * p.addressSize)

/-- the unwind table of an FDE: execute the CIE's initial instructions from the initial state
(rows they create are not part of the table), take the register columns as initial rules, then
execute the FDE's instructions starting at `initial` -/
def table (p : Params) (R N : Cap) (cie : List Instr) (cieMalformed : Option Err)
    (fde : List Instr) (fdeMalformed : Option Err) (initial len : Nat) :
    List TableRow × Except Err Unit :=
  let s0 : State := { loc := 0, cur := RuleSet.initial, stack := [], init := none }
  match (exec p R N 0 s0 cie cieMalformed).2 with
  | .error e => ([], .error e)
  | .ok s1 =>
    let s2 : State := { s1 with loc := initial, init := some s1.cur.regs }
    if exceeds R (rowsNeeded s2) then ([], .error .rStackFull)
    else
      let r := exec p R N (fdeEnd p initial len) s2 fde fdeMalformed
      (r.1, r.2.map (fun _ => ()))

end Gimli.Spec.Unwind
