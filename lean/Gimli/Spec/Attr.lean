import Gimli.Model.Attr
/-!
# Spec: how DWARF encodes the value of an attribute form (DWARF 5 §7.5.5, §7.5.6; DWARF 2–4 §7.5.4)

`encodeForm enc form p` is the byte string a producer writes for a value with payload `p` in
form `form` under the unit's encoding parameters; `none` when `p` is not a value of that form
(wrong class, does not fit the width, a string containing NUL, an address size outside
1/2/4/8). `rawKind` is the value class the form denotes. Both are independent of the decoder:
they only use the integer/LEB128 *writers* proved correct in C09.

`DW_FORM_indirect` has no value of its own (its encoding is the ULEB128 code of the real form
followed by that form's encoding — `encodeIndirect`).
-/
namespace Gimli.Spec.Attr
open Gimli Gimli.Attr

def validAddressSize (n : Nat) : Prop := n = 1 ∨ n = 2 ∨ n = 4 ∨ n = 8

instance (n : Nat) : Decidable (validAddressSize n) := by unfold validAddressSize; infer_instance

/-- an unsigned number in exactly `n` bytes of the unit's byte order -/
def encFixed (e : Endian) (n : Nat) : Payload → Option Bytes
  | .num v => if v < 2 ^ (8 * n) then some (Ints.toBytes e n v) else none
  | _ => none

/-- an unsigned number as ULEB128 -/
def encUleb : Payload → Option Bytes
  | .num v => if v < 2 ^ 64 then some (Leb.encodeU v) else none
  | _ => none

/-- a block: `w`-byte length, then the bytes -/
def encBlock (e : Endian) (w : Nat) : Payload → Option Bytes
  | .bytes b => if b.length < 2 ^ (8 * w) then some (Ints.toBytes e w b.length ++ b) else none
  | _ => none

/-- a block or expression: ULEB128 length, then the bytes -/
def encBlockLeb : Payload → Option Bytes
  | .bytes b => if b.length < 2 ^ 64 then some (Leb.encodeU b.length ++ b) else none
  | _ => none

/-- the encoding of a value of form `form` -/
def encodeForm (enc : Encoding) (form : Form) (p : Payload) : Option Bytes :=
  let e := enc.endian
  match form with
  | .addr => if validAddressSize enc.addressSize then encFixed e enc.addressSize p else none
  | .data1 | .ref1 | .strx1 | .addrx1 => encFixed e 1 p
  | .data2 | .ref2 | .strx2 | .addrx2 => encFixed e 2 p
  | .strx3 | .addrx3 => encFixed e 3 p
  | .data4 | .ref4 | .refSup4 | .strx4 | .addrx4 => encFixed e 4 p
  | .data8 | .ref8 | .refSig8 | .refSup8 => encFixed e 8 p
  | .data16 => encFixed e 16 p
  | .secOffset | .strp | .strpSup | .lineStrp | .gnuRefAlt | .gnuStrpAlt => encFixed e enc.format.wordSize p
  | .refAddr =>
    if enc.version = 2 then
      if validAddressSize enc.addressSize then encFixed e enc.addressSize p else none
    else encFixed e enc.format.wordSize p
  | .udata | .refUdata | .strx | .addrx | .loclistx | .rnglistx | .gnuAddrIndex | .gnuStrIndex => encUleb p
  | .sdata =>
    match p with
    | .int i => if -2 ^ 63 ≤ i ∧ i < 2 ^ 63 then some (Leb.encodeS i) else none
    | _ => none
  | .block1 => encBlock e 1 p
  | .block2 => encBlock e 2 p
  | .block4 => encBlock e 4 p
  | .block | .exprloc => encBlockLeb p
  | .string =>
    match p with
    | .bytes s => if (0 : UInt8) ∉ s then some (s ++ [0]) else none
    | _ => none
  | .flag =>
    match p with
    | .flag b => some [if b then 1 else 0]
    | _ => none
  | .flagPresent =>
    match p with
    | .flag true => some []
    | _ => none
  | .implicitConst =>
    -- the value is carried by the abbreviation, nothing is written in the entry
    match p with
    | .int _ => some []
    | _ => none
  | .indirect | .unknown _ => none

/-- the value class (`AttributeValue` variant) a form denotes; `DW_FORM_data4/8` denote a section
offset for the attributes of DWARF 2/3 that may hold one when the width equals the offset size -/
def rawKind (enc : Encoding) (name : Nat) : Form → Kind
  | .addr => .addr
  | .block | .block1 | .block2 | .block4 => .block
  | .data1 => .data1 | .data2 => .data2
  | .data4 => if enc.format = .dwarf32 ∧ allowSectionOffset name enc.version then .secOffset else .data4
  | .data8 => if enc.format = .dwarf64 ∧ allowSectionOffset name enc.version then .secOffset else .data8
  | .data16 => .data16
  | .udata => .udata | .sdata => .sdata | .implicitConst => .sdata
  | .exprloc => .exprloc
  | .flag | .flagPresent => .flag
  | .secOffset => .secOffset
  | .ref1 | .ref2 | .ref4 | .ref8 | .refUdata => .unitRef
  | .refAddr => .debugInfoRef
  | .refSig8 => .debugTypesRef
  | .refSup4 | .refSup8 | .gnuRefAlt => .debugInfoRefSup
  | .string => .string
  | .strp => .debugStrRef
  | .strpSup | .gnuStrpAlt => .debugStrRefSup
  | .lineStrp => .debugLineStrRef
  | .strx | .strx1 | .strx2 | .strx3 | .strx4 | .gnuStrIndex => .debugStrOffsetsIndex
  | .addrx | .addrx1 | .addrx2 | .addrx3 | .addrx4 | .gnuAddrIndex => .debugAddrIndex
  | .loclistx => .debugLocListsIndex
  | .rnglistx => .debugRngListsIndex
  | .indirect | .unknown _ => .data1

/-- the attribute values of one entry, written one after the other in the order of the
abbreviation's specifications -/
def encodeAttrs (enc : Encoding) : List (Spec × Payload) → Option Bytes
  | [] => some []
  | (s, p) :: rest =>
    match encodeForm enc s.form p, encodeAttrs enc rest with
    | some b, some bs => some (b ++ bs)
    | _, _ => none

end Gimli.Spec.Attr
