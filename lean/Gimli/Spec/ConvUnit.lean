import Gimli.Model.ConvUnit
/-!
# Spec for the conversion of units: the input entries as a forest

`IForest` is the forest of the entries of a unit *below the root*, in first-child / next-sibling
form exactly like `Spec.Forest` (C02), with what the conversion needs of each entry: the id
`ConvertUnitSection::new` reserved for it, tag, children flag, section offset, attributes.
`items` is the stream `EntriesRaw` delivers for it (C02: `Spec.Forest.listing` without the null
entries, which `read_entry` skips); `flatten` is the list of (id, parent id, tag) in depth-first
order, i.e. the forest itself in the vocabulary of `write::Unit::add_reserved(id, parent, tag)`:
the children of an entry, in order, are the entries that name it as parent, in list order.
-/
namespace Gimli.ConvUnit
open Gimli Gimli.Attr Gimli.WUnit

/-- the input entries after the root as a forest (first child / next sibling, as `Spec.Forest`);
every node carries the id reserved for it -/
inductive IForest where
  | nil
  | node (id tag : Nat) (children : Bool) (off : Nat) (attrs : List RAttr) (kids sibs : IForest)

namespace IForest

/-- an entry without the children flag has no children -/
def WF : IForest → Prop
  | nil => True
  | node _ _ ch _ _ kids sibs => (ch = false → kids = nil) ∧ kids.WF ∧ sibs.WF

/-- what `EntriesRaw` delivers for the forest at depth `d` (null entries are skipped by
`read_entry`, so they are left out) -/
def items (d : Int) : IForest → List RItem
  | nil => []
  | node _ tag ch off attrs kids sibs =>
    { off := off, depth := d, tag := tag, children := ch, attrs := attrs } :: (items (d + 1) kids ++ items d sibs)

/-- (id, parent id, tag) of every entry, in depth-first order -/
def flatten (parent : Nat) : IForest → List (Nat × Nat × Nat)
  | nil => []
  | node id tag _ _ _ kids sibs => (id, parent, tag) :: (flatten id kids ++ flatten parent sibs)

/-- the reserved ids, as the map `entry_ids` restricted to the forest -/
def HasIds (ids : Nat → Option Nat) : IForest → Prop
  | nil => True
  | node id _ _ off _ kids sibs => ids off = some id ∧ kids.HasIds ids ∧ sibs.HasIds ids

end IForest

end Gimli.ConvUnit
