import Gimli.Prim.Basic
/-!
# Spec: what a LEB128 byte string means (DWARF 5 §7.6)

Mathematical, unbounded. No machine widths here.
-/
namespace Gimli.Spec

/-- unsigned value of a sequence of LEB128 groups: Σ (bᵢ mod 128)·128^i -/
def ulebVal : Bytes → Nat
  | [] => 0
  | b :: rest => b.toNat % 128 + 128 * ulebVal rest

/-- `pre` is exactly one LEB128 number: continuation bit set on every byte but the last. -/
def IsLebEnc : Bytes → Prop
  | [] => False
  | [b] => b.toNat < 128
  | b :: c :: rest => 128 ≤ b.toNat ∧ IsLebEnc (c :: rest)

instance : (bs : Bytes) → Decidable (IsLebEnc bs)
  | [] => isFalse (by simp [IsLebEnc])
  | [b] => by unfold IsLebEnc; infer_instance
  | b :: c :: rest => by
    unfold IsLebEnc
    have := instDecidableIsLebEnc (c :: rest)
    infer_instance

/-- every byte has the continuation bit (an unfinished number) -/
def AllCont (bs : Bytes) : Prop := ∀ b ∈ bs, 128 ≤ b.toNat

/-- signed value of a sequence of LEB128 groups: two's complement, sign-extended from bit 6 of the
last group: Σ (bᵢ mod 128)·128^i, minus 128^n when the last group has its sign bit set. -/
def slebVal : Bytes → Int
  | [] => 0
  | [b] => if 64 ≤ b.toNat % 128 then (b.toNat % 128 : Int) - 128 else (b.toNat % 128 : Int)
  | b :: c :: rest => (b.toNat % 128 : Int) + 128 * slebVal (c :: rest)

end Gimli.Spec
