import Gimli.Model.Leb
/-!
# Spec: the forest of debugging information entries of a unit and its DWARF encoding
(DWARF 5 §2.3, §7.5.2, §7.5.3)

A unit's entries form an ordered forest (one tree for a conforming unit; the readers accept any
number of top-level entries). Each entry is written as its abbreviation code (ULEB128) followed
by its attribute values; an entry whose abbreviation has the children flag is followed by its
children and one null entry (a zero byte), *even when it has no children*; siblings follow one
another directly.

`Forest` is the forest in first-child / next-sibling form: `node d kids sibs` is the tree with
root `d` and children `kids`, followed by the trees `sibs`. This makes "depth first order" the
structural order of the type, so every function below is a plain structural recursion.

`encode` *defines* what a well-formed unit body is; `listing` is the exact list of
(offset, depth, tag, children flag) — null entries included — that a faithful reader must report.
-/
namespace Gimli.Spec

/-- what a reader reports about one entry -/
structure Item where
  offset : Nat
  depth : Int
  tag : Nat
  children : Bool
  deriving DecidableEq, Repr, Inhabited

/-- `tag = DW_TAG_null` -/
def Item.isNull (i : Item) : Bool := i.tag = 0

/-- one entry: its abbreviation code, what the abbreviation declares (tag, children flag) and the
encoded attribute values -/
structure Node where
  code : Nat
  tag : Nat
  children : Bool
  attrBytes : Bytes
  deriving DecidableEq, Repr, Inhabited

/-- forest in first-child / next-sibling form -/
inductive Forest where
  | nil
  | node (d : Node) (kids : Forest) (sibs : Forest)
  deriving Repr, Inhabited

namespace Forest

/-- an entry without the children flag has no children -/
def WF : Forest → Prop
  | nil => True
  | node d kids sibs => (d.children = false → kids = nil) ∧ kids.WF ∧ sibs.WF

/-- bytes of the abbreviation code and the attribute values of an entry -/
def headBytes (d : Node) : Bytes := Leb.encodeU d.code ++ d.attrBytes

/-- DWARF encoding of a forest -/
def encode : Forest → Bytes
  | nil => []
  | node d kids sibs =>
    headBytes d ++ ((if d.children then encode kids ++ [0] else []) ++ encode sibs)

/-- number of entries a reader sees, null entries included -/
def count : Forest → Nat
  | nil => 0
  | node d kids sibs => 1 + ((if d.children then count kids + 1 else 0) + count sibs)

/-- the entries in depth-first order with their unit offsets and depths, null entries included;
`off` is the offset of the first entry, `depth` its depth -/
def listing (off : Nat) (depth : Int) : Forest → List Item
  | nil => []
  | node d kids sibs =>
    let o1 := off + (headBytes d).length
    let o2 := if d.children then o1 + (encode kids).length + 1 else o1
    ⟨off, depth, d.tag, d.children⟩ ::
      ((if d.children then listing o1 (depth + 1) kids ++ [⟨o1 + (encode kids).length, depth + 1, 0, false⟩]
        else []) ++ listing o2 depth sibs)

/-- `pad` null entries behind a forest (alignment padding at the end of a unit): each is read
one level further up -/
def padding (off : Nat) (depth : Int) : Nat → List Item
  | 0 => []
  | n + 1 => ⟨off, depth, 0, false⟩ :: padding (off + 1) (depth - 1) n

/-- body of a unit: the forest and `pad` trailing null bytes -/
def encodeUnit (f : Forest) (pad : Nat) : Bytes := encode f ++ List.replicate pad 0

/-- what a faithful reader reports for `encodeUnit f pad` placed at unit offset `off` -/
def listingUnit (off : Nat) (f : Forest) (pad : Nat) : List Item :=
  listing off 0 f ++ padding (off + (encode f).length) 0 pad

end Forest
end Gimli.Spec
