import Gimli.Model.CfiEntry
/-!
# Spec: `.eh_frame` / `.debug_frame` / `.eh_frame_hdr` — what the bytes mean
(DWARF 5 §6.4.1, LSB Core "Exception Frames" and "DWARF Extensions")

Declarative, no machine widths except where the format itself has them.
-/
namespace Gimli.Spec.Frame

/-! ## `DW_EH_PE_*` pointer encodings (LSB "DWARF Exception Header Encoding") -/

/-- value formats (low 4 bits): absptr, uleb128, udata2, udata4, udata8, sleb128, sdata2, sdata4, sdata8 -/
def formatDefined (f : Nat) : Prop :=
  f = 0x00 ∨ f = 0x01 ∨ f = 0x02 ∨ f = 0x03 ∨ f = 0x04 ∨ f = 0x09 ∨ f = 0x0a ∨ f = 0x0b ∨ f = 0x0c

/-- applications (bits 4..6): absolute, pcrel, textrel, datarel, funcrel, aligned -/
def applicationDefined (a : Nat) : Prop :=
  a = 0x00 ∨ a = 0x10 ∨ a = 0x20 ∨ a = 0x30 ∨ a = 0x40 ∨ a = 0x50

/-- a pointer-encoding byte is meaningful iff it is `DW_EH_PE_omit` (0xff) or a defined format
combined with a defined application, with or without `DW_EH_PE_indirect` (0x80) -/
def validEncoding (b : Nat) : Prop :=
  b = 0xff ∨ (formatDefined (b % 16) ∧ applicationDefined (b / 16 % 8 * 16))

instance (f : Nat) : Decidable (formatDefined f) := by unfold formatDefined; infer_instance
instance (a : Nat) : Decidable (applicationDefined a) := by unfold applicationDefined; infer_instance
instance (b : Nat) : Decidable (validEncoding b) := by unfold validEncoding; infer_instance

/-! ## address coverage -/

/-- an FDE describes the addresses `initial ≤ a < initial + len` (DWARF 5 §6.4.1:
`initial_location`, `address_range`) — mathematical integers, no wrap-around -/
def covers (initial len a : Nat) : Prop := initial ≤ a ∧ a < initial + len

instance (i l a : Nat) : Decidable (covers i l a) := by unfold covers; infer_instance

/-! ## encoded pointers (LSB "DWARF Exception Header Encoding")

A pointer field holds an *operand* in the value format of its encoding byte; the pointer is
`base + operand` modulo the address size, where `base` is selected by the application bits. -/

open Gimli.CfiEntry in
/-- the base an application refers to, for a field at section offset `off`; `none` when the caller
did not provide it (or the application has no base: `aligned`, undefined) -/
def neededBase (enc : Nat) (p : PeParams) (off : Nat) : Option Nat :=
  let a := peApplication enc
  if a = 0 then some 0
  else if a = 0x10 then p.bases.sect.map (fun sb => (sb + off) % 2 ^ 64 % 2 ^ (8 * p.asz))
  else if a = 0x20 then p.bases.text
  else if a = 0x30 then p.bases.data
  else if a = 0x40 then p.funcBase
  else none

open Gimli.CfiEntry in
/-- the error gimli reports for an absent base -/
def missingBaseErr (enc : Nat) : Err :=
  let a := peApplication enc
  if a = 0x10 then .rPcRelativePointerButSectionBaseIsUndefined
  else if a = 0x20 then .rTextRelativePointerButTextBaseIsUndefined
  else if a = 0x30 then .rDataRelativePointerButDataBaseIsUndefined
  else .rFuncRelativePointerInBadContext

open Gimli.CfiEntry in
/-- the bytes of an operand (a 64-bit pattern `x`; negative operands of the signed formats are
their two's-complement patterns) in value format `enc % 16`, when it fits.  `sleb128` is not
given an encoder here (no signed-LEB round-trip theorem exists yet): `none`. -/
def encodeOperand (e : Endian) (enc asz x : Nat) : Option Bytes :=
  let f := peFormat enc
  if f = 0 then
    if (asz = 1 ∨ asz = 2 ∨ asz = 4 ∨ asz = 8) ∧ x < 2 ^ (8 * asz) then some (Ints.toBytes e asz x) else none
  else if f = 1 then (if x < 2 ^ 64 then some (Leb.encodeU x) else none)
  else if f = 2 then (if x < 2 ^ 16 then some (Ints.toBytes e 2 x) else none)
  else if f = 3 then (if x < 2 ^ 32 then some (Ints.toBytes e 4 x) else none)
  else if f = 4 then (if x < 2 ^ 64 then some (Ints.toBytes e 8 x) else none)
  else if f = 0x0a then (if sext 2 (x % 2 ^ 16) = x then some (Ints.toBytes e 2 (x % 2 ^ 16)) else none)
  else if f = 0x0b then (if sext 4 (x % 2 ^ 32) = x then some (Ints.toBytes e 4 (x % 2 ^ 32)) else none)
  else if f = 0x0c then (if x < 2 ^ 64 then some (Ints.toBytes e 8 x) else none)
  else none

/-- an operand that makes `base + operand ≡ target` modulo the address size (the canonical
non-negative one; for a signed format the encoder may instead use `operand + 2^64 − 2^(8·asz)`) -/
def operandFor (asz base target : Nat) : Nat :=
  (target + 2 ^ (8 * asz) - base % 2 ^ (8 * asz)) % 2 ^ (8 * asz)

/-! ## abstract entries and their encoding: what a well-formed section is

`encodeFrameSection` lays out a list of abstract CIEs/FDEs (and zero-length words) as the DWARF /
LSB text prescribes; a section is *well-formed* when it is the image of such a list satisfying
`WF`. (`daf` is restricted to one-byte SLEB128, `-64 ≤ daf < 64`, and pointer operands to the
formats `encodeOperand` covers — no sleb128 —, for lack of a signed-LEB128 round-trip theorem.) -/

open Gimli.CfiEntry

/-- one augmentation character after the leading `z`, with its argument in the augmentation data -/
inductive AugArg where
  /-- `L`: encoding of the LSDA pointers of the FDEs -/
  | lsda (enc : Nat)
  /-- `P`: encoding and operand of the personality routine pointer -/
  | pers (enc : Nat) (operand : Nat)
  /-- `R`: encoding of the FDE address fields -/
  | fdeEnc (enc : Nat)
  /-- `S`: signal trampoline -/
  | signal
  deriving Repr

def AugArg.char : AugArg → UInt8
  | .lsda _ => 0x4c
  | .pers _ _ => 0x50
  | .fdeEnc _ => 0x52
  | .signal => 0x53

def AugArg.data (e : Endian) (asz : Nat) : AugArg → Bytes
  | .lsda enc => [UInt8.ofNat enc]
  | .pers enc x => UInt8.ofNat enc :: (encodeOperand e enc asz x).getD []
  | .fdeEnc enc => [UInt8.ofNat enc]
  | .signal => []

/-- abstract CIE -/
structure ACie where
  format : Format
  version : Nat
  /-- the characters after `z`; `[]` = empty augmentation string -/
  args : List AugArg
  /-- unused bytes at the end of the augmentation data (covered by its length) -/
  augPad : Bytes
  /-- address size: encoded (with segment size 0) only in `.debug_frame` version 4 -/
  asz : Nat
  caf : Nat
  daf : Int
  rar : Nat
  instr : Bytes

/-- one-byte signed LEB128 of `-64 ≤ v < 64` -/
def sleb1 (v : Int) : UInt8 := UInt8.ofNat (v % 128).toNat

/-- the length field: 4 bytes, or `0xffff_ffff` and 8 bytes -/
def lengthField (e : Endian) (f : Format) (n : Nat) : Bytes :=
  match f with
  | .dwarf32 => Ints.toBytes e 4 n
  | .dwarf64 => Ints.toBytes e 4 0xffff_ffff ++ Ints.toBytes e 8 n

/-- the CIE id: 0 in `.eh_frame`, all-ones of the format's width in `.debug_frame` -/
def cieIdField (eh : Bool) (e : Endian) (f : Format) : Bytes :=
  if eh then Ints.toBytes e 4 0
  else match f with
    | .dwarf32 => Ints.toBytes e 4 0xffff_ffff
    | .dwarf64 => Ints.toBytes e 8 0xffff_ffff_ffff_ffff

def ACie.augString (ci : ACie) : Bytes := if ci.args.isEmpty then [] else 0x7a :: ci.args.map AugArg.char

def ACie.augData (e : Endian) (ci : ACie) : Bytes := ci.args.flatMap (AugArg.data e ci.asz) ++ ci.augPad

/-- address size and segment size: only in `.debug_frame` version 4 -/
def ACie.aszBytes (eh : Bool) (ci : ACie) : Bytes :=
  if ¬ eh ∧ ci.version = 4 then [UInt8.ofNat ci.asz, 0] else []

/-- return address register: one byte in version 1, ULEB128 later -/
def ACie.rarBytes (ci : ACie) : Bytes :=
  if ci.version = 1 then [UInt8.ofNat ci.rar] else Leb.encodeU ci.rar

/-- augmentation data with its ULEB128 length, present iff the string starts with `z` -/
def ACie.augBlock (e : Endian) (ci : ACie) : Bytes :=
  if ci.args.isEmpty then [] else Leb.encodeU (ci.augData e).length ++ ci.augData e

/-- everything after the CIE id: version, augmentation string, (address size, segment size),
code and data alignment factors, return address register, (augmentation data), instructions -/
def ACie.fields (eh : Bool) (e : Endian) (ci : ACie) : Bytes :=
  UInt8.ofNat ci.version :: (ci.augString ++ 0 :: (ci.aszBytes eh ++ (Leb.encodeU ci.caf ++
    sleb1 ci.daf :: (ci.rarBytes ++ (ci.augBlock e ++ ci.instr)))))

/-- a CIE entry: length, id, fields -/
def encodeCie (eh : Bool) (e : Endian) (ci : ACie) : Bytes :=
  let body := cieIdField eh e ci.format ++ ci.fields eh e
  lengthField e ci.format body.length ++ body

end Gimli.Spec.Frame
