import Gimli.Model.CfiEntry
/-!
# Spec: `.eh_frame` / `.debug_frame` / `.eh_frame_hdr` — what the bytes mean
(DWARF 5 §6.4.1, LSB Core "Exception Frames" and "DWARF Extensions")

Contents, in reading order:
* `validEncoding` — the LSB definition of a meaningful `DW_EH_PE_*` byte; `covers` — the addresses an FDE describes;
* `neededBase`, `missingBaseErr`, `encodeOperand`, `operandFor` — what an encoded pointer field means;
* abstract CIEs (`ACie`, `AugArg`) and FDEs (`AFde`), their encoders `encodeCie` / `encodeFde`, sections
  (`AEntry`, `encodeEntries`, `encodeFrameSection`) and what the reader must report for them
  (`ACie.expect`, `AFde.expectPartial`, `AFde.expect`, `expectEntries`), with the layout side conditions
  (`ACie.WF`, `AFde.WF`, `EntriesWF`, `PtrOk`, `LenOk`) that make a list of entries a *well-formed section*;
* the abstract `.eh_frame_hdr` (`AHdr`, `encodeHdr`, `AHdr.expect`, `AHdr.WF`, `AHdr.RowOk`, `hdrKey`, `hdrVal`).

The encoders use the Model's integer/ULEB128 writers (`Ints.toBytes`, `Leb.encodeU`: C09 proves them inverse to the
readers); everything else is declarative.
-/
namespace Gimli.Spec.Frame

/-! ## `DW_EH_PE_*` pointer encodings (LSB "DWARF Exception Header Encoding") -/

/-- value formats (low 4 bits): absptr, uleb128, udata2, udata4, udata8, sleb128, sdata2, sdata4, sdata8 -/
def formatDefined (f : Nat) : Prop :=
  f = 0x00 ∨ f = 0x01 ∨ f = 0x02 ∨ f = 0x03 ∨ f = 0x04 ∨ f = 0x09 ∨ f = 0x0a ∨ f = 0x0b ∨ f = 0x0c

/-- applications (bits 4..6): absolute, pcrel, textrel, datarel, funcrel, aligned -/
def applicationDefined (a : Nat) : Prop :=
  a = 0x00 ∨ a = 0x10 ∨ a = 0x20 ∨ a = 0x30 ∨ a = 0x40 ∨ a = 0x50

/-- a pointer-encoding byte is meaningful iff it is `DW_EH_PE_omit` (0xff) or a defined format
combined with a defined application, with or without `DW_EH_PE_indirect` (0x80) -/
def validEncoding (b : Nat) : Prop :=
  b = 0xff ∨ (formatDefined (b % 16) ∧ applicationDefined (b / 16 % 8 * 16))

instance (f : Nat) : Decidable (formatDefined f) := by unfold formatDefined; infer_instance
instance (a : Nat) : Decidable (applicationDefined a) := by unfold applicationDefined; infer_instance
instance (b : Nat) : Decidable (validEncoding b) := by unfold validEncoding; infer_instance

/-! ## address coverage -/

/-- an FDE describes the addresses `initial ≤ a < initial + len` (DWARF 5 §6.4.1:
`initial_location`, `address_range`) — mathematical integers, no wrap-around -/
def covers (initial len a : Nat) : Prop := initial ≤ a ∧ a < initial + len

instance (i l a : Nat) : Decidable (covers i l a) := by unfold covers; infer_instance

/-! ## encoded pointers (LSB "DWARF Exception Header Encoding")

A pointer field holds an *operand* in the value format of its encoding byte; the pointer is
`base + operand` modulo the address size, where `base` is selected by the application bits. -/

open Gimli.CfiEntry in
/-- the base an application refers to, for a field at section offset `off`; `none` when the caller
did not provide it (or the application has no base: `aligned`, undefined) -/
def neededBase (enc : Nat) (p : PeParams) (off : Nat) : Option Nat :=
  let a := peApplication enc
  if a = 0 then some 0
  else if a = 0x10 then p.bases.sect.map (fun sb => (sb + off) % 2 ^ 64 % 2 ^ (8 * p.asz))
  else if a = 0x20 then p.bases.text
  else if a = 0x30 then p.bases.data
  else if a = 0x40 then p.funcBase
  else none

open Gimli.CfiEntry in
/-- the error gimli reports for an absent base -/
def missingBaseErr (enc : Nat) : Err :=
  let a := peApplication enc
  if a = 0x10 then .rPcRelativePointerButSectionBaseIsUndefined
  else if a = 0x20 then .rTextRelativePointerButTextBaseIsUndefined
  else if a = 0x30 then .rDataRelativePointerButDataBaseIsUndefined
  else .rFuncRelativePointerInBadContext

open Gimli.CfiEntry in
/-- the bytes of an operand (a 64-bit pattern `x`; negative operands of the signed formats are
their two's-complement patterns) in value format `enc % 16`, when it fits; `sleb128` encodes the
signed reading of the pattern. -/
def encodeOperand (e : Endian) (enc asz x : Nat) : Option Bytes :=
  let f := peFormat enc
  if f = 0 then
    if (asz = 1 ∨ asz = 2 ∨ asz = 4 ∨ asz = 8) ∧ x < 2 ^ (8 * asz) then some (Ints.toBytes e asz x) else none
  else if f = 1 then (if x < 2 ^ 64 then some (Leb.encodeU x) else none)
  else if f = 2 then (if x < 2 ^ 16 then some (Ints.toBytes e 2 x) else none)
  else if f = 3 then (if x < 2 ^ 32 then some (Ints.toBytes e 4 x) else none)
  else if f = 4 then (if x < 2 ^ 64 then some (Ints.toBytes e 8 x) else none)
  else if f = 0x0a then (if sext 2 (x % 2 ^ 16) = x then some (Ints.toBytes e 2 (x % 2 ^ 16)) else none)
  else if f = 0x0b then (if sext 4 (x % 2 ^ 32) = x then some (Ints.toBytes e 4 (x % 2 ^ 32)) else none)
  else if f = 0x0c then (if x < 2 ^ 64 then some (Ints.toBytes e 8 x) else none)
  else if f = 9 then (if x < 2 ^ 64 then some (Leb.encodeS (Leb.toI64 x)) else none)
  else none

/-- an operand that makes `base + operand ≡ target` modulo the address size (the canonical
non-negative one; for a signed format the encoder may instead use `operand + 2^64 − 2^(8·asz)`) -/
def operandFor (asz base target : Nat) : Nat :=
  (target + 2 ^ (8 * asz) - base % 2 ^ (8 * asz)) % 2 ^ (8 * asz)

/-! ## abstract entries and their encoding: what a well-formed section is

`encodeFrameSection` lays out a list of abstract CIEs/FDEs (and zero-length words) as the DWARF /
LSB text prescribes; a section is *well-formed* when it is the image of such a list satisfying
`WF`. -/

open Gimli.CfiEntry

/-- one augmentation character after the leading `z`, with its argument in the augmentation data -/
inductive AugArg where
  /-- `L`: encoding of the LSDA pointers of the FDEs -/
  | lsda (enc : Nat)
  /-- `P`: encoding and operand of the personality routine pointer -/
  | pers (enc : Nat) (operand : Nat)
  /-- `R`: encoding of the FDE address fields -/
  | fdeEnc (enc : Nat)
  /-- `S`: signal trampoline -/
  | signal
  deriving Repr

def AugArg.char : AugArg → UInt8
  | .lsda _ => 0x4c
  | .pers _ _ => 0x50
  | .fdeEnc _ => 0x52
  | .signal => 0x53

def AugArg.data (e : Endian) (asz : Nat) : AugArg → Bytes
  | .lsda enc => [UInt8.ofNat enc]
  | .pers enc x => UInt8.ofNat enc :: (encodeOperand e enc asz x).getD []
  | .fdeEnc enc => [UInt8.ofNat enc]
  | .signal => []

/-- abstract CIE -/
structure ACie where
  format : Format
  version : Nat
  /-- the characters after `z`; `[]` = empty augmentation string -/
  args : List AugArg
  /-- unused bytes at the end of the augmentation data (covered by its length) -/
  augPad : Bytes
  /-- address size: encoded (with segment size 0) only in `.debug_frame` version 4 -/
  asz : Nat
  caf : Nat
  daf : Int
  rar : Nat
  instr : Bytes

/-- the length field: 4 bytes, or `0xffff_ffff` and 8 bytes -/
def lengthField (e : Endian) (f : Format) (n : Nat) : Bytes :=
  match f with
  | .dwarf32 => Ints.toBytes e 4 n
  | .dwarf64 => Ints.toBytes e 4 0xffff_ffff ++ Ints.toBytes e 8 n

/-- the CIE id: 0 in `.eh_frame`, all-ones of the format's width in `.debug_frame` -/
def cieIdField (eh : Bool) (e : Endian) (f : Format) : Bytes :=
  if eh then Ints.toBytes e 4 0
  else match f with
    | .dwarf32 => Ints.toBytes e 4 0xffff_ffff
    | .dwarf64 => Ints.toBytes e 8 0xffff_ffff_ffff_ffff

def ACie.augString (ci : ACie) : Bytes := if ci.args.isEmpty then [] else 0x7a :: ci.args.map AugArg.char

def ACie.augData (e : Endian) (ci : ACie) : Bytes := ci.args.flatMap (AugArg.data e ci.asz) ++ ci.augPad

/-- address size and segment size: only in `.debug_frame` version 4 -/
def ACie.aszBytes (eh : Bool) (ci : ACie) : Bytes :=
  if ¬ eh ∧ ci.version = 4 then [UInt8.ofNat ci.asz, 0] else []

/-- return address register: one byte in version 1, ULEB128 later -/
def ACie.rarBytes (ci : ACie) : Bytes :=
  if ci.version = 1 then [UInt8.ofNat ci.rar] else Leb.encodeU ci.rar

/-- augmentation data with its ULEB128 length, present iff the string starts with `z` -/
def ACie.augBlock (e : Endian) (ci : ACie) : Bytes :=
  if ci.args.isEmpty then [] else Leb.encodeU (ci.augData e).length ++ ci.augData e

/-- everything after the CIE id: version, augmentation string, (address size, segment size),
code and data alignment factors, return address register, (augmentation data), instructions -/
def ACie.fields (eh : Bool) (e : Endian) (ci : ACie) : Bytes :=
  UInt8.ofNat ci.version :: (ci.augString ++ 0 :: (ci.aszBytes eh ++ (Leb.encodeU ci.caf ++
    (Leb.encodeS ci.daf ++ (ci.rarBytes ++ (ci.augBlock e ++ ci.instr))))))

/-- a CIE entry: length, id, fields -/
def encodeCie (eh : Bool) (e : Endian) (ci : ACie) : Bytes :=
  let body := cieIdField eh e ci.format ++ ci.fields eh e
  lengthField e ci.format body.length ++ body

end Gimli.Spec.Frame

namespace Gimli.CfiEntry
open Gimli Gimli.Ints Gimli.Spec.Frame

/-- size of the length field -/
def lsz : Format → Nat
  | .dwarf32 => 4
  | .dwarf64 => 12

/-- lengths a length field of the format can hold -/
def LenOk (f : Format) (n : Nat) : Prop :=
  match f with
  | .dwarf32 => n < 0xffff_fff0
  | .dwarf64 => n < 2 ^ 64

/-- side conditions on one augmentation argument -/
def ArgWF (e : Endian) (_bases : SecBases) (asz : Nat) : AugArg → Prop
  | .lsda enc => enc < 256 ∧ isValidEncoding enc = true
  | .fdeEnc enc => enc < 256 ∧ isValidEncoding enc = true
  | .signal => True
  | .pers enc x => enc < 256 ∧ isValidEncoding enc = true ∧ enc ≠ 0xff ∧ peApplication enc ≠ 0x50 ∧
      (encodeOperand e enc asz x).isSome = true

/-- what one argument contributes to the parsed `Augmentation`, and the offset after its data -/
def applyArg (e : Endian) (bases : SecBases) (asz : Nat) (a : Aug) (o : Nat) : AugArg → Option (Aug × Nat)
  | .lsda enc => some ({ a with lsda := some enc }, o + 1)
  | .fdeEnc enc => some ({ a with fdeEnc := some enc }, o + 1)
  | .signal => some ({ a with signal := true }, o)
  | .pers enc x =>
    match neededBase enc { bases := bases, funcBase := none, asz := asz } (o + 1) with
    | some b =>
      some ({ a with personality := some (enc, Ptr.new enc ((b + x) % 2 ^ 64 % 2 ^ (8 * asz))) },
            o + 1 + ((encodeOperand e enc asz x).getD []).length)
    | none => none

def applyArgs (e : Endian) (bases : SecBases) (asz : Nat) : List AugArg → Aug → Nat → Option (Aug × Nat)
  | [], a, o => some (a, o)
  | arg :: t, a, o =>
    match applyArg e bases asz a o arg with
    | some (a', o') => applyArgs e bases asz t a' o'
    | none => none

end Gimli.CfiEntry

namespace Gimli.Spec.Frame
open Gimli Gimli.Ints Gimli.CfiEntry

/-- the address size a CIE ends up with -/
def cieAsz (c : Cfg) (ci : ACie) : Nat := if ¬ c.eh ∧ ci.version = 4 then ci.asz else c.asz

/-- offset of the first byte after the return-address register, for fields starting at `o` -/
def ACie.afterRar (c : Cfg) (ci : ACie) (o : Nat) : Nat :=
  o + 1 + ci.augString.length + 1 + (if ¬ c.eh ∧ ci.version = 4 then 2 else 0) +
    (Leb.encodeU ci.caf).length + (Leb.encodeS ci.daf).length + ci.rarBytes.length

/-- offset of the augmentation data (after its length) -/
def ACie.dataOff (c : Cfg) (ci : ACie) (o : Nat) : Nat :=
  ci.afterRar c o + (Leb.encodeU (ci.augData c.e).length).length

/-- offset of the initial instructions -/
def ACie.instrOff (c : Cfg) (ci : ACie) (o : Nat) : Nat :=
  if ci.args.isEmpty then ci.afterRar c o else ci.dataOff c o + (ci.augData c.e).length

/-- the `Augmentation` the reader must report -/
def ACie.expectAug (c : Cfg) (bases : Bases) (ci : ACie) (o : Nat) : Option Aug :=
  if ci.args.isEmpty then none
  else (applyArgs c.e bases.ehFrame ci.asz ci.args {} (ci.dataOff c o)).map Prod.fst

/-- well-formedness of an abstract CIE for a section kind / configuration -/
structure ACie.WF (c : Cfg) (bases : Bases) (ci : ACie) (o : Nat) : Prop where
  hver : ci.version = 1 ∨ ci.version = 3 ∨ ci.version = 4
  hasz : ci.asz = 1 ∨ ci.asz = 2 ∨ ci.asz = 4 ∨ ci.asz = 8
  hsame : ¬ (¬ c.eh ∧ ci.version = 4) → ci.asz = c.asz
  hcaf : ci.caf < 2 ^ 64
  hdaf : -(2 : Int) ^ 63 ≤ ci.daf ∧ ci.daf < 2 ^ 63
  hrar : if ci.version = 1 then ci.rar < 256 else ci.rar < 2 ^ 16
  hargs : ∀ arg, arg ∈ ci.args → ArgWF c.e bases.ehFrame ci.asz arg
  hbase : (applyArgs c.e bases.ehFrame ci.asz ci.args {} (ci.dataOff c o)).isSome = true
  hdata : (ci.augData c.e).length < 2 ^ 64


/-- width of the CIE id / CIE pointer field -/
def idSize (eh : Bool) (f : Format) : Nat := if eh ∨ f = .dwarf32 then 4 else 8

/-- the CIE id value -/
def cieIdVal (eh : Bool) (f : Format) : Nat :=
  if eh then 0 else match f with
    | .dwarf32 => 0xffff_ffff
    | .dwarf64 => 0xffff_ffff_ffff_ffff

/-- total size of an encoded CIE -/
def ACie.size (eh : Bool) (e : Endian) (ci : ACie) : Nat :=
  lsz ci.format + (idSize eh ci.format + (ci.fields eh e).length)

/-- the `CommonInformationEntry` the reader must report for `ci` encoded at offset `off` -/
def ACie.expect (c : Cfg) (bases : Bases) (ci : ACie) (off : Nat) : Cie :=
  let o := off + lsz ci.format + idSize c.eh ci.format
  { offset := off, length := idSize c.eh ci.format + (ci.fields c.eh c.e).length, format := ci.format,
    version := ci.version, aug := ci.expectAug c bases o, asz := cieAsz c ci, caf := ci.caf, daf := ci.daf,
    rar := ci.rar, instr := ⟨ci.instrOff c o, ci.instr⟩ }


/-- abstract FDE (relative to the CIE it belongs to, given as the parsed CIE record, which knows
its own offset, address size and the `R`/`L` encodings) -/
structure AFde where
  format : Format
  /-- operand of the initial-location field (the address itself without `R`) -/
  initOp : Nat
  /-- the address-range field -/
  range : Nat
  /-- operand of the LSDA pointer (used iff the CIE has `L`) -/
  lsdaOp : Nat
  /-- unused bytes at the end of the augmentation data -/
  augPad : Bytes
  instr : Bytes

def AFde.addrBytes (e : Endian) (cie : Cie) (fd : AFde) : Bytes :=
  match cie.aug.bind (·.fdeEnc) with
  | some enc => (encodeOperand e enc cie.asz fd.initOp).getD [] ++ (encodeOperand e enc cie.asz fd.range).getD []
  | none => toBytes e cie.asz fd.initOp ++ toBytes e cie.asz fd.range

def AFde.lsdaBytes (e : Endian) (cie : Cie) (fd : AFde) : Bytes :=
  match cie.aug.bind (·.lsda) with
  | some enc => (encodeOperand e enc cie.asz fd.lsdaOp).getD []
  | none => []

def AFde.augData (e : Endian) (cie : Cie) (fd : AFde) : Bytes := fd.lsdaBytes e cie ++ fd.augPad

/-- augmentation data with its length: present iff the CIE has an augmentation -/
def AFde.augBlock (e : Endian) (cie : Cie) (fd : AFde) : Bytes :=
  match cie.aug with
  | some _ => Leb.encodeU (fd.augData e cie).length ++ fd.augData e cie
  | none => []

/-- everything after the CIE pointer -/
def AFde.fields (e : Endian) (cie : Cie) (fd : AFde) : Bytes :=
  fd.addrBytes e cie ++ (fd.augBlock e cie ++ fd.instr)

/-- the CIE pointer: distance back from the field in `.eh_frame`, section offset in `.debug_frame` -/
def ciePtrVal (eh : Bool) (f : Format) (fdeOff cieOff : Nat) : Nat :=
  if eh then fdeOff + lsz f - cieOff else cieOff

/-- an FDE entry at offset `fdeOff`: length, CIE pointer, fields -/
def encodeFde (eh : Bool) (e : Endian) (cie : Cie) (fdeOff : Nat) (fd : AFde) : Bytes :=
  let body := toBytes e (idSize eh fd.format) (ciePtrVal eh fd.format fdeOff cie.offset) ++ fd.fields e cie
  lengthField e fd.format body.length ++ body

def AFde.size (eh : Bool) (e : Endian) (cie : Cie) (fd : AFde) : Nat :=
  lsz fd.format + (idSize eh fd.format + (fd.fields e cie).length)

/-- offset of the address fields -/
def AFde.addrOff (eh : Bool) (fd : AFde) (fdeOff : Nat) : Nat := fdeOff + lsz fd.format + idSize eh fd.format

/-- the initial location the reader must report -/
def AFde.initial (c : Cfg) (bases : Bases) (cie : Cie) (fd : AFde) (fdeOff : Nat) : Nat :=
  match cie.aug.bind (·.fdeEnc) with
  | some enc =>
    ((neededBase enc ⟨bases.ehFrame, none, cie.asz⟩ (fd.addrOff c.eh fdeOff)).getD 0
      + fd.initOp) % 2 ^ 64 % 2 ^ (8 * cie.asz)
  | none => fd.initOp

/-- offset of the LSDA pointer (start of the augmentation data) -/
def AFde.lsdaOff (c : Cfg) (cie : Cie) (fd : AFde) (fdeOff : Nat) : Nat :=
  fd.addrOff c.eh fdeOff + (fd.addrBytes c.e cie).length + (Leb.encodeU (fd.augData c.e cie).length).length

def AFde.instrOff (c : Cfg) (cie : Cie) (fd : AFde) (fdeOff : Nat) : Nat :=
  match cie.aug with
  | some _ => fd.lsdaOff c cie fdeOff + (fd.augData c.e cie).length
  | none => fd.addrOff c.eh fdeOff + (fd.addrBytes c.e cie).length

/-- the LSDA pointer the reader must report -/
def AFde.lsda (c : Cfg) (bases : Bases) (cie : Cie) (fd : AFde) (fdeOff : Nat) : Option Ptr :=
  match cie.aug.bind (·.lsda) with
  | some enc =>
    some (Ptr.new enc (((neededBase enc ⟨bases.ehFrame, some (fd.initial c bases cie fdeOff), cie.asz⟩
      (fd.lsdaOff c cie fdeOff)).getD 0 + fd.lsdaOp) % 2 ^ 64 % 2 ^ (8 * cie.asz)))
  | none => none

/-- the `FrameDescriptionEntry` the reader must report -/
def AFde.expect (c : Cfg) (bases : Bases) (cie : Cie) (fd : AFde) (fdeOff : Nat) : Fde :=
  { offset := fdeOff, length := idSize c.eh fd.format + (fd.fields c.e cie).length, format := fd.format,
    cie := cie, initial := fd.initial c bases cie fdeOff, range := fd.range,
    lsda := fd.lsda c bases cie fdeOff, instr := ⟨fd.instrOff c cie fdeOff, fd.instr⟩ }

/-- the partially parsed FDE the iterator must yield -/
def AFde.expectPartial (c : Cfg) (cie : Cie) (fd : AFde) (fdeOff : Nat) : PartialFde :=
  { offset := fdeOff, length := idSize c.eh fd.format + (fd.fields c.e cie).length, format := fd.format,
    cieOffset := cie.offset, rest := ⟨fd.addrOff c.eh fdeOff, fd.fields c.e cie⟩ }

/-- a pointer field is encodable and its base is provided -/
def PtrOk (e : Endian) (enc : Nat) (p : PeParams) (off x : Nat) : Prop :=
  isValidEncoding enc = true ∧ enc ≠ 0xff ∧ peApplication enc ≠ 0x50 ∧ 1 ≤ p.asz ∧ p.asz ≤ 8 ∧
  (neededBase enc p off).isSome = true ∧ (encodeOperand e enc p.asz x).isSome = true

structure AFde.WF (c : Cfg) (bases : Bases) (cie : Cie) (fd : AFde) (fdeOff : Nat) : Prop where
  hlen : LenOk fd.format (idSize c.eh fd.format + (fd.fields c.e cie).length)
  hptr : ciePtrVal c.eh fd.format fdeOff cie.offset < 256 ^ idSize c.eh fd.format
  hnotcie : isCie c fd.format (ciePtrVal c.eh fd.format fdeOff cie.offset) = false
  hback : c.eh = true → cie.offset ≤ fdeOff + lsz fd.format
  haddr : match cie.aug.bind (·.fdeEnc) with
    | some enc => PtrOk c.e enc ⟨bases.ehFrame, none, cie.asz⟩
        (fd.addrOff c.eh fdeOff) fd.initOp ∧ (encodeOperand c.e enc cie.asz fd.range).isSome = true
    | none => (cie.asz = 1 ∨ cie.asz = 2 ∨ cie.asz = 4 ∨ cie.asz = 8) ∧ fd.initOp < 2 ^ (8 * cie.asz) ∧
        fd.range < 2 ^ (8 * cie.asz)
  hlsda : match cie.aug.bind (·.lsda) with
    | some enc => PtrOk c.e enc ⟨bases.ehFrame, some (fd.initial c bases cie fdeOff), cie.asz⟩
        (fd.lsdaOff c cie fdeOff) fd.lsdaOp
    | none => True
  hdata : (fd.augData c.e cie).length < 2 ^ 64


/-- an abstract entry; an FDE names the (parsed) CIE it belongs to; `zero f` is a zero length
field in format `f` (4 zero bytes, or `0xffff_ffff` and 8 zero bytes): the reader skips it in
`.debug_frame` (in `.eh_frame` it terminates the section, see `encodeFrameSection`) -/
inductive AEntry where
  | cie (ci : ACie)
  | fde (cie : Cie) (fd : AFde)
  | zero (f : Format)

def AEntry.size (eh : Bool) (e : Endian) : AEntry → Nat
  | .cie ci => ci.size eh e
  | .fde k fd => fd.size eh e k
  | .zero f => lsz f

/-- the entries laid out one after the other from section offset `off` -/
def encodeEntries (eh : Bool) (e : Endian) : Nat → List AEntry → Bytes
  | _, [] => []
  | off, .cie ci :: t => encodeCie eh e ci ++ encodeEntries eh e (off + ci.size eh e) t
  | off, .fde cie fd :: t => encodeFde eh e cie off fd ++ encodeEntries eh e (off + fd.size eh e cie) t
  | off, .zero f :: t => lengthField e f 0 ++ encodeEntries eh e (off + lsz f) t

/-- the optional terminator: a zero length field -/
def terminatorBytes (e : Endian) : Option Format → Bytes
  | none => []
  | some f => lengthField e f 0

/-- a whole `.eh_frame` / `.debug_frame` section: the entries, optionally followed by a zero
length field of either format (the `.eh_frame` terminator; skipped in `.debug_frame`) -/
def encodeFrameSection (eh : Bool) (e : Endian) (es : List AEntry) (terminator : Option Format) : Bytes :=
  encodeEntries eh e 0 es ++ terminatorBytes e terminator

/-- what the iterator must yield (zero length fields yield nothing) -/
def expectEntries (c : Cfg) (bases : Bases) : Nat → List AEntry → List Entry
  | _, [] => []
  | off, .cie ci :: t => .cie (ci.expect c bases off) :: expectEntries c bases (off + ci.size c.eh c.e) t
  | off, .fde cie fd :: t => .fde (fd.expectPartial c cie off) :: expectEntries c bases (off + fd.size c.eh c.e cie) t
  | off, .zero f :: t => expectEntries c bases (off + lsz f) t

/-- every entry is well formed at the offset where it is laid out; zero length fields between
entries only in `.debug_frame` -/
def EntriesWF (c : Cfg) (bases : Bases) : Nat → List AEntry → Prop
  | _, [] => True
  | off, .cie ci :: t =>
    ci.WF c bases (off + lsz ci.format + idSize c.eh ci.format) ∧
    LenOk ci.format (idSize c.eh ci.format + (ci.fields c.eh c.e).length) ∧
    EntriesWF c bases (off + ci.size c.eh c.e) t
  | off, .fde cie fd :: t => fd.WF c bases cie off ∧ EntriesWF c bases (off + fd.size c.eh c.e cie) t
  | off, .zero f :: t => c.eh = false ∧ EntriesWF c bases (off + lsz f) t

/-- total encoded size of a list of entries -/
def totalSize (eh : Bool) (e : Endian) : List AEntry → Nat
  | [] => 0
  | en :: t => en.size eh e + totalSize eh e t


/-- abstract `.eh_frame_hdr`: the three encoding bytes, the operand of the `eh_frame_ptr` field and
the table rows as operand pairs (initial location, FDE address) -/
structure AHdr where
  ptrEnc : Nat
  cntEnc : Nat
  tblEnc : Nat
  ptrOp : Nat
  rows : List (Nat × Nat)

def op (e : Endian) (enc asz x : Nat) : Bytes := (encodeOperand e enc asz x).getD []

def AHdr.rowBytes (e : Endian) (asz : Nat) (h : AHdr) (r : Nat × Nat) : Bytes :=
  op e h.tblEnc asz r.1 ++ op e h.tblEnc asz r.2

def AHdr.tableBytes (e : Endian) (asz : Nat) (h : AHdr) : Bytes := h.rows.flatMap (h.rowBytes e asz)

/-- version 1, three encodings, `eh_frame_ptr`, `fde_count`, the table -/
def encodeHdr (e : Endian) (asz : Nat) (h : AHdr) : Bytes :=
  1 :: UInt8.ofNat h.ptrEnc :: UInt8.ofNat h.cntEnc :: UInt8.ofNat h.tblEnc ::
    (op e h.ptrEnc asz h.ptrOp ++ (op e h.cntEnc asz h.rows.length ++ h.tableBytes e asz))

/-- offset of the table -/
def AHdr.tableOff (e : Endian) (asz : Nat) (h : AHdr) : Nat :=
  4 + (op e h.ptrEnc asz h.ptrOp).length + (op e h.cntEnc asz h.rows.length).length

structure AHdr.WF (e : Endian) (bases : Bases) (asz : Nat) (h : AHdr) : Prop where
  hp : h.ptrEnc < 256
  hc : h.cntEnc < 256 ∧ isValidEncoding h.cntEnc = true ∧ h.cntEnc ≠ 0xff ∧ h.cntEnc = peFormat h.cntEnc
  ht : h.tblEnc < 256 ∧ isValidEncoding h.tblEnc = true ∧ h.tblEnc ≠ 0xff
  hptr : PtrOk e h.ptrEnc ⟨bases.ehFrameHdr, none, asz⟩ 4 h.ptrOp
  hcnt : (encodeOperand e h.cntEnc asz h.rows.length).isSome = true

/-- the `ParsedEhFrameHdr` the reader must report -/
def AHdr.expect (e : Endian) (bases : Bases) (asz : Nat) (h : AHdr) : Hdr :=
  { asz := asz,
    ehFramePtr := Ptr.new h.ptrEnc (((neededBase h.ptrEnc ⟨bases.ehFrameHdr, none, asz⟩ 4).getD 0 + h.ptrOp)
      % 2 ^ 64 % 2 ^ (8 * asz)),
    fdeCount := h.rows.length, tableEnc := h.tblEnc, table := ⟨h.tableOff e asz, h.tableBytes e asz⟩ }


/-- the pointer a table field with operand `x` at section offset `off` denotes -/
def AHdr.fieldVal (bases : Bases) (asz : Nat) (h : AHdr) (off x : Nat) : Nat :=
  ((neededBase h.tblEnc ⟨bases.ehFrameHdr, none, asz⟩ off).getD 0 + x) % 2 ^ 64 % 2 ^ (8 * asz)

/-- both fields of row `i` (at table offset `T0`) are encodable and their bases provided -/
def AHdr.RowOk (e : Endian) (bases : Bases) (asz : Nat) (h : AHdr) (T0 size i : Nat) (r : Nat × Nat) : Prop :=
  PtrOk e h.tblEnc ⟨bases.ehFrameHdr, none, asz⟩ (T0 + i * (size * 2)) r.1 ∧
  PtrOk e h.tblEnc ⟨bases.ehFrameHdr, none, asz⟩ (T0 + i * (size * 2) + size) r.2

end Gimli.Spec.Frame

namespace Gimli.CfiEntry
open Gimli Gimli.Ints Gimli.Spec.Frame

/-- key of row `i` of an abstract table laid out at offset `T0` -/
def hdrKey (bases : Bases) (asz : Nat) (h : AHdr) (T0 size i : Nat) : Nat :=
  match h.rows[i]? with
  | some r => h.fieldVal bases asz (T0 + i * (size * 2)) r.1
  | none => 0

def hdrVal (bases : Bases) (asz : Nat) (h : AHdr) (T0 size i : Nat) : Nat :=
  match h.rows[i]? with
  | some r => h.fieldVal bases asz (T0 + i * (size * 2) + size) r.2
  | none => 0

end Gimli.CfiEntry
