import Gimli.Prim.Basic
/-!
# Spec: `.eh_frame` / `.debug_frame` / `.eh_frame_hdr` — what the bytes mean
(DWARF 5 §6.4.1, LSB Core "Exception Frames" and "DWARF Extensions")

Declarative, no machine widths except where the format itself has them.
-/
namespace Gimli.Spec.Frame

/-! ## `DW_EH_PE_*` pointer encodings (LSB "DWARF Exception Header Encoding") -/

/-- value formats (low 4 bits): absptr, uleb128, udata2, udata4, udata8, sleb128, sdata2, sdata4, sdata8 -/
def formatDefined (f : Nat) : Prop :=
  f = 0x00 ∨ f = 0x01 ∨ f = 0x02 ∨ f = 0x03 ∨ f = 0x04 ∨ f = 0x09 ∨ f = 0x0a ∨ f = 0x0b ∨ f = 0x0c

/-- applications (bits 4..6): absolute, pcrel, textrel, datarel, funcrel, aligned -/
def applicationDefined (a : Nat) : Prop :=
  a = 0x00 ∨ a = 0x10 ∨ a = 0x20 ∨ a = 0x30 ∨ a = 0x40 ∨ a = 0x50

/-- a pointer-encoding byte is meaningful iff it is `DW_EH_PE_omit` (0xff) or a defined format
combined with a defined application, with or without `DW_EH_PE_indirect` (0x80) -/
def validEncoding (b : Nat) : Prop :=
  b = 0xff ∨ (formatDefined (b % 16) ∧ applicationDefined (b / 16 % 8 * 16))

instance (f : Nat) : Decidable (formatDefined f) := by unfold formatDefined; infer_instance
instance (a : Nat) : Decidable (applicationDefined a) := by unfold applicationDefined; infer_instance
instance (b : Nat) : Decidable (validEncoding b) := by unfold validEncoding; infer_instance

/-! ## address coverage -/

/-- an FDE describes the addresses `initial ≤ a < initial + len` (DWARF 5 §6.4.1:
`initial_location`, `address_range`) — mathematical integers, no wrap-around -/
def covers (initial len a : Nat) : Prop := initial ≤ a ∧ a < initial + len

instance (i l a : Nat) : Decidable (covers i l a) := by unfold covers; infer_instance

end Gimli.Spec.Frame
