/-!
# Spec: reachability in a dependency graph (property C19)

`Reach valid edge req` is the least set of nodes that

* contains every *valid* node marked as required, and
* is closed under edges into *valid* nodes.

Invalid nodes (offsets for which `add_entry` was never called: out-of-bounds references, offsets in
the middle of a DIE, the unit's root DIE) are never members and are never traversed.

`Closure step req` is the same least fixed point for a dependency relation given on the abstract
forest (`step x y` = "if `x` is kept then `y` must be kept"); it is what the property text calls
"connected to a required entry by a chain of parent, child and reference relations".
-/
namespace Gimli.Spec

inductive Reach {α : Type} (valid : α → Prop) (edge : α → α → Prop) (req : α → Prop) : α → Prop where
  | req {x : α} : req x → valid x → Reach valid edge req x
  | step {x y : α} : Reach valid edge req x → edge x y → valid y → Reach valid edge req y

theorem Reach.valid' {α : Type} {valid : α → Prop} {edge : α → α → Prop} {req : α → Prop} {x : α}
    (h : Reach valid edge req x) : valid x := by
  cases h <;> assumption

/-- monotone in the edge relation and the required set -/
theorem Reach.mono {α : Type} {valid : α → Prop} {e1 e2 : α → α → Prop} {r1 r2 : α → Prop}
    (he : ∀ x y, e1 x y → e2 x y) (hr : ∀ x, r1 x → r2 x) {x : α}
    (h : Reach valid e1 r1 x) : Reach valid e2 r2 x := by
  induction h with
  | req hr' hv => exact .req (hr _ hr') hv
  | step _ he' hv ih => exact .step ih (he _ _ he') hv

end Gimli.Spec
