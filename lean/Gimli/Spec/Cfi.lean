import Gimli.Spec.Leb
import Gimli.Spec.Frame
import Gimli.Model.Cfi
/-!
# Spec: how call-frame instructions are encoded (DWARF 5 §6.4.2 / §7.24, GNU and AArch64 extensions)

`Encodes c pos i bs`: the byte string `bs`, found at offset `pos` of its section, is *an* encoding
of instruction `i` for a consumer configured by `c` (byte order, address size, vendor, the
section bases, and — for the instructions of an FDE whose CIE has an `R` augmentation — the
`DW_EH_PE` pointer encoding of addresses).  Declarative: opcode table + operand encodings, with
LEB128 operands described by `Spec.IsLebEnc` / `Spec.ulebVal` / `Spec.slebVal` (every encoding of
the value, padded ones included, up to the 10 bytes a 64-bit consumer reads).

`DW_CFA_advance_loc1/2/4` and the primary-opcode `DW_CFA_advance_loc` all denote `advanceLoc`,
`DW_CFA_offset` and `DW_CFA_offset_extended` both denote `offset`, `DW_CFA_restore(_extended)` both
denote `restore` — as in gimli's `CallFrameInstruction`.

`DW_CFA_set_loc` has two forms.  Without a pointer encoding its operand is a plain address of the
CIE's address size.  With a pointer encoding `enc` it is an *encoded pointer* in the sense of
C05's Spec (`Spec/Frame.lean`, LSB "DWARF Exception Header Encoding"): an `Operand` in the value
format of the low nibble, added modulo the address size to the base selected by the application
bits (`Frame.neededBase`; for `pcrel` the section address plus the offset of the operand itself);
`enc` must be a defined encoding (`Frame.validEncoding`) other than `omit`, not `aligned` (gimli
does not support it), and not `indirect` (an unwinder cannot dereference); `funcrel` has no base
inside an instruction stream, so it never encodes anything.
-/
namespace Gimli.Spec.Cfi
open Gimli Gimli.Cfi Gimli.Spec

/-- `bs` is an unsigned LEB128 encoding of `v` that a 64-bit consumer accepts: one complete
number (padding groups allowed), at most 10 bytes, value below 2^64 -/
def ULeb (v : Nat) (bs : Bytes) : Prop := IsLebEnc bs ∧ bs.length ≤ 10 ∧ ulebVal bs = v ∧ v < 2 ^ 64

/-- `bs` is a signed LEB128 encoding of `v` that a 64-bit consumer accepts -/
def SLeb (v : Int) (bs : Bytes) : Prop :=
  IsLebEnc bs ∧ bs.length ≤ 10 ∧ slebVal bs = v ∧ -(2 : Int) ^ 63 ≤ v ∧ v < 2 ^ 63

/-- a register number operand -/
def RegEnc (r : Reg) (bs : Bytes) : Prop := ULeb r.toNat bs

/-- an `n`-byte integer in the section's byte order -/
def Fixed (e : Endian) (n v : Nat) (bs : Bytes) : Prop := bs = Ints.toBytes e n v ∧ v < 256 ^ n

/-- a block operand: ULEB128 length, then that many bytes -/
def Block (ex : Bytes) (bs : Bytes) : Prop := ∃ l, ULeb ex.length l ∧ bs = l ++ ex

/-- the 64-bit two's complement pattern of a signed number -/
def pattern64 (v : Int) : Nat := (v % 2 ^ 64).toNat

/-- sign extension of an `n`-byte pattern `v < 2^(8n)` to 64 bits -/
def signExtend (n v : Nat) : Nat := if v < 2 ^ (8 * n - 1) then v else v + 2 ^ 64 - 2 ^ (8 * n)

/-- `bs` holds the operand `x` of an encoded pointer in the value format `enc mod 16`
(LSB table "DWARF Exception Header value format"); `x` is a 64-bit pattern, negative operands of
the signed formats being their two's complement -/
inductive Operand (e : Endian) (asz : Nat) (enc : Nat) : Nat → Bytes → Prop
  | absptr (x : Nat) (bs : Bytes) : enc % 16 = 0x00 → (asz = 1 ∨ asz = 2 ∨ asz = 4 ∨ asz = 8) →
      Fixed e asz x bs → Operand e asz enc x bs
  | uleb128 (x : Nat) (bs : Bytes) : enc % 16 = 0x01 → ULeb x bs → Operand e asz enc x bs
  | udata2 (x : Nat) (bs : Bytes) : enc % 16 = 0x02 → Fixed e 2 x bs → Operand e asz enc x bs
  | udata4 (x : Nat) (bs : Bytes) : enc % 16 = 0x03 → Fixed e 4 x bs → Operand e asz enc x bs
  | udata8 (x : Nat) (bs : Bytes) : enc % 16 = 0x04 → Fixed e 8 x bs → Operand e asz enc x bs
  | sleb128 (v : Int) (bs : Bytes) : enc % 16 = 0x09 → SLeb v bs → Operand e asz enc (pattern64 v) bs
  | sdata2 (v : Nat) (bs : Bytes) : enc % 16 = 0x0a → Fixed e 2 v bs → Operand e asz enc (signExtend 2 v) bs
  | sdata4 (v : Nat) (bs : Bytes) : enc % 16 = 0x0b → Fixed e 4 v bs → Operand e asz enc (signExtend 4 v) bs
  | sdata8 (v : Nat) (bs : Bytes) : enc % 16 = 0x0c → Fixed e 8 v bs → Operand e asz enc (signExtend 8 v) bs

/-- the pointer-decoding parameters of an instruction iterator: the `.eh_frame` bases the caller
supplied, the CIE's address size, and no function base -/
def peParams (c : DecodeCfg) : CfiEntry.PeParams :=
  { bases := { sect := c.params.sectionBase, text := c.params.textBase, data := c.params.dataBase },
    funcBase := none, asz := c.params.addressSize }

inductive Encodes (c : DecodeCfg) (pos : Nat) : Instr → Bytes → Prop
  -- primary opcodes (high two bits)
  | advanceLoc (d : Nat) : d < 64 → Encodes c pos (.advanceLoc d) [UInt8.ofNat (0x40 + d)]
  | offset (r : Reg) (o : Nat) (bo : Bytes) : r.toNat < 64 → ULeb o bo →
      Encodes c pos (.offset r o) (UInt8.ofNat (0x80 + r.toNat) :: bo)
  | restore (r : Reg) : r.toNat < 64 → Encodes c pos (.restore r) [UInt8.ofNat (0xc0 + r.toNat)]
  -- extended opcodes
  | nop : Encodes c pos .nop [0x00]
  | setLoc (a : Nat) (ba : Bytes) : c.addressEncoding = none →
      (c.params.addressSize = 1 ∨ c.params.addressSize = 2 ∨ c.params.addressSize = 4 ∨ c.params.addressSize = 8) →
      Fixed c.endian c.params.addressSize a ba → Encodes c pos (.setLoc a) (0x01 :: ba)
  /-- `DW_CFA_set_loc` under the FDE pointer encoding `enc`: base (selected by the application
  bits; the operand sits at section offset `pos + 1`) plus operand, modulo the address size -/
  | setLocEncoded (enc b x : Nat) (bx : Bytes) : c.addressEncoding = some enc →
      Frame.validEncoding enc → enc ≠ 0xff → CfiEntry.peApplication enc ≠ 0x50 → CfiEntry.peIndirect enc = false →
      (1 ≤ c.params.addressSize ∧ c.params.addressSize ≤ 8) →
      Frame.neededBase enc (peParams c) (pos + 1) = some b →
      Operand c.endian c.params.addressSize enc x bx →
      Encodes c pos (.setLoc ((b + x) % 2 ^ 64 % 2 ^ (8 * c.params.addressSize))) (0x01 :: bx)
  | advanceLoc1 (d : Nat) (bd : Bytes) : Fixed c.endian 1 d bd → Encodes c pos (.advanceLoc d) (0x02 :: bd)
  | advanceLoc2 (d : Nat) (bd : Bytes) : Fixed c.endian 2 d bd → Encodes c pos (.advanceLoc d) (0x03 :: bd)
  | advanceLoc4 (d : Nat) (bd : Bytes) : Fixed c.endian 4 d bd → Encodes c pos (.advanceLoc d) (0x04 :: bd)
  | offsetExtended (r : Reg) (o : Nat) (br bo : Bytes) : RegEnc r br → ULeb o bo →
      Encodes c pos (.offset r o) (0x05 :: (br ++ bo))
  | restoreExtended (r : Reg) (br : Bytes) : RegEnc r br → Encodes c pos (.restore r) (0x06 :: br)
  | undefined (r : Reg) (br : Bytes) : RegEnc r br → Encodes c pos (.undefined r) (0x07 :: br)
  | sameValue (r : Reg) (br : Bytes) : RegEnc r br → Encodes c pos (.sameValue r) (0x08 :: br)
  | register (d s : Reg) (bd bs : Bytes) : RegEnc d bd → RegEnc s bs →
      Encodes c pos (.register d s) (0x09 :: (bd ++ bs))
  | rememberState : Encodes c pos .rememberState [0x0a]
  | restoreState : Encodes c pos .restoreState [0x0b]
  | defCfa (r : Reg) (o : Nat) (br bo : Bytes) : RegEnc r br → ULeb o bo →
      Encodes c pos (.defCfa r o) (0x0c :: (br ++ bo))
  | defCfaRegister (r : Reg) (br : Bytes) : RegEnc r br → Encodes c pos (.defCfaRegister r) (0x0d :: br)
  | defCfaOffset (o : Nat) (bo : Bytes) : ULeb o bo → Encodes c pos (.defCfaOffset o) (0x0e :: bo)
  | defCfaExpression (ex bx : Bytes) : Block ex bx → Encodes c pos (.defCfaExpression ex) (0x0f :: bx)
  | expression (r : Reg) (ex br bx : Bytes) : RegEnc r br → Block ex bx →
      Encodes c pos (.expression r ex) (0x10 :: (br ++ bx))
  | offsetExtendedSf (r : Reg) (o : Int) (br bo : Bytes) : RegEnc r br → SLeb o bo →
      Encodes c pos (.offsetExtendedSf r o) (0x11 :: (br ++ bo))
  | defCfaSf (r : Reg) (o : Int) (br bo : Bytes) : RegEnc r br → SLeb o bo →
      Encodes c pos (.defCfaSf r o) (0x12 :: (br ++ bo))
  | defCfaOffsetSf (o : Int) (bo : Bytes) : SLeb o bo → Encodes c pos (.defCfaOffsetSf o) (0x13 :: bo)
  | valOffset (r : Reg) (o : Nat) (br bo : Bytes) : RegEnc r br → ULeb o bo →
      Encodes c pos (.valOffset r o) (0x14 :: (br ++ bo))
  | valOffsetSf (r : Reg) (o : Int) (br bo : Bytes) : RegEnc r br → SLeb o bo →
      Encodes c pos (.valOffsetSf r o) (0x15 :: (br ++ bo))
  | valExpression (r : Reg) (ex br bx : Bytes) : RegEnc r br → Block ex bx →
      Encodes c pos (.valExpression r ex) (0x16 :: (br ++ bx))
  | argsSize (n : Nat) (bn : Bytes) : ULeb n bn → Encodes c pos (.argsSize n) (0x2e :: bn)
  | negateRaState : c.vendor = .aarch64 → Encodes c pos .negateRaState [0x2d]

end Gimli.Spec.Cfi
