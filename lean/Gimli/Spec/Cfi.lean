import Gimli.Spec.Leb
import Gimli.Model.Cfi
/-!
# Spec: how call-frame instructions are encoded (DWARF 5 §6.4.2 / §7.24, GNU and AArch64 extensions)

`Encodes e asz aarch64 i bs`: the byte string `bs` is *an* encoding of instruction `i` in a
section with byte order `e` and address size `asz` (and, for `DW_CFA_AARCH64_negate_ra_state`, an
AArch64 consumer).  Declarative: opcode table + operand encodings, with LEB128 operands described
by `Spec.IsLebEnc` / `Spec.ulebVal` (every encoding of the value, padded ones included, up to the
10 bytes a 64-bit consumer reads).

`DW_CFA_advance_loc1/2/4` and the primary-opcode `DW_CFA_advance_loc` all denote `advanceLoc`,
`DW_CFA_offset` and `DW_CFA_offset_extended` both denote `offset`, `DW_CFA_restore(_extended)` both
denote `restore` — as in gimli's `CallFrameInstruction`.

Not covered here (hence the theorem names `decode_*_partial`): `DW_CFA_set_loc` whose operand is
read through a `DW_EH_PE` pointer encoding (FDEs of a CIE with an `R` augmentation; pointer
encodings are C05's); for that the tie is the differential run and the harness's independent
decoder.
-/
namespace Gimli.Spec.Cfi
open Gimli Gimli.Cfi Gimli.Spec

/-- `bs` is an unsigned LEB128 encoding of `v` that a 64-bit consumer accepts: one complete
number (padding groups allowed), at most 10 bytes, value below 2^64 -/
def ULeb (v : Nat) (bs : Bytes) : Prop := IsLebEnc bs ∧ bs.length ≤ 10 ∧ ulebVal bs = v ∧ v < 2 ^ 64

/-- `bs` is a signed LEB128 encoding of `v` that a 64-bit consumer accepts -/
def SLeb (v : Int) (bs : Bytes) : Prop :=
  IsLebEnc bs ∧ bs.length ≤ 10 ∧ slebVal bs = v ∧ -(2 : Int) ^ 63 ≤ v ∧ v < 2 ^ 63

/-- a register number operand -/
def RegEnc (r : Reg) (bs : Bytes) : Prop := ULeb r.toNat bs

/-- an `n`-byte integer in the section's byte order -/
def Fixed (e : Endian) (n v : Nat) (bs : Bytes) : Prop := bs = Ints.toBytes e n v ∧ v < 256 ^ n

/-- a block operand: ULEB128 length, then that many bytes -/
def Block (ex : Bytes) (bs : Bytes) : Prop := ∃ l, ULeb ex.length l ∧ bs = l ++ ex

inductive Encodes (e : Endian) (asz : Nat) (aarch64 : Bool) : Instr → Bytes → Prop
  -- primary opcodes (high two bits)
  | advanceLoc (d : Nat) : d < 64 → Encodes e asz aarch64 (.advanceLoc d) [UInt8.ofNat (0x40 + d)]
  | offset (r : Reg) (o : Nat) (bo : Bytes) : r.toNat < 64 → ULeb o bo →
      Encodes e asz aarch64 (.offset r o) (UInt8.ofNat (0x80 + r.toNat) :: bo)
  | restore (r : Reg) : r.toNat < 64 → Encodes e asz aarch64 (.restore r) [UInt8.ofNat (0xc0 + r.toNat)]
  -- extended opcodes
  | nop : Encodes e asz aarch64 .nop [0x00]
  | setLoc (a : Nat) (ba : Bytes) : (asz = 1 ∨ asz = 2 ∨ asz = 4 ∨ asz = 8) → Fixed e asz a ba →
      Encodes e asz aarch64 (.setLoc a) (0x01 :: ba)
  | advanceLoc1 (d : Nat) (bd : Bytes) : Fixed e 1 d bd → Encodes e asz aarch64 (.advanceLoc d) (0x02 :: bd)
  | advanceLoc2 (d : Nat) (bd : Bytes) : Fixed e 2 d bd → Encodes e asz aarch64 (.advanceLoc d) (0x03 :: bd)
  | advanceLoc4 (d : Nat) (bd : Bytes) : Fixed e 4 d bd → Encodes e asz aarch64 (.advanceLoc d) (0x04 :: bd)
  | offsetExtended (r : Reg) (o : Nat) (br bo : Bytes) : RegEnc r br → ULeb o bo →
      Encodes e asz aarch64 (.offset r o) (0x05 :: (br ++ bo))
  | restoreExtended (r : Reg) (br : Bytes) : RegEnc r br → Encodes e asz aarch64 (.restore r) (0x06 :: br)
  | undefined (r : Reg) (br : Bytes) : RegEnc r br → Encodes e asz aarch64 (.undefined r) (0x07 :: br)
  | sameValue (r : Reg) (br : Bytes) : RegEnc r br → Encodes e asz aarch64 (.sameValue r) (0x08 :: br)
  | register (d s : Reg) (bd bs : Bytes) : RegEnc d bd → RegEnc s bs →
      Encodes e asz aarch64 (.register d s) (0x09 :: (bd ++ bs))
  | rememberState : Encodes e asz aarch64 .rememberState [0x0a]
  | restoreState : Encodes e asz aarch64 .restoreState [0x0b]
  | defCfa (r : Reg) (o : Nat) (br bo : Bytes) : RegEnc r br → ULeb o bo →
      Encodes e asz aarch64 (.defCfa r o) (0x0c :: (br ++ bo))
  | defCfaRegister (r : Reg) (br : Bytes) : RegEnc r br → Encodes e asz aarch64 (.defCfaRegister r) (0x0d :: br)
  | defCfaOffset (o : Nat) (bo : Bytes) : ULeb o bo → Encodes e asz aarch64 (.defCfaOffset o) (0x0e :: bo)
  | defCfaExpression (ex bx : Bytes) : Block ex bx → Encodes e asz aarch64 (.defCfaExpression ex) (0x0f :: bx)
  | expression (r : Reg) (ex br bx : Bytes) : RegEnc r br → Block ex bx →
      Encodes e asz aarch64 (.expression r ex) (0x10 :: (br ++ bx))
  | offsetExtendedSf (r : Reg) (o : Int) (br bo : Bytes) : RegEnc r br → SLeb o bo →
      Encodes e asz aarch64 (.offsetExtendedSf r o) (0x11 :: (br ++ bo))
  | defCfaSf (r : Reg) (o : Int) (br bo : Bytes) : RegEnc r br → SLeb o bo →
      Encodes e asz aarch64 (.defCfaSf r o) (0x12 :: (br ++ bo))
  | defCfaOffsetSf (o : Int) (bo : Bytes) : SLeb o bo → Encodes e asz aarch64 (.defCfaOffsetSf o) (0x13 :: bo)
  | valOffset (r : Reg) (o : Nat) (br bo : Bytes) : RegEnc r br → ULeb o bo →
      Encodes e asz aarch64 (.valOffset r o) (0x14 :: (br ++ bo))
  | valOffsetSf (r : Reg) (o : Int) (br bo : Bytes) : RegEnc r br → SLeb o bo →
      Encodes e asz aarch64 (.valOffsetSf r o) (0x15 :: (br ++ bo))
  | valExpression (r : Reg) (ex br bx : Bytes) : RegEnc r br → Block ex bx →
      Encodes e asz aarch64 (.valExpression r ex) (0x16 :: (br ++ bx))
  | argsSize (n : Nat) (bn : Bytes) : ULeb n bn → Encodes e asz aarch64 (.argsSize n) (0x2e :: bn)
  | negateRaState : aarch64 = true → Encodes e asz aarch64 .negateRaState [0x2d]

end Gimli.Spec.Cfi
