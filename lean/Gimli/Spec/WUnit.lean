import Gimli.Model.WUnit
/-!
# What the bytes of an attribute value mean (reader's view), for C11

`readForm` is the part of `read::parse_attribute` that concerns the forms the writer emits for
its unsigned, fixed-size, block, string and flag kinds, written with the primitive readers whose
properties C09 proves (`Leb.unsigned`, `readFixed`, `readAddress`, `take`).  `decoded` says which
value the writer intends a reader to see.  Used by `Props.C11.attr_bytes_decode`.
-/
namespace Gimli.WUnit
open Gimli Gimli.Ints

/-- what a reader of the given form produces -/
inductive FormVal where
  | num (v : Nat)
  | bytes (b : Bytes)
  /-- a signed number (`DW_FORM_sdata`, `DW_FORM_implicit_const`) -/
  | int (i : Int)
  deriving DecidableEq, Repr

/-- split at the first NUL (`read_null_terminated_slice`) -/
def readCStr : Bytes → Out (Bytes × Bytes)
  | [] => .err .rUnexpectedEof
  | b :: rest =>
    if b = 0 then .ok ([], rest) else do
      let (s, r) ← readCStr rest
      pure (b :: s, r)

/-- `read::parse_attribute` for the unsigned, fixed-size, block and string forms the writer emits,
composed of the primitive readers of C09 (`Leb.unsigned`, `readFixed`, `readAddress`, `take`) -/
def readForm (e : Endian) (c : Enc) (form : Nat) (bs : Bytes) : Out (FormVal × Bytes) :=
  let fixed (n : Nat) : Out (FormVal × Bytes) := do
    let (v, r) ← readFixed e n bs
    pure (.num v, r)
  if form = DW_FORM_addr then do
    let (v, r) ← readAddress e c.addrSize bs
    pure (.num v, r)
  else if form = DW_FORM_data1 ∨ form = DW_FORM_flag then fixed 1
  else if form = DW_FORM_data2 then fixed 2
  else if form = DW_FORM_data4 ∨ form = DW_FORM_ref4 ∨ form = DW_FORM_ref_sup4 then fixed 4
  else if form = DW_FORM_data8 ∨ form = DW_FORM_ref8 ∨ form = DW_FORM_ref_sup8 ∨ form = DW_FORM_ref_sig8 then fixed 8
  else if form = DW_FORM_data16 then fixed 16
  else if form = DW_FORM_sec_offset ∨ form = DW_FORM_strp ∨ form = DW_FORM_strp_sup ∨ form = DW_FORM_line_strp then
    fixed c.word
  else if form = DW_FORM_udata then do
    let (v, r) ← Leb.unsigned bs
    pure (.num v, r)
  else if form = DW_FORM_flag_present then .ok (.num 1, bs)
  else if form = DW_FORM_block ∨ form = DW_FORM_exprloc then do
    let (len, r) ← Leb.unsigned bs
    let (b, r) ← take len r
    pure (.bytes b, r)
  else if form = DW_FORM_string then do
    let (s, r) ← readCStr bs
    pure (.bytes s, r)
  else .err .rUnknownForm

/-- payloads inside the range of their Rust type (what the API can express) -/
def AttrVal.InRange : AttrVal → Prop
  | .address v | .udata v | .constClass v | .debugTypesRef v | .data8 v => v < 2 ^ 64
  | .debugInfoRefSup v | .locationListRef v | .debugMacinfoRef v | .debugMacroRef v | .rangeListRef v
  | .debugStrRefSup v => v < 2 ^ 64
  | .fileIndex r => r.getD 0 < 2 ^ 64
  | .data1 v => v < 2 ^ 8
  | .data2 v => v < 2 ^ 16
  | .data4 v => v < 2 ^ 32
  | .data16 v => v < 2 ^ 128
  | .block b => b.length < 2 ^ 64
  | .string s => ∀ b ∈ s, b ≠ 0
  | _ => True

instance (v : AttrVal) : Decidable v.InRange := by
  cases v <;> unfold AttrVal.InRange <;> infer_instance

/-- the value the form's reader must report (kinds not covered here: signed LEB128 values,
expressions, and the reference kinds, whose placeholders are patched later) -/
def decoded (cx : Ctx) : AttrVal → Option FormVal
  | .address v | .udata v | .constClass v | .debugTypesRef v | .data1 v | .data2 v | .data4 v | .data8 v
  | .data16 v => some (.num v)
  | .debugInfoRefSup v | .locationListRef v | .debugMacinfoRef v | .debugMacroRef v | .rangeListRef v
  | .debugStrRefSup v => some (.num v)
  | .fileIndex r => some (.num (r.getD 0))
  | .block b => some (.bytes b)
  | .string s => some (.bytes s)
  | .flag b => some (.num (if b then 1 else 0))
  | .flagPresent => some (.num 1)
  | .lineProgramRef => cx.lineProgram.map .num
  | .stringRef idx => cx.strOffsets[idx]?.map .num
  | .lineStringRef idx => cx.lineStrOffsets[idx]?.map .num
  | _ => none

/-! ### signed constants and expression bodies -/

/-- `readForm` extended by the two signed forms: `DW_FORM_sdata` (signed LEB128, C09's
`Leb.signed`) and `DW_FORM_implicit_const` (nothing is read; the value `ic` is the one stored in
the abbreviation, `AttributeSpecification::implicit_const_value`) -/
def readFormFull (e : Endian) (c : Enc) (form : Nat) (ic : Int) (bs : Bytes) : Out (FormVal × Bytes) :=
  if form = DW_FORM_sdata then do
    let (v, r) ← Leb.signed bs
    pure (.int v, r)
  else if form = DW_FORM_implicit_const then .ok (.int ic, bs)
  else readForm e c form bs

/-- the bytes of an expression as pass 2 writes them (they do not depend on the position) -/
def exprBytes (cx : Ctx) (items : List ExprItem) : Option Bytes :=
  match exprItemsEmit cx 0 items with
  | .ok (b, _) => some b
  | _ => none

/-- `InRange`, and signed constants inside `i64`, expression bodies shorter than 2^64 -/
def AttrVal.InRangeFull (cx : Ctx) (v : AttrVal) : Prop :=
  v.InRange ∧
  match v with
  | .sdata i | .implicitConst i => -(2 : Int) ^ 63 ≤ i ∧ i < 2 ^ 63
  | .exprloc items => ∀ b, exprBytes cx items = some b → b.length < 2 ^ 64
  | _ => True

/-- `decoded` extended to signed constants and expressions: every kind except the two reference
kinds whose placeholders are patched after pass 2 (`UnitRef`, `DebugInfoRef`) -/
def decodedFull (cx : Ctx) : AttrVal → Option FormVal
  | .sdata i | .implicitConst i => some (.int i)
  | .exprloc items => (exprBytes cx items).map .bytes
  | v => decoded cx v

end Gimli.WUnit
