import Gimli.Model.Die
/-!
# Spec: the header of a unit (DWARF 2–4 §7.5.1, DWARF 5 §7.5.1.1–7.5.1.3)

`encodeUnit e h entries` is the byte string of a whole unit: initial length (4 bytes, or the
`0xffffffff` escape and 8 bytes in the 64-bit format), version, then — in this order before
version 5 — abbreviation offset and address size, or — in version 5 — unit type, address size
and abbreviation offset, then the fields specific to the unit type (type signature and type
offset for type units, the DWO id for skeleton and split compilation units), then the entries.
Only the data types `UnitType` and `Sect` are shared with the Model.
-/
namespace Gimli.Spec.Unit
open Gimli Gimli.Die Gimli.Ints

/-- the fields a producer chooses -/
structure Header where
  format : Format
  version : Nat
  addressSize : Nat
  unitType : UnitType
  abbrevOffset : Nat
  deriving Repr

/-- `DW_UT_*` -/
def unitTypeCode : UnitType → Nat
  | .compilation => 0x01
  | .typeUnit _ _ => 0x02
  | .partialUnit => 0x03
  | .skeleton _ => 0x04
  | .splitCompilation _ => 0x05
  | .splitType _ _ => 0x06

def typeSpecific (e : Endian) (f : Format) : UnitType → Bytes
  | .compilation | .partialUnit => []
  | .typeUnit sig off | .splitType sig off => toBytes e 8 sig ++ toBytes e f.wordSize off
  | .skeleton id | .splitCompilation id => toBytes e 8 id

/-- everything between the initial length and the entries -/
def encodeBody (e : Endian) (h : Header) : Bytes :=
  toBytes e 2 h.version ++
    ((if h.version = 5 then
        UInt8.ofNat (unitTypeCode h.unitType) :: UInt8.ofNat h.addressSize ::
          toBytes e h.format.wordSize h.abbrevOffset
      else toBytes e h.format.wordSize h.abbrevOffset ++ [UInt8.ofNat h.addressSize]) ++
      typeSpecific e h.format h.unitType)

def encodeLength (e : Endian) (f : Format) (len : Nat) : Bytes :=
  match f with
  | .dwarf32 => toBytes e 4 len
  | .dwarf64 => toBytes e 4 0xffff_ffff ++ toBytes e 8 len

/-- `unit_length`: everything after the length field -/
def unitLength (e : Endian) (h : Header) (entries : Bytes) : Nat :=
  (encodeBody e h).length + entries.length

def encodeUnit (e : Endian) (h : Header) (entries : Bytes) : Bytes :=
  encodeLength e h.format (unitLength e h entries) ++ (encodeBody e h ++ entries)

/-- the fields fit their encodings, and before version 5 the unit type is the one implied by
the section (`.debug_info`: compilation units, `.debug_types`: type units) -/
def Valid (h : Header) (sect : Sect) (len : Nat) : Prop :=
  (2 ≤ h.version ∧ h.version ≤ 5) ∧
  (h.addressSize = 1 ∨ h.addressSize = 2 ∨ h.addressSize = 4 ∨ h.addressSize = 8) ∧
  h.abbrevOffset < 2 ^ (8 * h.format.wordSize) ∧
  (match h.unitType with
   | .compilation | .partialUnit => True
   | .typeUnit sig off | .splitType sig off => sig < 2 ^ 64 ∧ off < 2 ^ (8 * h.format.wordSize)
   | .skeleton id | .splitCompilation id => id < 2 ^ 64) ∧
  (h.version ≤ 4 →
    (sect = .debugInfo ∧ h.unitType = .compilation) ∨ (sect = .debugTypes ∧ ∃ s o, h.unitType = .typeUnit s o)) ∧
  (match h.format with
   | .dwarf32 => len < 0xffff_fff0
   | .dwarf64 => len < 2 ^ 64)

end Gimli.Spec.Unit
