import Gimli.Model.Abbrev
/-!
# Spec: the encoding of an abbreviation table (DWARF 5 §7.5.3)

Each declaration is its code (ULEB128, not 0), its tag (ULEB128), the children byte, then one
(name, form) ULEB128 pair per attribute — followed by the SLEB128 constant when the form is
`DW_FORM_implicit_const` — and a (0, 0) pair; the table ends with a 0 code.
Only the data types `Abbreviation` and `Spec` are shared with the Model.
-/
namespace Gimli.Spec.AbbrevTable
open Gimli Gimli.Attr Gimli.Abbrev

def encodeSpec (s : Spec) : Bytes :=
  Leb.encodeU s.name ++ (Leb.encodeU s.form.code ++ (if s.form = .implicitConst then Leb.encodeS s.implicitConst else []))

def encodeSpecs : List Spec → Bytes
  | [] => [0, 0]
  | s :: ss => encodeSpec s ++ encodeSpecs ss

def encodeDecl (a : Abbreviation) : Bytes :=
  Leb.encodeU a.code ++ (Leb.encodeU a.tag ++ ((if a.hasChildren then 1 else 0) :: encodeSpecs a.attrs))

def encodeTable : List Abbreviation → Bytes
  | [] => [0]
  | a :: as => encodeDecl a ++ encodeTable as

/-- an attribute specification a producer can write: non-zero 16-bit name, a known non-null form,
and a constant exactly when the form is `DW_FORM_implicit_const` -/
def SpecValid (s : Spec) : Prop :=
  s.name ≠ 0 ∧ s.name < 2 ^ 16 ∧ Form.ofCode s.form.code = s.form ∧ s.form.code ≠ 0 ∧ s.form.code < 2 ^ 16 ∧
    (if s.form = .implicitConst then -(2 : Int) ^ 63 ≤ s.implicitConst ∧ s.implicitConst < 2 ^ 63
     else s.implicitConst = 0)

/-- a declaration a producer can write -/
def DeclValid (a : Abbreviation) : Prop :=
  a.code ≠ 0 ∧ a.code < 2 ^ 64 ∧ a.tag ≠ 0 ∧ a.tag < 2 ^ 16 ∧ ∀ s ∈ a.attrs, SpecValid s

end Gimli.Spec.AbbrevTable
