import Gimli.Model.Eval
/-!
# "Evaluating the operations as built" (C15)

The evaluator of C07's Model (`Gimli/Model/Eval.lean`) decodes the next operation from the bytes at
`pc` in two places (`evaluate_one_operation` and the look-ahead after a location-completing
operation). Here the same control loop is written once more with the decoder as a parameter `dec`
(every definition below is its C07 namesake with `Op.parse c.endian c.encoding m.pc` replaced by
`dec c m`; `evalD_eq` in `Lemmas/WOpRun.lean` shows that with the byte decoder they *are* the C07
functions).

The *as-built* evaluator is this loop with `builtDec`: inside the bytecode of the written
expression it does not look at the bytes at all — it looks the current offset up in the *listing*
of the expression as built (start offset ↦ operation, end offset), like stepping through an
assembler listing; other bytecode (the target of a `DW_OP_call*`, answered by the caller) is
decoded from its bytes as usual.
-/
namespace Gimli.BuiltEval
open Gimli.Op Gimli.Eval

abbrev Dec := Config → Mach → Out (Operation × Bytes)

/-- the decoder of the real evaluator -/
def parseDec : Dec := fun c m => parse c.endian c.encoding m.pc

def evaluateOneOperationD (dec : Dec) (c : Config) (m : Mach) : Out (OpResult × Mach) := do
  let (op, rest) ← dec c m
  execute c op { m with pc := rest }

def afterCompleteD (dec : Dec) (c : Config) (location : Location) (m : Mach) : Out (Mach × Bool) :=
  match endOfExpression m with
  | (true, m) =>
    match m.result with
    | [] => do
      let m ← pushPiece c ⟨none, none, location⟩ m
      pure (m, false)
    | _ => .err .rInvalidPiece
  | (false, m) => do
    let (op, rest) ← dec c m
    let m := { m with pc := rest }
    match op with
    | .piece sizeInBits bitOffset => do
      let m ← pushPiece c ⟨some sizeInBits, bitOffset, location⟩ m
      pure (m, true)
    | _ => .err .rInvalidExpressionTerminator

def afterOpD (dec : Dec) (k : Eval → Out (Request × Eval)) (s : Eval) (r : OpResult) (m : Mach) : Out (Request × Eval) :=
  match r with
  | .piece => k { s with m := m }
  | .incomplete =>
    match endOfExpression m with
    | (eoe, m) =>
      match eoe && !m.result.isEmpty with
      | true => .err .rInvalidPiece
      | false => k { s with m := m }
  | .complete location => do
    let (m, extra) ← afterCompleteD dec s.cfg location m
    k { s with m := m, decodes := s.decodes + (if extra then 1 else 0) }
  | .waiting w r => pure (r, { s with m := m, state := .waiting w })

def loopBodyD (dec : Dec) (k : Eval → Out (Request × Eval)) (s : Eval) : Out (Request × Eval) :=
  match endOfExpression s.m with
  | (true, m) => do
    let m ← finish s.cfg m
    pure (.complete, { s with m := m, state := .complete })
  | (false, m) =>
    match overLimit s.cfg.maxIterations s.iteration with
    | true => .err .rTooManyIterations
    | false => do
      let (r, m') ← evaluateOneOperationD dec s.cfg m
      afterOpD dec k { s with m := m, iteration := saturatingInc s.iteration, decodes := s.decodes + 1 } r m'

def evaluateInternalD (dec : Dec) : Nat → Eval → Out (Request × Eval)
  | 0, _ => .diverge
  | fuel + 1, s => loopBodyD dec (evaluateInternalD dec fuel) s

def evaluateD (dec : Dec) (fuel : Nat) (s : Eval) : Out (Request × Eval) × Eval :=
  let start (s : Eval) : Out (Request × Eval) × Eval :=
    match evaluateInternalD dec fuel s with
    | .ok (r, s') => (.ok (r, s'), s')
    | .err e => (.err e, { s with state := .error e })
    | .panic w => (.panic w, s)
    | .diverge => (.diverge, s)
  match s.state with
  | .start initial =>
    match initial with
    | some value =>
      match push s.cfg (.generic value) s.m with
      | .ok m => start { s with m := m, state := .ready }
      | .err e => (.err e, s)
      | .panic w => (.panic w, s)
      | .diverge => (.diverge, s)
    | none => start { s with state := .ready }
  | .ready => start s
  | .error e => (.err e, s)
  | .complete => (.ok (.complete, s), s)
  | .waiting _ => (.panic "evaluate() while waiting", s)

def resumeD (dec : Dec) (fuel : Nat) (a : Answer) (s : Eval) : Out (Request × Eval) :=
  match s.state with
  | .error e => .err e
  | .waiting w => do
    let m ← applyAnswer s.cfg w a s.m
    evaluateInternalD dec fuel { s with m := m }
  | _ => .panic "resume_with_* without the matching Requires*"

def runFromD (dec : Dec) (fuel : Nat) : List Tok → Request → Eval → List Request × Final × Option Eval
  | _, .complete, s => ([.complete], .done s.m.result s.m.valueResult, some s)
  | [], r, s => ([r], .scriptEnd, some s)
  | t :: toks, r, s =>
    match resumeD dec fuel (answerFor r t) s with
    | .ok (r', s') =>
      match runFromD dec fuel toks r' s' with
      | (tr, f, e) => (r :: tr, f, e)
    | o => ([r], finalOf o, none)

/-- a whole run: `evaluate()`, then one `resume_with_*` per request, answers from the script -/
def runD (dec : Dec) (fuel : Nat) (toks : List Tok) (s : Eval) : List Request × Final × Option Eval :=
  match evaluateD dec fuel s with
  | (.ok (r, s'), _) => runFromD dec fuel toks r s'
  | (o, _) => ([], finalOf o, none)

/-! ## the expression as built: a listing -/

/-- look an offset up in a listing `[(operation, end offset)]` whose first operation starts at
`start` and each next one where the previous ended -/
def listingLookup : List (Operation × Nat) → Nat → Nat → Option (Operation × Nat)
  | [], _, _ => none
  | (op, e) :: rest, start, off => if off = start then some (op, e) else listingLookup rest e off

/-- the as-built decoder for the expression whose emitted bytecode is `bs` and whose listing is
`listing`: inside `bs`, the operation as built that starts at the current offset (the reader moves
to its end offset); a position that is not the start of an operation as built is an error (it
cannot arise, `Props.C15.eval_same`); any other bytecode is decoded from its bytes -/
def builtDec (bs : Bytes) (listing : List (Operation × Nat)) : Dec := fun c m =>
  if m.bytecode = bs then
    match listingLookup listing 0 (bs.length - m.pc.length) with
    | some (op, e) => .ok (op, bs.drop e)
    | none => .err .rUnexpectedEof
  else parse c.endian c.encoding m.pc

end Gimli.BuiltEval
