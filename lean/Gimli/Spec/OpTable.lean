import Gimli.Model.Op
/-!
# Spec: the operand signature of every DWARF expression opcode

Written from DWARF 5 §7.7.1 (table 7.9), §2.5/§2.6, the DWARF 2 form of `DW_OP_implicit_pointer`
(GNU extension: address sized reference) and the GNU / WebAssembly extensions gimli accepts.
Three parts, each readable on its own:

* `signature` — opcode ↦ list of operand kinds (the 256-row table; `none` = not an operation);
* `readOperands` — how operand kinds are laid out in the byte stream (sizes from the `Encoding`);
* `meaning` — which `Operation` (gimli's vocabulary: several opcodes share one) an opcode with
  its decoded operands denotes.

`decode` composes them. C07 `decode_matches_table` states `Op.parse = decode` for every byte
string and encoding.
-/
namespace Gimli.Spec.OpTable
open Gimli Gimli.Op

/-- kinds of operands -/
inductive Operand where
  | u (bytes : Nat)        -- unsigned constant of 1, 2, 4, 8 bytes
  | s (bytes : Nat)        -- signed constant
  | uleb
  | sleb
  | addr                   -- target address (`address_size` bytes)
  | off                    -- section offset (4 bytes in 32-bit DWARF, 8 in 64-bit DWARF)
  | refAddr                -- `DW_OP_implicit_pointer` reference: an address in DWARF 2, an offset later
  | reg                    -- ULEB128 register number (must fit gimli's 16-bit `Register`)
  | blockUleb              -- ULEB128 length followed by that many bytes
  | block1                 -- 1-byte length followed by that many bytes
  | wasm                   -- `DW_OP_WASM_location`: kind byte, then ULEB128 (u32) index or, kind 3, a `u32`
  deriving DecidableEq, Repr

/-- a decoded operand -/
inductive Arg where
  | nat (n : Nat)
  | int (i : Int)
  | bytes (b : Bytes)
  deriving DecidableEq, Repr

open Operand in
/-- opcode ↦ operand kinds -/
def signature (opc : Nat) : Option (List Operand) :=
  if 0x30 ≤ opc ∧ opc ≤ 0x6f then some []            -- DW_OP_lit0..31, DW_OP_reg0..31
  else if 0x70 ≤ opc ∧ opc ≤ 0x8f then some [sleb]   -- DW_OP_breg0..31
  else match opc with
  | 0x03 => some [addr]                  -- DW_OP_addr
  | 0x06 => some []                      -- DW_OP_deref
  | 0x08 => some [u 1]                   -- DW_OP_const1u
  | 0x09 => some [s 1]                   -- DW_OP_const1s
  | 0x0a => some [u 2]                   -- DW_OP_const2u
  | 0x0b => some [s 2]                   -- DW_OP_const2s
  | 0x0c => some [u 4]                   -- DW_OP_const4u
  | 0x0d => some [s 4]                   -- DW_OP_const4s
  | 0x0e => some [u 8]                   -- DW_OP_const8u
  | 0x0f => some [s 8]                   -- DW_OP_const8s
  | 0x10 => some [uleb]                  -- DW_OP_constu
  | 0x11 => some [sleb]                  -- DW_OP_consts
  | 0x12 | 0x13 | 0x14 => some []        -- DW_OP_dup, drop, over
  | 0x15 => some [u 1]                   -- DW_OP_pick
  | 0x16 | 0x17 | 0x18 | 0x19 | 0x1a | 0x1b | 0x1c | 0x1d | 0x1e | 0x1f | 0x20 | 0x21 | 0x22 =>
    some []                              -- swap rot xderef abs and div minus mod mul neg not or plus
  | 0x23 => some [uleb]                  -- DW_OP_plus_uconst
  | 0x24 | 0x25 | 0x26 | 0x27 => some [] -- shl shr shra xor
  | 0x28 => some [s 2]                   -- DW_OP_bra
  | 0x29 | 0x2a | 0x2b | 0x2c | 0x2d | 0x2e => some []   -- eq ge gt le lt ne
  | 0x2f => some [s 2]                   -- DW_OP_skip
  | 0x90 => some [reg]                   -- DW_OP_regx
  | 0x91 => some [sleb]                  -- DW_OP_fbreg
  | 0x92 => some [reg, sleb]             -- DW_OP_bregx
  | 0x93 => some [uleb]                  -- DW_OP_piece
  | 0x94 | 0x95 => some [u 1]            -- DW_OP_deref_size, xderef_size
  | 0x96 | 0x97 => some []               -- DW_OP_nop, push_object_address
  | 0x98 => some [u 2]                   -- DW_OP_call2
  | 0x99 => some [u 4]                   -- DW_OP_call4
  | 0x9a => some [off]                   -- DW_OP_call_ref
  | 0x9b | 0x9c => some []               -- DW_OP_form_tls_address, call_frame_cfa
  | 0x9d => some [uleb, uleb]            -- DW_OP_bit_piece
  | 0x9e => some [blockUleb]             -- DW_OP_implicit_value
  | 0x9f => some []                      -- DW_OP_stack_value
  | 0xa0 | 0xf2 => some [refAddr, sleb]  -- DW_OP_implicit_pointer, GNU_implicit_pointer
  | 0xa1 | 0xa2 | 0xfb | 0xfc => some [uleb]   -- addrx, constx, GNU_addr_index, GNU_const_index
  | 0xa3 | 0xf3 => some [blockUleb]      -- DW_OP_entry_value, GNU_entry_value
  | 0xa4 | 0xf4 => some [uleb, block1]   -- DW_OP_const_type, GNU_const_type
  | 0xa5 | 0xf5 => some [reg, uleb]      -- DW_OP_regval_type, GNU_regval_type
  | 0xa6 | 0xf6 | 0xa7 => some [u 1, uleb]   -- DW_OP_deref_type, GNU_deref_type, xderef_type
  | 0xa8 | 0xa9 | 0xf7 | 0xf9 => some [uleb] -- convert, reinterpret, GNU_convert, GNU_reinterpret
  | 0xe0 | 0xf0 => some []               -- DW_OP_GNU_push_tls_address, GNU_uninit
  | 0xed => some [wasm]                  -- DW_OP_WASM_location
  | 0xfa => some [u 4]                   -- DW_OP_GNU_parameter_ref
  | 0xfd => some [off]                   -- DW_OP_GNU_variable_value
  | _ => none

/-- layout of one operand; yields one argument (`wasm`: two, kind and index) -/
def readOperand (e : Endian) (enc : Encoding) : Operand → Bytes → Out (List Arg × Bytes)
  | .u n, bs => do let (v, r) ← Ints.readFixed e n bs; pure ([.nat v], r)
  | .s n, bs => do let (v, r) ← Ints.readFixed e n bs; pure ([.int (Ints.toSigned n v)], r)
  | .uleb, bs => do let (v, r) ← Leb.unsigned bs; pure ([.nat v], r)
  | .sleb, bs => do let (v, r) ← Leb.signed bs; pure ([.int v], r)
  | .addr, bs => do let (v, r) ← Ints.readAddress e enc.addressSize bs; pure ([.nat v], r)
  | .off, bs => do let (v, r) ← Ints.readWord e 64 enc.format bs; pure ([.nat v], r)
  | .refAddr, bs => do
    let (v, r) ← if enc.version = 2 then Ints.readAddress e enc.addressSize bs else Ints.readWord e 64 enc.format bs
    pure ([.nat v], r)
  | .reg, bs => do
    let (v, r) ← Leb.unsigned bs
    if v < 2 ^ 16 then pure ([.nat v], r) else .err .rUnsupportedRegister
  | .blockUleb, bs => do
    let (len, r) ← Leb.unsigned bs
    let (b, r) ← Ints.take len r
    pure ([.bytes b], r)
  | .block1, bs => do
    let (len, r) ← Ints.readFixed e 1 bs
    let (b, r) ← Ints.take len r
    pure ([.bytes b], r)
  | .wasm, bs => do
    let (k, r) ← Ints.readFixed e 1 bs
    if k = 0 ∨ k = 1 ∨ k = 2 then do
      let (i, r) ← Ints.readUlebU32 r
      pure ([.nat k, .nat i], r)
    else if k = 3 then do
      let (i, r) ← Ints.readFixed e 4 r
      pure ([.nat k, .nat i], r)
    else .err .rInvalidExpression

def readOperands (e : Endian) (enc : Encoding) : List Operand → Bytes → Out (List Arg × Bytes)
  | [], bs => .ok ([], bs)
  | o :: os, bs => do
    let (a, r) ← readOperand e enc o bs
    let (as, r) ← readOperands e enc os r
    pure (a ++ as, r)

/-! argument shapes (a shape mismatch cannot happen for arguments read per `signature`; `other`) -/

def args0 (args : List Arg) (op : Operation) : Out Operation :=
  match args with
  | [] => .ok op
  | _ => .err .other

def argsN (args : List Arg) (f : Nat → Out Operation) : Out Operation :=
  match args with
  | [.nat a] => f a
  | _ => .err .other

def argsI (args : List Arg) (f : Int → Operation) : Out Operation :=
  match args with
  | [.int a] => .ok (f a)
  | _ => .err .other

def argsB (args : List Arg) (f : Bytes → Operation) : Out Operation :=
  match args with
  | [.bytes a] => .ok (f a)
  | _ => .err .other

def argsNN (args : List Arg) (f : Nat → Nat → Out Operation) : Out Operation :=
  match args with
  | [.nat a, .nat b] => f a b
  | _ => .err .other

def argsNI (args : List Arg) (f : Nat → Int → Operation) : Out Operation :=
  match args with
  | [.nat a, .int b] => .ok (f a b)
  | _ => .err .other

def argsNB (args : List Arg) (f : Nat → Bytes → Operation) : Out Operation :=
  match args with
  | [.nat a, .bytes b] => .ok (f a b)
  | _ => .err .other

/-- the operation an opcode with its operands denotes -/
def meaning (enc : Encoding) (opc : Nat) (args : List Arg) : Out Operation :=
  if 0x30 ≤ opc ∧ opc ≤ 0x4f then args0 args (.unsignedConstant (opc - 0x30))     -- DW_OP_lit<n>
  else if 0x50 ≤ opc ∧ opc ≤ 0x6f then args0 args (.register (opc - 0x50))         -- DW_OP_reg<n>
  else if 0x70 ≤ opc ∧ opc ≤ 0x8f then argsI args (fun o => .registerOffset (opc - 0x70) o 0)  -- DW_OP_breg<n>
  else
  match opc with
  | 0x03 => argsN args (fun a => .ok (.address a))
  | 0x06 => args0 args (.deref 0 enc.addressSize false)
  | 0x08 | 0x0a | 0x0c | 0x0e | 0x10 => argsN args (fun v => .ok (.unsignedConstant v))
  | 0x09 | 0x0b | 0x0d | 0x0f | 0x11 => argsI args (fun v => .signedConstant v)
  | 0x12 => args0 args (.pick 0)                 -- dup
  | 0x13 => args0 args .drop
  | 0x14 => args0 args (.pick 1)                 -- over
  | 0x15 => argsN args (fun i => .ok (.pick i))
  | 0x16 => args0 args .swap
  | 0x17 => args0 args .rot
  | 0x18 => args0 args (.deref 0 enc.addressSize true)   -- xderef
  | 0x19 => args0 args .abs
  | 0x1a => args0 args .and
  | 0x1b => args0 args .div
  | 0x1c => args0 args .minus
  | 0x1d => args0 args .mod
  | 0x1e => args0 args .mul
  | 0x1f => args0 args .neg
  | 0x20 => args0 args .not
  | 0x21 => args0 args .or
  | 0x22 => args0 args .plus
  | 0x23 => argsN args (fun v => .ok (.plusConstant v))
  | 0x24 => args0 args .shl
  | 0x25 => args0 args .shr
  | 0x26 => args0 args .shra
  | 0x27 => args0 args .xor
  | 0x28 => argsI args (fun t => .bra t)
  | 0x29 => args0 args .eq
  | 0x2a => args0 args .ge
  | 0x2b => args0 args .gt
  | 0x2c => args0 args .le
  | 0x2d => args0 args .lt
  | 0x2e => args0 args .ne
  | 0x2f => argsI args (fun t => .skip t)
  | 0x90 => argsN args (fun r => .ok (.register r))
  | 0x91 => argsI args (fun o => .frameOffset o)
  | 0x92 => argsNI args (fun r o => .registerOffset r o 0)
  -- a piece of `size` bytes is `8·size` bits; sizes are 64-bit quantities
  | 0x93 => argsN args (fun size => if size * 8 < 2 ^ 64 then .ok (.piece (size * 8) none) else .err .rInvalidPiece)
  | 0x94 => argsN args (fun s => .ok (.deref 0 s false))
  | 0x95 => argsN args (fun s => .ok (.deref 0 s true))
  | 0x96 => args0 args .nop
  | 0x97 => args0 args .pushObjectAddress
  | 0x98 | 0x99 => argsN args (fun o => .ok (.call (.unitRef o)))
  | 0x9a => argsN args (fun o => .ok (.call (.debugInfoRef o)))
  | 0x9b | 0xe0 => args0 args .tls
  | 0x9c => args0 args .callFrameCFA
  | 0x9d => argsNN args (fun size off => .ok (.piece size (some off)))
  | 0x9e => argsB args (fun b => .implicitValue b)
  | 0x9f => args0 args .stackValue
  | 0xa0 | 0xf2 => argsNI args (fun v o => .implicitPointer v o)
  | 0xa1 | 0xfb => argsN args (fun i => .ok (.addressIndex i))
  | 0xa2 | 0xfc => argsN args (fun i => .ok (.constantIndex i))
  | 0xa3 | 0xf3 => argsB args (fun b => .entryValue b)
  | 0xa4 | 0xf4 => argsNB args (fun t b => .typedLiteral t b)
  | 0xa5 | 0xf5 => argsNN args (fun r t => .ok (.registerOffset r 0 t))
  | 0xa6 | 0xf6 => argsNN args (fun s t => .ok (.deref t s false))
  | 0xa7 => argsNN args (fun s t => .ok (.deref t s true))
  | 0xa8 | 0xf7 => argsN args (fun t => .ok (.convert t))
  | 0xa9 | 0xf9 => argsN args (fun t => .ok (.reinterpret t))
  | 0xf0 => args0 args .uninitialized
  | 0xed => argsNN args (fun k i =>
      if k = 0 then .ok (.wasmLocal i) else if k = 1 ∨ k = 3 then .ok (.wasmGlobal i)
      else if k = 2 then .ok (.wasmStack i) else .err .other)
  | 0xfa => argsN args (fun o => .ok (.parameterRef o))
  | 0xfd => argsN args (fun o => .ok (.variableValue o))
  | _ => .err .other

/-- decode one operation: opcode byte, operands per `signature`, then `meaning` -/
def decode (e : Endian) (enc : Encoding) (bs : Bytes) : Out (Operation × Bytes) :=
  match bs with
  | [] => .err .rUnexpectedEof
  | b :: rest =>
    match signature b.toNat with
    | none => .err .rInvalidExpression
    | some sig => do
      let (args, r) ← readOperands e enc sig rest
      let op ← meaning enc b.toNat args
      pure (op, r)

end Gimli.Spec.OpTable
