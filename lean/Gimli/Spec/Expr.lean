import Gimli.Model.Op
import Gimli.Model.Value
/-!
# Spec: the DWARF expression stack machine (DWARF 5 §2.5, §2.6, §7.7.1)

Declarative, over **mathematical integers**. Nothing here is a 64-bit machine word:

* a *generic* value is a residue modulo `2^(8·a)` (`a` = address size), stored as its
  representative in `[0, 2^(8a))`; operations that the standard defines as signed (`div`, `abs`,
  `neg`, `shra`, the six comparisons) read it as a two's complement number, `mod`, `shr` read it
  as unsigned;
* a value of an integer base type is the mathematical integer itself (`-128 … 127` for a signed
  8-bit type, `0 … 255` for the unsigned one) and every operation wraps into that range;
* floating point values are opaque (`SVal.val` is their bit pattern; this Spec gives no float
  arithmetic, only the type rules).

The only things shared with the Model are the *names*: `ValueType` (the base-type vocabulary),
`Err` (error names), `Op.Operation` / `Op.Encoding` (the decoded-operation vocabulary) and the
result vocabulary of `Model/Eval.lean` (locations, pieces, requests), so that "same result" can
be stated as an equality. Arithmetic, decode table and machine are defined independently.
-/
namespace Gimli.Spec.Expr
open Gimli

/-! ## values -/

/-- a Spec value: base type (or generic) and the mathematical integer -/
structure SVal where
  ty : ValueType
  val : Int
  deriving DecidableEq, Repr, Inhabited

/-- width in bits of a value of type `t` on a target with `a`-byte addresses -/
def width (a : Nat) : ValueType → Nat
  | .generic => 8 * a
  | .i8 | .u8 => 8
  | .i16 | .u16 => 16
  | .i32 | .u32 | .f32 => 32
  | .i64 | .u64 | .f64 => 64

inductive Kind where
  | generic | signed | unsigned | float
  deriving DecidableEq, Repr

def kindOf : ValueType → Kind
  | .generic => .generic
  | .i8 | .i16 | .i32 | .i64 => .signed
  | .u8 | .u16 | .u32 | .u64 => .unsigned
  | .f32 | .f64 => .float

/-- the unsigned representative of `i` modulo `2^w` -/
def umod (w : Nat) (i : Int) : Int := i % 2 ^ w

/-- the two's complement (signed) representative of `i` modulo `2^w` -/
def smod (w : Nat) (i : Int) : Int :=
  if i % 2 ^ w < 2 ^ (w - 1) then i % 2 ^ w else i % 2 ^ w - 2 ^ w

/-- the representative a type stores: signed types the signed one, everything else unsigned -/
def canon (a : Nat) (t : ValueType) (i : Int) : Int :=
  match kindOf t with
  | .signed => smod (width a t) i
  | _ => umod (width a t) i

/-- how the *signed* operations read a value: generic values as two's complement -/
def asSigned (a : Nat) (v : SVal) : Int :=
  match kindOf v.ty with
  | .generic => smod (8 * a) v.val
  | _ => v.val

/-- the `w`-bit two's complement pattern as a natural number (for the bitwise operations) -/
def bitsOf (w : Nat) (i : Int) : Nat := (i % 2 ^ w).toNat

inductive UnOp where
  | abs | neg | not
  deriving DecidableEq, Repr

inductive BinOp where
  | add | sub | mul | div | rem | and | or | xor | shl | shr | shra | eq | ge | gt | le | lt | ne
  deriving DecidableEq, Repr

def isFloat : ValueType → Bool
  | .f32 | .f64 => true
  | _ => false

/-- DW_OP_abs / neg / not -/
def unary (a : Nat) (op : UnOp) (v : SVal) : Out SVal :=
  let w := width a v.ty
  match op, kindOf v.ty with
  | .abs, .unsigned => .ok v
  | .abs, .float => .ok v                      -- opaque (not specified here)
  | .abs, _ => .ok ⟨v.ty, canon a v.ty (Int.natAbs (asSigned a v))⟩
  | .neg, .unsigned => .err .rUnsupportedTypeOperation
  | .neg, .float => .ok v                      -- opaque
  | .neg, _ => .ok ⟨v.ty, canon a v.ty (- asSigned a v)⟩
  | .not, .float => .err .rIntegralTypeRequired
  | .not, _ => .ok ⟨v.ty, canon a v.ty (2 ^ w - 1 - bitsOf w v.val)⟩

/-- the integer meaning of a comparison -/
def rel : BinOp → Int → Int → Bool
  | .eq, x, y => x = y
  | .ge, x, y => x ≥ y
  | .gt, x, y => x > y
  | .le, x, y => x ≤ y
  | .lt, x, y => x < y
  | _, x, y => x ≠ y

/-- the shift count: any integral value, not negative -/
def shiftCount (c : SVal) : Out Nat :=
  if isFloat c.ty then .err .rInvalidShiftExpression
  else if c.val < 0 then .err .rInvalidShiftExpression
  else .ok c.val.toNat

/-- the binary operations on integer values (float operands: only the type rules) -/
def binary (a : Nat) (op : BinOp) (x y : SVal) : Out SVal :=
  let t := x.ty
  let w := width a t
  match op with
  | .shl | .shr | .shra =>
    match shiftCount y with
    | .ok c =>
      if isFloat t then .err .rIntegralTypeRequired else
      match op with
      | .shl => .ok ⟨t, if c ≥ w then 0 else canon a t (x.val * 2 ^ c)⟩
      | .shr =>
        if kindOf t = .signed then .err .rUnsupportedTypeOperation
        else .ok ⟨t, if c ≥ w then 0 else x.val / 2 ^ c⟩
      | _ =>
        if kindOf t = .unsigned then .err .rUnsupportedTypeOperation
        else
          let s := asSigned a x
          .ok ⟨t, if c ≥ w then (if s < 0 then canon a t (-1) else 0) else canon a t (s / 2 ^ c)⟩
    | .err e => .err e
    | .panic p => .panic p
    | .diverge => .diverge
  | .div | .rem =>
    -- an integer divisor of zero is reported before anything else
    if ¬ isFloat y.ty ∧ y.val = 0 then .err .rDivisionByZero
    else if x.ty ≠ y.ty then .err .rTypeMismatch
    else if isFloat t then (if op = .rem then .err .rIntegralTypeRequired else .ok x)  -- float division: opaque
    else if op = .div then
      match kindOf t with
      | .unsigned => .ok ⟨t, x.val / y.val⟩
      | _ => .ok ⟨t, canon a t (Int.tdiv (asSigned a x) (asSigned a y))⟩
    else
      match kindOf t with
      | .signed => .ok ⟨t, canon a t (Int.tmod x.val y.val)⟩
      | _ => .ok ⟨t, x.val % y.val⟩
  | .add | .sub | .mul =>
    if x.ty ≠ y.ty then .err .rTypeMismatch
    else if isFloat t then .ok x                -- opaque
    else .ok ⟨t, canon a t (match op with | .add => x.val + y.val | .sub => x.val - y.val | _ => x.val * y.val)⟩
  | .and | .or | .xor =>
    if x.ty ≠ y.ty then .err .rTypeMismatch
    else if isFloat t then .err .rIntegralTypeRequired
    else
      let f : Nat → Nat → Nat := match op with | .and => (· &&& ·) | .or => (· ||| ·) | _ => (· ^^^ ·)
      .ok ⟨t, canon a t (f (bitsOf w x.val) (bitsOf w y.val))⟩
  | _ =>
    if x.ty ≠ y.ty then .err .rTypeMismatch
    else if isFloat t then .ok ⟨.generic, 0⟩    -- float comparison: opaque
    else .ok ⟨.generic, if rel op (asSigned a x) (asSigned a y) then 1 else 0⟩


/-- `DW_OP_convert` between integer types: the value, wrapped into the target type -/
def convertInt (a : Nat) (v : SVal) (t : ValueType) : SVal := ⟨t, canon a t v.val⟩

/-- `DW_OP_reinterpret`: the types must have the same size; the same bits read in the target type -/
def reinterpretInt (a : Nat) (v : SVal) (t : ValueType) : Out SVal :=
  if width a v.ty ≠ width a t then .err .rTypeMismatch else .ok ⟨t, canon a t v.val⟩

/-- `DW_OP_const_type`: the first `size(t)` bytes of the block as an integer of base type `t`
(the generic type is not a base type) -/
def literalInt (e : Endian) (a : Nat) (t : ValueType) (bytes : Bytes) : Out SVal :=
  match t with
  | .generic => .err .rUnsupportedTypeOperation
  | t =>
    let n := width a t / 8
    if n ≤ bytes.length then .ok ⟨t, canon a t (Ints.fromBytes e (bytes.take n))⟩ else .err .rUnexpectedEof

end Gimli.Spec.Expr
