import Gimli.Spec.Line
/-!
# Spec: the line-number program header of DWARF versions 2–4 (§6.2.4), as an encoder

`encodeHeaderV4` writes an abstract header (`HeaderV4`) the way the standard lays it out;
`Props.C04.header_roundtrip_partial` shows that `LineProgramHeader::parse` (Model: `parseHeader`)
reads back exactly the parameters, include directories, file names and program it was given.
`encodeHeaderV5` does the same for version 5: `directory_entry_format` / `file_name_entry_format`
tables, entries written field by field in the announced forms (`FieldV`), all forms of the line
reader's `parse_attribute` (`Props.C04.header_roundtrip_v5`).
-/
namespace Gimli.Spec.Line
open Gimli Gimli.Line

/-- abstract header of versions 2–4 (§6.2.4): parameters, include directories, file names
(name, directory index, modification time, length), and the program that follows -/
structure HeaderV4 where
  p : Params
  dirs : List Bytes
  files : List (Bytes × Nat × Nat × Nat)
  program : Bytes

def encodeDirs : List Bytes → Bytes
  | [] => [0]
  | d :: ds => d ++ 0 :: encodeDirs ds

def encodeFiles : List (Bytes × Nat × Nat × Nat) → Bytes
  | [] => [0]
  | (n, d, t, s) :: fs => n ++ 0 :: (Leb.encodeU d ++ Leb.encodeU t ++ Leb.encodeU s ++ encodeFiles fs)

/-- everything between `header_length` and the program -/
def encodeFields (hs : HeaderV4) : Bytes :=
  let p := hs.p
  Ints.toBytes p.endian 1 p.minInstLen ++
  (if p.version ≥ 4 then Ints.toBytes p.endian 1 p.maxOps else []) ++
  Ints.toBytes p.endian 1 (if p.defaultIsStmt then 1 else 0) ++
  Ints.toBytes p.endian 1 (p.lineBase % 256).toNat ++
  Ints.toBytes p.endian 1 p.lineRange ++
  Ints.toBytes p.endian 1 p.opcodeBase ++
  p.stdLens ++ encodeDirs hs.dirs ++ encodeFiles hs.files

def wordBytes (e : Endian) (f : Format) (v : Nat) : Bytes :=
  match f with
  | .dwarf32 => Ints.toBytes e 4 v
  | .dwarf64 => Ints.toBytes e 8 v

/-- the unit after its initial length -/
def encodeBody (hs : HeaderV4) : Bytes :=
  Ints.toBytes hs.p.endian 2 hs.p.version ++
  wordBytes hs.p.endian hs.p.format (encodeFields hs).length ++ encodeFields hs ++ hs.program

/-- the whole unit (`.debug_line` contribution) -/
def encodeHeaderV4 (hs : HeaderV4) : Out Bytes := do
  let il ← Ints.writeInitialLength hs.p.endian hs.p.format (encodeBody hs).length
  pure (il ++ encodeBody hs)

/-- names are non-empty and contain no NUL; numbers fit `u64`; lengths fit their fields -/
def HeaderV4.WF (hs : HeaderV4) : Prop :=
  hs.p.Valid ∧ hs.p.version ≤ 4 ∧
  (∀ d ∈ hs.dirs, d ≠ [] ∧ (0 : UInt8) ∉ d) ∧
  (∀ f ∈ hs.files, f.1 ≠ [] ∧ (0 : UInt8) ∉ f.1 ∧ f.2.1 < 2 ^ 64 ∧ f.2.2.1 < 2 ^ 64 ∧ f.2.2.2 < 2 ^ 64) ∧
  (encodeBody hs).length < 2 ^ 64 ∧
  (hs.p.format = .dwarf32 → (encodeFields hs).length < 2 ^ 32)

/-- what must be read back -/
def HeaderV4.expected (hs : HeaderV4) (compDir compName : Option Bytes) : Header :=
  { p := hs.p, unitLength := (encodeBody hs).length, headerLength := (encodeFields hs).length,
    dirFormat := [], dirs := hs.dirs.map .string, fileFormat := [],
    files := hs.files.map fun (n, d, t, s) =>
      { path := .string n, dirIndex := d, timestamp := t, size := s,
        md5 := List.replicate 16 0, source := none },
    program := hs.program, compDir := compDir,
    compFile := compName.map fun n =>
      { path := .string n, dirIndex := 0, timestamp := 0, size := 0,
        md5 := List.replicate 16 0, source := none } }

instance (hs : HeaderV4) : Decidable hs.WF := by unfold HeaderV4.WF; infer_instance

end Gimli.Spec.Line

/-! ## version 5 -/

namespace Gimli.Spec.Line
open Gimli Gimli.Line

/-- one field of a version-5 directory/file entry: the value together with the form it is
written in (DWARF 5 §6.2.4.1; the forms are the ones `parse_attribute` of the line reader knows) -/
inductive FieldV where
  | block1 (b : Bytes) | block2 (b : Bytes) | block4 (b : Bytes) | block (b : Bytes)
  | data1 (v : Nat) | data2 (v : Nat) | data4 (v : Nat) | data8 (v : Nat) | udata (v : Nat)
  | sdata (i : Int)
  | flag (b : Bool)
  | data16 (b : Bytes)
  | secOffset (v : Nat)
  | string (s : Bytes)
  | strp (v : Nat) | strpSup (v : Nat) | gnuStrpAlt (v : Nat) | lineStrp (v : Nat)
  | strx (v : Nat) | gnuStrIndex (v : Nat) | strx1 (v : Nat) | strx2 (v : Nat) | strx3 (v : Nat) | strx4 (v : Nat)
  deriving DecidableEq, Repr

/-- `DW_FORM_*` number -/
def FieldV.form : FieldV → Nat
  | .block1 _ => 0x0a | .block2 _ => 0x03 | .block4 _ => 0x04 | .block _ => 0x09
  | .data1 _ => 0x0b | .data2 _ => 0x05 | .data4 _ => 0x06 | .data8 _ => 0x07 | .udata _ => 0x0f
  | .sdata _ => 0x0d | .flag _ => 0x0c | .data16 _ => 0x1e | .secOffset _ => 0x17 | .string _ => 0x08
  | .strp _ => 0x0e | .strpSup _ => 0x1d | .gnuStrpAlt _ => 0x1f21 | .lineStrp _ => 0x1f
  | .strx _ => 0x1a | .gnuStrIndex _ => 0x1f02 | .strx1 _ => 0x25 | .strx2 _ => 0x26 | .strx3 _ => 0x27
  | .strx4 _ => 0x28

/-- the value a reader must report -/
def FieldV.value : FieldV → AttrVal
  | .block1 b | .block2 b | .block4 b | .block b | .data16 b => .block b
  | .data1 v => .data1 v | .data2 v => .data2 v | .data4 v => .data4 v | .data8 v => .data8 v
  | .udata v => .udata v | .sdata i => .sdata i | .flag b => .flag b | .secOffset v => .secOffset v
  | .string s => .string s | .strp v => .strp v | .strpSup v | .gnuStrpAlt v => .strpSup v
  | .lineStrp v => .lineStrp v
  | .strx v | .gnuStrIndex v | .strx1 v | .strx2 v | .strx3 v | .strx4 v => .strx v

/-- §7.5.5 encoding of the field -/
def FieldV.encode (e : Endian) (f : Format) : FieldV → Bytes
  | .block1 b => Ints.toBytes e 1 b.length ++ b
  | .block2 b => Ints.toBytes e 2 b.length ++ b
  | .block4 b => Ints.toBytes e 4 b.length ++ b
  | .block b => Leb.encodeU b.length ++ b
  | .data1 v => Ints.toBytes e 1 v | .data2 v => Ints.toBytes e 2 v
  | .data4 v => Ints.toBytes e 4 v | .data8 v => Ints.toBytes e 8 v
  | .udata v => Leb.encodeU v | .sdata i => Leb.encodeS i
  | .flag b => Ints.toBytes e 1 (if b then 1 else 0)
  | .data16 b => b
  | .secOffset v | .strp v | .strpSup v | .gnuStrpAlt v | .lineStrp v => wordBytes e f v
  | .string s => s ++ [0]
  | .strx v | .gnuStrIndex v => Leb.encodeU v
  | .strx1 v => Ints.toBytes e 1 v | .strx2 v => Ints.toBytes e 2 v
  | .strx3 v => Ints.toBytes e 3 v | .strx4 v => Ints.toBytes e 4 v

/-- the value fits the form -/
def FieldV.Ok (f : Format) : FieldV → Prop
  | .block1 b => b.length < 2 ^ 8 | .block2 b => b.length < 2 ^ 16 | .block4 b => b.length < 2 ^ 32
  | .block b => b.length < 2 ^ 64
  | .data1 v => v < 2 ^ 8 | .data2 v => v < 2 ^ 16 | .data4 v => v < 2 ^ 32 | .data8 v => v < 2 ^ 64
  | .udata v => v < 2 ^ 64 | .sdata i => -(2 ^ 63 : Int) ≤ i ∧ i < 2 ^ 63
  | .flag _ => True
  | .data16 b => b.length = 16
  | .secOffset v | .strp v | .strpSup v | .gnuStrpAlt v | .lineStrp v =>
    v < 2 ^ 64 ∧ (f = .dwarf32 → v < 2 ^ 32)
  | .string s => (0 : UInt8) ∉ s
  | .strx v | .gnuStrIndex v => v < 2 ^ 64
  | .strx1 v => v < 2 ^ 8 | .strx2 v => v < 2 ^ 16 | .strx3 v => v < 2 ^ 24 | .strx4 v => v < 2 ^ 32

instance (f : Format) (x : FieldV) : Decidable (x.Ok f) := by
  cases x <;> unfold FieldV.Ok <;> infer_instance

/-- a format description: (`DW_LNCT_*` content type, `DW_FORM_*` form) per field -/
def encodeFormat (fmt : List EntryFormat) : Bytes :=
  Ints.toBytes .little 1 fmt.length ++ fmt.flatMap fun x => Leb.encodeU x.1 ++ Leb.encodeU x.2

def encodeEntry (e : Endian) (f : Format) (entry : List FieldV) : Bytes :=
  entry.flatMap (FieldV.encode e f)

/-- entry count (ULEB) followed by the entries -/
def encodeTable (e : Endian) (f : Format) (entries : List (List FieldV)) : Bytes :=
  Leb.encodeU entries.length ++ entries.flatMap (encodeEntry e f)

/-- the entry is written in the forms its table announces, and every value fits its form -/
def Conforms (f : Format) (fmt : List EntryFormat) (entry : List FieldV) : Prop :=
  entry.map FieldV.form = fmt.map (·.2) ∧ ∀ x ∈ entry, x.Ok f

instance (f : Format) (fmt : List EntryFormat) (entry : List FieldV) : Decidable (Conforms f fmt entry) := by
  unfold Conforms; infer_instance

/-- a format `parse` accepts and reads back unchanged: at most 255 fields, content types that fit
`u16`, forms the reader knows how to spell in a `u16` ULEB, exactly one `DW_LNCT_path` -/
def FormatOk (fmt : List EntryFormat) : Prop :=
  fmt.length < 256 ∧ (∀ x ∈ fmt, x.1 ≤ 0xffff ∧ (x.2 < 128 ∨ x.2 = 0x1f02 ∨ x.2 = 0x1f21)) ∧
  (fmt.filter (·.1 = 1)).length = 1

instance (fmt : List EntryFormat) : Decidable (FormatOk fmt) := by unfold FormatOk; infer_instance

/-- the directory an entry denotes: its `DW_LNCT_path` field (the last one, should there be several) -/
def dirOf : List EntryFormat → List FieldV → Option AttrVal → Option AttrVal
  | (ct, _) :: fmt, x :: entry, acc => dirOf fmt entry (if ct = 1 then some x.value else acc)
  | _, _, acc => acc

/-- the file an entry denotes: fields applied left to right (`FileAcc.update`: path, directory
index, timestamp, size — unsigned constants only —, MD5 — 16-byte blocks only —, LLVM source;
unknown content types are ignored) -/
def fileAccOf : List EntryFormat → List FieldV → FileAcc → FileAcc
  | (ct, _) :: fmt, x :: entry, acc => fileAccOf fmt entry (acc.update ct x.value)
  | _, _, acc => acc

def fileOf5 (fmt : List EntryFormat) (entry : List FieldV) : FileEntry :=
  let a := fileAccOf fmt entry {}
  { path := a.path.getD (.string []), dirIndex := a.dirIndex, timestamp := a.timestamp, size := a.size,
    md5 := a.md5, source := a.source }

/-- abstract version-5 header (§6.2.4) -/
structure HeaderV5 where
  p : Params
  dirFormat : List EntryFormat
  dirs : List (List FieldV)
  fileFormat : List EntryFormat
  files : List (List FieldV)
  program : Bytes

def encodeFieldsV5 (hs : HeaderV5) : Bytes :=
  let p := hs.p
  Ints.toBytes p.endian 1 p.minInstLen ++ Ints.toBytes p.endian 1 p.maxOps ++
  Ints.toBytes p.endian 1 (if p.defaultIsStmt then 1 else 0) ++
  Ints.toBytes p.endian 1 (p.lineBase % 256).toNat ++
  Ints.toBytes p.endian 1 p.lineRange ++ Ints.toBytes p.endian 1 p.opcodeBase ++ p.stdLens ++
  encodeFormat hs.dirFormat ++ encodeTable p.endian p.format hs.dirs ++
  encodeFormat hs.fileFormat ++ encodeTable p.endian p.format hs.files

def encodeBodyV5 (hs : HeaderV5) : Bytes :=
  Ints.toBytes hs.p.endian 2 hs.p.version ++ Ints.toBytes hs.p.endian 1 hs.p.addrSize ++
  Ints.toBytes hs.p.endian 1 0 ++
  wordBytes hs.p.endian hs.p.format (encodeFieldsV5 hs).length ++ encodeFieldsV5 hs ++ hs.program

def encodeHeaderV5 (hs : HeaderV5) : Out Bytes := do
  let il ← Ints.writeInitialLength hs.p.endian hs.p.format (encodeBodyV5 hs).length
  pure (il ++ encodeBodyV5 hs)

def HeaderV5.WF (hs : HeaderV5) : Prop :=
  hs.p.Valid ∧ hs.p.version = 5 ∧ FormatOk hs.dirFormat ∧ FormatOk hs.fileFormat ∧
  (∀ d ∈ hs.dirs, Conforms hs.p.format hs.dirFormat d) ∧
  (∀ f ∈ hs.files, Conforms hs.p.format hs.fileFormat f) ∧
  hs.dirs.length < 2 ^ 64 ∧ hs.files.length < 2 ^ 64 ∧
  (encodeBodyV5 hs).length < 2 ^ 64 ∧
  (hs.p.format = .dwarf32 → (encodeFieldsV5 hs).length < 2 ^ 32)

instance (hs : HeaderV5) : Decidable hs.WF := by unfold HeaderV5.WF; infer_instance

def HeaderV5.expected (hs : HeaderV5) : Header :=
  { p := hs.p, unitLength := (encodeBodyV5 hs).length, headerLength := (encodeFieldsV5 hs).length,
    dirFormat := hs.dirFormat, dirs := hs.dirs.map fun d => (dirOf hs.dirFormat d none).getD (.string []),
    fileFormat := hs.fileFormat, files := hs.files.map (fileOf5 hs.fileFormat),
    program := hs.program, compDir := none, compFile := none }

end Gimli.Spec.Line
