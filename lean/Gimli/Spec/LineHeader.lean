import Gimli.Spec.Line
/-!
# Spec: the line-number program header of DWARF versions 2–4 (§6.2.4), as an encoder

`encodeHeaderV4` writes an abstract header (`HeaderV4`) the way the standard lays it out;
`Props.C04.header_roundtrip_partial` shows that `LineProgramHeader::parse` (Model: `parseHeader`)
reads back exactly the parameters, include directories, file names and program it was given.
(Version 5 headers with their entry-format tables are not encoded here; they are covered by the
correspondence run and the `line-hexp` oracle.)
-/
namespace Gimli.Spec.Line
open Gimli Gimli.Line

/-- abstract header of versions 2–4 (§6.2.4): parameters, include directories, file names
(name, directory index, modification time, length), and the program that follows -/
structure HeaderV4 where
  p : Params
  dirs : List Bytes
  files : List (Bytes × Nat × Nat × Nat)
  program : Bytes

def encodeDirs : List Bytes → Bytes
  | [] => [0]
  | d :: ds => d ++ 0 :: encodeDirs ds

def encodeFiles : List (Bytes × Nat × Nat × Nat) → Bytes
  | [] => [0]
  | (n, d, t, s) :: fs => n ++ 0 :: (Leb.encodeU d ++ Leb.encodeU t ++ Leb.encodeU s ++ encodeFiles fs)

/-- everything between `header_length` and the program -/
def encodeFields (hs : HeaderV4) : Bytes :=
  let p := hs.p
  Ints.toBytes p.endian 1 p.minInstLen ++
  (if p.version ≥ 4 then Ints.toBytes p.endian 1 p.maxOps else []) ++
  Ints.toBytes p.endian 1 (if p.defaultIsStmt then 1 else 0) ++
  Ints.toBytes p.endian 1 (p.lineBase % 256).toNat ++
  Ints.toBytes p.endian 1 p.lineRange ++
  Ints.toBytes p.endian 1 p.opcodeBase ++
  p.stdLens ++ encodeDirs hs.dirs ++ encodeFiles hs.files

def wordBytes (e : Endian) (f : Format) (v : Nat) : Bytes :=
  match f with
  | .dwarf32 => Ints.toBytes e 4 v
  | .dwarf64 => Ints.toBytes e 8 v

/-- the unit after its initial length -/
def encodeBody (hs : HeaderV4) : Bytes :=
  Ints.toBytes hs.p.endian 2 hs.p.version ++
  wordBytes hs.p.endian hs.p.format (encodeFields hs).length ++ encodeFields hs ++ hs.program

/-- the whole unit (`.debug_line` contribution) -/
def encodeHeaderV4 (hs : HeaderV4) : Out Bytes := do
  let il ← Ints.writeInitialLength hs.p.endian hs.p.format (encodeBody hs).length
  pure (il ++ encodeBody hs)

/-- names are non-empty and contain no NUL; numbers fit `u64`; lengths fit their fields -/
def HeaderV4.WF (hs : HeaderV4) : Prop :=
  hs.p.Valid ∧ hs.p.version ≤ 4 ∧
  (∀ d ∈ hs.dirs, d ≠ [] ∧ (0 : UInt8) ∉ d) ∧
  (∀ f ∈ hs.files, f.1 ≠ [] ∧ (0 : UInt8) ∉ f.1 ∧ f.2.1 < 2 ^ 64 ∧ f.2.2.1 < 2 ^ 64 ∧ f.2.2.2 < 2 ^ 64) ∧
  (encodeBody hs).length < 2 ^ 64 ∧
  (hs.p.format = .dwarf32 → (encodeFields hs).length < 2 ^ 32)

/-- what must be read back -/
def HeaderV4.expected (hs : HeaderV4) (compDir compName : Option Bytes) : Header :=
  { p := hs.p, unitLength := (encodeBody hs).length, headerLength := (encodeFields hs).length,
    dirFormat := [], dirs := hs.dirs.map .string, fileFormat := [],
    files := hs.files.map fun (n, d, t, s) =>
      { path := .string n, dirIndex := d, timestamp := t, size := s,
        md5 := List.replicate 16 0, source := none },
    program := hs.program, compDir := compDir,
    compFile := compName.map fun n =>
      { path := .string n, dirIndex := 0, timestamp := 0, size := 0,
        md5 := List.replicate 16 0, source := none } }

instance (hs : HeaderV4) : Decidable hs.WF := by unfold HeaderV4.WF; infer_instance

end Gimli.Spec.Line
