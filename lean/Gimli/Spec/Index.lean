import Gimli.Prim.Basic
/-!
# What DWARF says about the package-file hash index (DWARF 5 §7.3.5.3)

"The hash table has `S = 2^k` slots.  Given a 64-bit signature `X`, the primary hash is
`H = X & MASK(k)` and the secondary hash is `H' = (((X >> 32) & MASK(k)) | 1)`.  A slot that is
not in use holds 0.  To look up (or insert): if slot `H` is unused, stop; if it holds `X`, it is
the match; otherwise `H = (H + H') % S` and repeat."

A table is the list of its `S` slots `(signature, row)`.  `build` is the producer's side of that
text (insertion); `scan` is the exhaustive search every accelerated lookup has to agree with.
-/
namespace Gimli.Spec.Index

/-- slot list; a slot whose signature is 0 is unused -/
abbrev Table := List (Nat × Nat)

/-- secondary hash `H'` (always odd) -/
def stride (k id : Nat) : Nat := ((id / 2 ^ 32) % 2 ^ k) ||| 1

/-- the `i`-th slot visited for signature `id` in a table of `2^k` slots -/
def probe (k id i : Nat) : Nat := (id % 2 ^ k + i * stride k id) % 2 ^ k

def emptyTable (k : Nat) : Table := List.replicate (2 ^ k) (0, 0)

def slot (t : Table) (p : Nat) : Nat × Nat := t.getD p (0, 0)

def slotId (t : Table) (p : Nat) : Nat := (slot t p).1

/-- the first unused slot on the probe sequence of `id`, looking at probes `i, i+1, …`
(at most `fuel` of them) -/
def firstFree (k id : Nat) (t : Table) : Nat → Nat → Option Nat
  | 0, _ => none
  | fuel + 1, i =>
    if slotId t (probe k id i) = 0 then some (probe k id i) else firstFree k id t fuel (i + 1)

/-- insertion as the standard describes it: walk the probe sequence to the first unused slot -/
def insert (k : Nat) (t : Table) (kv : Nat × Nat) : Option Table :=
  (firstFree k kv.1 t (2 ^ k) 0).map (fun p => t.set p kv)

/-- insert a list of `(signature, row)` pairs one after the other -/
def buildFrom (k : Nat) : List (Nat × Nat) → Table → Option Table
  | [], t => some t
  | kv :: kvs, t => (insert k t kv).bind (buildFrom k kvs)

def build (k : Nat) (kvs : List (Nat × Nat)) : Option Table := buildFrom k kvs (emptyTable k)

/-- exhaustive scan of a list of `(signature, row)` pairs (the slots of a table, or the list the
table was built from) -/
def scan (kvs : List (Nat × Nat)) (id : Nat) : Option Nat :=
  (kvs.find? (fun kv => kv.1 = id)).map (·.2)

/-- lookup as the standard describes it: walk the probe sequence (probes `i, i+1, …`, at most
`fuel` of them) until the signature or an unused slot is met -/
def lookupFrom (k id : Nat) (t : Table) : Nat → Nat → Option Nat
  | 0, _ => none
  | fuel + 1, i =>
    if slotId t (probe k id i) = id then some (slot t (probe k id i)).2
    else if slotId t (probe k id i) = 0 then none
    else lookupFrom k id t fuel (i + 1)

def lookup (k id : Nat) (t : Table) : Option Nat := lookupFrom k id t (2 ^ k) 0

/-- number of slots in use -/
def used : Table → Nat
  | [] => 0
  | kv :: t => (if kv.1 = 0 then 0 else 1) + used t

end Gimli.Spec.Index
