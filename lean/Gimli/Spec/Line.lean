import Gimli.Model.Line
/-!
# Spec: the DWARF line-number state machine (DWARF 5 §6.2.2, §6.2.5), over unbounded integers

Registers are mathematical naturals (the line register an integer), there are no widths, no
wrap-around, no tombstones and no error cases: this is what the standard says a *well-formed*
program means. `WF` is the decidable well-formedness predicate under which the Model
(`Gimli.Line`, the mirror of `src/read/line.rs`) must produce exactly these rows
(`Props.C04.rows_refine`).

The abstract program is a list of `Gimli.Line.Instr` (the instruction vocabulary is shared
with the Model; its *meaning* is defined here independently), `encodeInstr` is the byte
encoding of §6.2.5.
-/
namespace Gimli.Spec.Line
open Gimli Gimli.Line

/-- the state-machine registers of §6.2.2 -/
structure Regs where
  address : Nat
  opIndex : Nat
  file : Nat
  line : Int
  column : Nat
  isStmt : Bool
  basicBlock : Bool
  endSequence : Bool
  prologueEnd : Bool
  epilogueBegin : Bool
  isa : Nat
  discriminator : Nat
  deriving DecidableEq, Repr

/-- "At the beginning of each sequence within a line number program, the state of the
registers is:" (§6.2.2, Table 6.4) -/
def init (h : Params) : Regs :=
  { address := 0, opIndex := 0, file := 1, line := 1, column := 0, isStmt := h.defaultIsStmt,
    basicBlock := false, endSequence := false, prologueEnd := false, epilogueBegin := false,
    isa := 0, discriminator := 0 }

/-- §6.2.5.1: the operation advance.
`new address = address + min_inst_len * ((op_index + operation advance) / max_ops)`,
`new op_index = (op_index + operation advance) % max_ops` -/
def advance (h : Params) (r : Regs) (operationAdvance : Nat) : Regs :=
  { r with address := r.address + h.minInstLen * ((r.opIndex + operationAdvance) / h.maxOps),
           opIndex := (r.opIndex + operationAdvance) % h.maxOps }

/-- effect of one instruction on the registers; `true` = "append a row to the matrix" -/
def step (h : Params) (r : Regs) : Instr → Regs × Bool
  -- §6.2.5.1 special opcodes
  | .special opcode =>
    let adjusted := opcode - h.opcodeBase
    let r := { r with line := r.line + (h.lineBase + ((adjusted % h.lineRange : Nat) : Int)) }
    (advance h r (adjusted / h.lineRange), true)
  -- §6.2.5.2 standard opcodes
  | .copy => (r, true)
  | .advancePc n => (advance h r n, false)
  | .advanceLine i => ({ r with line := r.line + i }, false)
  | .setFile n => ({ r with file := n }, false)
  | .setColumn n => ({ r with column := n }, false)
  | .negateStatement => ({ r with isStmt := !r.isStmt }, false)
  | .setBasicBlock => ({ r with basicBlock := true }, false)
  | .constAddPc => (advance h r ((255 - h.opcodeBase) / h.lineRange), false)
  | .fixedAddPc n => ({ r with address := r.address + n, opIndex := 0 }, false)
  | .setPrologueEnd => ({ r with prologueEnd := true }, false)
  | .setEpilogueBegin => ({ r with epilogueBegin := true }, false)
  | .setIsa n => ({ r with isa := n }, false)
  -- §6.2.5.3 extended opcodes
  | .endSequence => ({ r with endSequence := true }, true)
  | .setAddress a => ({ r with address := a, opIndex := 0 }, false)
  | .defineFile _ => (r, false)
  | .setDiscriminator n => ({ r with discriminator := n }, false)
  -- unknown opcodes are skipped
  | .unknownStandard0 _ => (r, false)
  | .unknownStandard1 _ _ => (r, false)
  | .unknownStandardN _ _ => (r, false)
  | .unknownExtended _ _ => (r, false)

/-- what happens to the registers after a row has been appended: `end_sequence` resets them to
the initial state, every other row-producing instruction clears discriminator, basic_block,
prologue_end, epilogue_begin -/
def afterRow (h : Params) (r : Regs) : Regs :=
  if r.endSequence then init h
  else { r with discriminator := 0, basicBlock := false, prologueEnd := false,
                epilogueBegin := false }

/-- the matrix produced by a program started in state `r` -/
def rowsFrom (h : Params) : Regs → List Instr → List Regs
  | _, [] => []
  | r, i :: is =>
    match step h r i with
    | (r, true) => r :: rowsFrom h (afterRow h r) is
    | (r, false) => rowsFrom h r is

/-- the line-number matrix of a program -/
def rows (h : Params) (prog : List Instr) : List Regs := rowsFrom h (init h) prog

/-- the file table after the program: header entries plus `DW_LNE_define_file` entries -/
def definedFiles : List Instr → List FileEntry
  | [] => []
  | .defineFile f :: is => f :: definedFiles is
  | _ :: is => definedFiles is

/-! ## well-formedness -/

/-- operand ranges of a single instruction (what can be encoded at all) -/
def InstrOk (h : Params) : Instr → Bool
  | .special opcode => decide (h.opcodeBase ≤ opcode ∧ opcode ≤ 255)
  | .advancePc n => decide (n < 2 ^ 64)
  | .advanceLine i => decide (-(2 ^ 63 : Int) ≤ i ∧ i < 2 ^ 63)
  | .setFile n => decide (n < 2 ^ 64)
  | .setColumn n => decide (n < 2 ^ 64)
  | .fixedAddPc n => decide (n < 2 ^ 16)
  | .setIsa n => decide (n < 2 ^ 64)
  | .setDiscriminator n => decide (n < 2 ^ 64)
  | .setAddress a => decide (a < 2 ^ (8 * h.addrSize))
  | _ => true

/-- registers stay inside their machine widths: the address inside the address size, the line
non-negative and below 2^64 -/
def RegsOk (h : Params) (r : Regs) : Bool :=
  decide (r.address < 2 ^ (8 * h.addrSize) ∧ 0 ≤ r.line ∧ r.line < 2 ^ 64)

/-- state-dependent conditions: `DW_LNE_set_address` does not go backwards inside a sequence and
is not a tombstone (`-1`/`-2` in the address size); the operation pointer arithmetic of
`DW_LNS_advance_pc` stays below 2^64 before the division -/
def StepOk (h : Params) (r : Regs) : Instr → Bool
  | .setAddress a => decide (r.address ≤ a ∧ a + 2 < 2 ^ (8 * h.addrSize))
  | .advancePc n => decide (r.opIndex + n < 2 ^ 64)
  | _ => true

/-- a program is well-formed from state `r` -/
def WFFrom (h : Params) : Regs → List Instr → Bool
  | _, [] => true
  | r, i :: is =>
    InstrOk h i && StepOk h r i &&
    (match step h r i with
     | (r', true) => RegsOk h r' && WFFrom h (afterRow h r') is
     | (r', false) => RegsOk h r' && WFFrom h r' is)

/-- **Well-formed program**: every instruction is encodable, no register leaves its width, the
line never goes below zero, addresses set by `DW_LNE_set_address` never decrease within a
sequence and are not tombstones. -/
def WF (h : Params) (prog : List Instr) : Bool := WFFrom h (init h) prog

/-! ## encoding (§6.2.5) -/

/-- an extended opcode: `0`, ULEB length of what follows, the sub-opcode, its operand bytes -/
def encodeExt (sub : Nat) (payload : Bytes) : Bytes :=
  0 :: (Leb.encodeU (payload.length + 1) ++ UInt8.ofNat sub :: payload)

def encodeInstr (h : Params) : Instr → Bytes
  | .special opcode => [UInt8.ofNat opcode]
  | .copy => [1]
  | .advancePc n => 2 :: Leb.encodeU n
  | .advanceLine i => 3 :: Leb.encodeS i
  | .setFile n => 4 :: Leb.encodeU n
  | .setColumn n => 5 :: Leb.encodeU n
  | .negateStatement => [6]
  | .setBasicBlock => [7]
  | .constAddPc => [8]
  | .fixedAddPc n => 9 :: Ints.toBytes h.endian 2 n
  | .setPrologueEnd => [10]
  | .setEpilogueBegin => [11]
  | .setIsa n => 12 :: Leb.encodeU n
  | .unknownStandard0 opcode => [UInt8.ofNat opcode]
  | .unknownStandard1 opcode arg => UInt8.ofNat opcode :: Leb.encodeU arg
  | .unknownStandardN opcode args => UInt8.ofNat opcode :: args
  | .endSequence => encodeExt 1 []
  | .setAddress a => encodeExt 2 (Ints.toBytes h.endian h.addrSize a)
  | .defineFile f =>
    encodeExt 3 ((match f.path with | .string p => p | _ => []) ++ 0 ::
      (Leb.encodeU f.dirIndex ++ Leb.encodeU f.timestamp ++ Leb.encodeU f.size))
  | .setDiscriminator n => encodeExt 4 (Leb.encodeU n)
  | .unknownExtended opcode data => encodeExt opcode data

def encodeProg (h : Params) : List Instr → Bytes
  | [] => []
  | i :: is => encodeInstr h i ++ encodeProg h is

end Gimli.Spec.Line

namespace Gimli.Spec.Line
open Gimli Gimli.Line

/-- the Model row that carries the Spec registers (a row the implementation returns is never a
tombstone; the line register is a `u64`) -/
def toRow (r : Regs) : Row :=
  { tombstone := false, address := r.address, opIndex := r.opIndex, file := r.file,
    line := r.line.toNat, column := r.column, isStmt := r.isStmt, basicBlock := r.basicBlock,
    endSequence := r.endSequence, prologueEnd := r.prologueEnd, epilogueBegin := r.epilogueBegin,
    isa := r.isa, discriminator := r.discriminator }

/-! ## the "any input" clause: addresses inside a sequence -/

/-- **Monotone as the caller sees it.** `lo` is the address of the last returned row of the
current sequence (0 at its start). Every returned row has an address `≥ lo` and `≤` the all-ones
value of the address size; a returned row with `end_sequence` starts a new sequence. Errors and
rows that `next_row` swallowed (`hidden`) neither interrupt nor end a sequence. -/
def MonoObserved (size : Nat) : Nat → List Ev → Prop
  | _, [] => True
  | lo, .row r :: evs =>
    lo ≤ r.address ∧ r.address ≤ onesSized size ∧
      MonoObserved size (if r.endSequence then 0 else r.address) evs
  | lo, _ :: evs => MonoObserved size lo evs

/-- executable form of `MonoObserved` (for `decide`d examples) -/
def monoObservedB (size : Nat) : Nat → List Ev → Bool
  | _, [] => true
  | lo, .row r :: evs =>
    decide (lo ≤ r.address) && decide (r.address ≤ onesSized size) &&
      monoObservedB size (if r.endSequence then 0 else r.address) evs
  | lo, .hidden _ :: evs => monoObservedB size lo evs
  | lo, .err _ :: evs => monoObservedB size lo evs
  | lo, .stuck :: evs => monoObservedB size lo evs

theorem monoObservedB_iff (size : Nat) (evs : List Ev) : ∀ lo,
    monoObservedB size lo evs = true ↔ MonoObserved size lo evs := by
  induction evs with
  | nil => intro lo; simp [monoObservedB, MonoObserved]
  | cons e evs ih =>
    intro lo
    cases e <;> simp [monoObservedB, MonoObserved, ih, and_assoc]

instance (size lo : Nat) (evs : List Ev) : Decidable (MonoObserved size lo evs) :=
  decidable_of_iff _ (monoObservedB_iff size evs lo)

/-! ## which instructions the encoding can express -/

/-- the bytes of an inline (`DW_FORM_string`) path -/
def pathBytes : AttrVal → Option Bytes
  | .string p => some p
  | _ => none

/-- the instruction is what its §6.2.5 encoding means under this header: the opcode number is a
standard opcode of this header (below `opcode_base`), operands fit their encodings, unknown
standard opcodes carry exactly the number of ULEB operands the header announces -/
def EncOk (h : Params) : Instr → Prop
  | .special op => h.opcodeBase ≤ op ∧ op ≤ 255
  | .copy => 1 < h.opcodeBase
  | .advancePc n => 2 < h.opcodeBase ∧ n < 2 ^ 64
  | .advanceLine i => 3 < h.opcodeBase ∧ -(2 ^ 63 : Int) ≤ i ∧ i < 2 ^ 63
  | .setFile n => 4 < h.opcodeBase ∧ n < 2 ^ 64
  | .setColumn n => 5 < h.opcodeBase ∧ n < 2 ^ 64
  | .negateStatement => 6 < h.opcodeBase
  | .setBasicBlock => 7 < h.opcodeBase
  | .constAddPc => 8 < h.opcodeBase
  | .fixedAddPc n => 9 < h.opcodeBase ∧ n < 2 ^ 16
  | .setPrologueEnd => 10 < h.opcodeBase
  | .setEpilogueBegin => 11 < h.opcodeBase
  | .setIsa n => 12 < h.opcodeBase ∧ n < 2 ^ 64
  | .unknownStandard0 op => 13 ≤ op ∧ op < h.opcodeBase ∧ (h.stdLens.drop (op - 1)).head? = some 0
  | .unknownStandard1 op a => 13 ≤ op ∧ op < h.opcodeBase ∧ (h.stdLens.drop (op - 1)).head? = some 1 ∧ a < 2 ^ 64
  | .unknownStandardN op args => 13 ≤ op ∧ op < h.opcodeBase ∧
      ((h.stdLens.drop (op - 1)).head?.isSome = true) ∧
      ((h.stdLens.drop (op - 1)).head?.all fun n =>
        decide (2 ≤ n.toNat ∧ skipUlebs n.toNat args = .ok [])) = true
  | .endSequence => True
  | .setAddress a => a < 2 ^ (8 * h.addrSize)
  | .defineFile f => h.version ≤ 4 ∧
      ((pathBytes f.path).isSome = true) ∧
      ((pathBytes f.path).all fun p => decide ((0 : UInt8) ∉ p ∧ p.length < 2 ^ 63)) = true ∧
      f.dirIndex < 2 ^ 64 ∧
      f.timestamp < 2 ^ 64 ∧ f.size < 2 ^ 64 ∧ f.md5 = List.replicate 16 0 ∧ f.source = none
  | .setDiscriminator n => n < 2 ^ 64
  | .unknownExtended op data => op ≤ 255 ∧ op ≠ 1 ∧ op ≠ 2 ∧ op ≠ 4 ∧ (op = 3 → 5 ≤ h.version) ∧
      data.length + 1 < 2 ^ 64


instance (h : Params) (i : Instr) : Decidable (EncOk h i) := by
  cases i <;> unfold EncOk <;> infer_instance

/-! ## the sequence clause -/

/-- what `sequences()` promises about one `LineSequence`: resuming it yields rows without
`end_sequence` followed by exactly one `end_sequence` row; `end` is that row's address and
`start` is the address of the first row the sequence yields (the end row itself when it is the
only one). -/
def SeqOk (h : Params) (s : Seq) : Prop :=
  ∃ (rows : List Row) (last : Row),
    resume h s = rows.map Ev.row ++ [Ev.row last] ∧ last.endSequence = true ∧
    (∀ r ∈ rows, r.endSequence = false) ∧ s.end = last.address ∧
    s.start = (match rows with | [] => last.address | r :: _ => r.address)

end Gimli.Spec.Line
