import Gimli.Model.Ints
/-!
# Spec: what a DWARF range list / location list means

DWARF 2–4 §2.6.2 / §2.17.3 (`.debug_loc`, `.debug_ranges`: bare address pairs), DWARF 5 §2.6.2 /
§2.17.3 / §7.7.3 / §7.25 (`.debug_loclists`, `.debug_rnglists`: `DW_LLE_*` / `DW_RLE_*` coded
entries) and the GNU split-DWARF v4 variant (`DW_LLE_*` codes inside `.debug_loc.dwo`, with fixed
width length fields).

* `Entry` — the abstract entry kinds (one list = `List Entry`, terminator implicit).
* `encodeList` — the serialisation; it *defines* which byte strings are well-formed lists.
* `resolveList` — the address ranges (and expressions) a list denotes relative to a base address
  and an address table, restricted to the entries that denote something (`Keep`).

Addresses are unsigned integers of the unit's address size `s`; every sum is taken modulo
`2^(8·s)` (offsets and lengths may be "negative" two's complement values).
No machine widths other than the address size occur here.
-/
namespace Gimli.Spec.Lists
open Gimli Gimli.Ints

/-- range lists (`.debug_ranges` / `.debug_rnglists`) or location lists (`.debug_loc` /
`.debug_loclists`) -/
inductive Kind where
  | rng
  | loc
  deriving DecidableEq, Repr, Inhabited

/-- on-disk format: bare address pairs (DWARF ≤ 4) or `DW_RLE_*`/`DW_LLE_*` coded entries
(DWARF 5, and GNU split-DWARF v4 location lists) -/
inductive Fmt where
  | bare
  | coded
  deriving DecidableEq, Repr, Inhabited

/-- byte order + `gimli::Encoding` of the unit that refers to the list -/
structure Cfg where
  endian : Endian
  format : Format
  version : Nat
  addrSize : Nat
  deriving DecidableEq, Repr, Inhabited

/-- One list entry, as encoded. `data` is the location description (always `[]` in range lists).
The terminator (`DW_RLE_end_of_list` / `DW_LLE_end_of_list` / the `(0,0)` pair) is not an entry. -/
inductive Entry where
  /-- bare format: an address-or-offset pair (relative to the base address) -/
  | pair (b e : Nat) (data : Bytes)
  /-- `DW_*LE_base_address`; bare format: `(all-ones, addr)` base address selection -/
  | baseAddress (a : Nat)
  /-- `DW_*LE_base_addressx` -/
  | baseAddressx (i : Nat)
  /-- `DW_*LE_startx_endx` -/
  | startxEndx (b e : Nat) (data : Bytes)
  /-- `DW_*LE_startx_length` -/
  | startxLength (b len : Nat) (data : Bytes)
  /-- `DW_*LE_offset_pair` -/
  | offsetPair (b e : Nat) (data : Bytes)
  /-- `DW_LLE_default_location` (location lists only) -/
  | defaultLocation (data : Bytes)
  /-- `DW_*LE_start_end` -/
  | startEnd (b e : Nat) (data : Bytes)
  /-- `DW_*LE_start_length` -/
  | startLength (b len : Nat) (data : Bytes)
  deriving DecidableEq, Repr, Inhabited

/-! ## meaning -/

/-- number of distinct addresses of an `s`-byte address space -/
def addrMod (s : Nat) : Nat := 2 ^ (8 * s)

/-- The smallest tombstone address, `-2` as an `s`-byte address. DWARF 6 reserves `-1` for
addresses of discarded code; in `.debug_ranges`/`.debug_loc` (DWARF ≤ 4) `-1` already selects a
base address, so linkers use `-2` there. Addresses `≥ tombstone s` denote nothing. -/
def tombstone (s : Nat) : Nat := addrMod s - 2

/-- the address table of a unit: index ↦ address (`.debug_addr` from `DW_AT_addr_base` on) -/
abbrev Table := Nat → Option Nat

/-- The address table stored in a `.debug_addr` section `sec` for a unit whose `DW_AT_addr_base`
is `base`: entry `i` is the `s`-byte integer at offset `base + i·s` (DWARF 5 §7.27). -/
def tableOf (e : Endian) (s : Nat) (sec : Bytes) (base : Nat) : Table := fun i =>
  if base + i * s + s ≤ sec.length then some (fromBytes e ((sec.drop (base + i * s)).take s))
  else none

/-- what one entry denotes, given the current base address -/
inductive Step where
  /-- the entry selects a new base address for the following entries -/
  | setBase (a : Nat)
  /-- the entry denotes `[b, e)` with location description `data`; `rel` = the bounds are
  relative to the current base address -/
  | range (b e : Nat) (data : Bytes) (rel : Bool)
  /-- the entry refers to an address-table slot that does not exist -/
  | undefined
  deriving DecidableEq, Repr

/-- DWARF 5 §2.17.3 / §2.6.2 entry by entry. The default location applies at every address not
covered otherwise; as an address range it is "everything": `[0, 2^64-1)` is the representation the
reader under study uses for it and is adopted here. -/
def resolve1 (s : Nat) (tbl : Table) (base : Nat) : Entry → Step
  | .pair b e d => .range ((base + b) % addrMod s) ((base + e) % addrMod s) d true
  | .offsetPair b e d => .range ((base + b) % addrMod s) ((base + e) % addrMod s) d true
  | .baseAddress a => .setBase a
  | .baseAddressx i =>
    match tbl i with
    | some a => .setBase a
    | none => .undefined
  | .startxEndx b e d =>
    match tbl b, tbl e with
    | some b, some e => .range b e d false
    | _, _ => .undefined
  | .startxLength b len d =>
    match tbl b with
    | some b => .range b ((b + len) % addrMod s) d false
    | none => .undefined
  | .defaultLocation d => .range 0 (2 ^ 64 - 1) d false
  | .startEnd b e d => .range b e d false
  | .startLength b len d => .range b ((b + len) % addrMod s) d false

/-- An entry denotes an address range iff the range is non-empty and does not start at a
tombstone address, and — for bounds relative to the base address — the base address is not a
tombstone itself (a discarded section: base = tombstone, offsets small). -/
def Keep (s base b e : Nat) (rel : Bool) : Prop :=
  (rel = true → base < tombstone s) ∧ b < tombstone s ∧ b < e

instance (s base b e : Nat) (rel : Bool) : Decidable (Keep s base b e rel) := by
  unfold Keep; infer_instance

/-- what a list denotes, in list order -/
inductive Denot where
  | range (b e : Nat) (data : Bytes)
  | undefined
  deriving DecidableEq, Repr

/-- The ranges a list denotes relative to `base` (the unit's base address) and `tbl`, restricted
to the entries that are kept. -/
def resolveList (s : Nat) (tbl : Table) : Nat → List Entry → List Denot
  | _, [] => []
  | base, x :: xs =>
    match resolve1 s tbl base x with
    | .setBase a => resolveList s tbl a xs
    | .undefined => .undefined :: resolveList s tbl base xs
    | .range b e d rel =>
      if Keep s base b e rel then .range b e d :: resolveList s tbl base xs
      else resolveList s tbl base xs

/-! ## encoding (defines well-formed lists) -/

/-- `DW_RLE_*` / `DW_LLE_*` code of an entry kind (DWARF 5 §7.25 table 7.30, §7.7.3 table 7.10);
`none`: the kind does not exist in that family / is the bare pair -/
def code : Kind → Entry → Option Nat
  | _, .pair .. => none
  | _, .baseAddressx _ => some 1
  | _, .startxEndx .. => some 2
  | _, .startxLength .. => some 3
  | _, .offsetPair .. => some 4
  | .rng, .defaultLocation _ => none
  | .loc, .defaultLocation _ => some 5
  | .rng, .baseAddress _ => some 5
  | .loc, .baseAddress _ => some 6
  | .rng, .startEnd .. => some 6
  | .loc, .startEnd .. => some 7
  | .rng, .startLength .. => some 7
  | .loc, .startLength .. => some 8

/-- counted location description: ULEB128 length in DWARF 5, 2-byte length before (`.debug_loc`,
also in the GNU split-DWARF v4 coded form); nothing in range lists -/
def encData (k : Kind) (c : Cfg) (f : Fmt) (data : Bytes) : Bytes :=
  match k with
  | .rng => []
  | .loc =>
    if f = .coded ∧ c.version ≥ 5 then Leb.encodeU data.length ++ data
    else toBytes c.endian 2 data.length ++ data

def encAddr (c : Cfg) (a : Nat) : Bytes := toBytes c.endian c.addrSize a

/-- one entry; meaningful under `WfEntry` -/
def encodeEntry (k : Kind) (c : Cfg) (f : Fmt) (x : Entry) : Bytes :=
  match f with
  | .bare =>
    match x with
    | .pair b e d => encAddr c b ++ encAddr c e ++ encData k c .bare d
    | .baseAddress a => encAddr c (addrMod c.addrSize - 1) ++ encAddr c a
    | _ => []
  | .coded =>
    let tag : Bytes := [UInt8.ofNat ((code k x).getD 0)]
    match x with
    | .pair .. => []
    | .baseAddress a => tag ++ encAddr c a
    | .baseAddressx i => tag ++ Leb.encodeU i
    | .startxEndx b e d => tag ++ Leb.encodeU b ++ Leb.encodeU e ++ encData k c .coded d
    | .startxLength b len d =>
      tag ++ Leb.encodeU b ++
        (if k = .loc ∧ c.version < 5 then toBytes c.endian 4 len else Leb.encodeU len) ++ encData k c .coded d
    | .offsetPair b e d => tag ++ Leb.encodeU b ++ Leb.encodeU e ++ encData k c .coded d
    | .defaultLocation d => tag ++ encData k c .coded d
    | .startEnd b e d => tag ++ encAddr c b ++ encAddr c e ++ encData k c .coded d
    | .startLength b len d => tag ++ encAddr c b ++ Leb.encodeU len ++ encData k c .coded d

/-- the end-of-list entry -/
def terminator (c : Cfg) : Fmt → Bytes
  | .bare => encAddr c 0 ++ encAddr c 0
  | .coded => [0]

/-- a whole list: its entries, then the terminator -/
def encodeList (k : Kind) (c : Cfg) (f : Fmt) : List Entry → Bytes
  | [] => terminator c f
  | x :: xs => encodeEntry k c f x ++ encodeList k c f xs

/-- the address size is one DWARF allows -/
def ValidSize (s : Nat) : Prop := s = 1 ∨ s = 2 ∨ s = 4 ∨ s = 8

instance (s : Nat) : Decidable (ValidSize s) := by unfold ValidSize; infer_instance

/-- the location description fits its length field and is absent in range lists -/
def WfData (k : Kind) (c : Cfg) (f : Fmt) (d : Bytes) : Prop :=
  match k with
  | .rng => d = []
  | .loc => if f = .coded ∧ c.version ≥ 5 then d.length < 2 ^ 64 else d.length < 2 ^ 16

instance (k : Kind) (c : Cfg) (f : Fmt) (d : Bytes) : Decidable (WfData k c f d) := by
  unfold WfData; cases k <;> infer_instance

/-- Well-formed entry for a family, unit configuration and format: the kind exists there and every
field fits its encoding. In the bare format a pair must be neither the terminator `(0,0)` nor
start with the all-ones base-address marker. -/
def WfEntry (k : Kind) (c : Cfg) (f : Fmt) (x : Entry) : Prop :=
  match f, x with
  | .bare, .pair b e d =>
    b < addrMod c.addrSize ∧ e < addrMod c.addrSize ∧ ¬(b = 0 ∧ e = 0) ∧ b ≠ addrMod c.addrSize - 1 ∧
      WfData k c f d
  | .bare, .baseAddress a => a < addrMod c.addrSize
  | .bare, _ => False
  | .coded, .pair .. => False
  | .coded, .baseAddress a => a < addrMod c.addrSize
  | .coded, .baseAddressx i => i < 2 ^ 64
  | .coded, .startxEndx b e d => b < 2 ^ 64 ∧ e < 2 ^ 64 ∧ WfData k c f d
  | .coded, .startxLength b len d =>
    b < 2 ^ 64 ∧ (if k = .loc ∧ c.version < 5 then len < 2 ^ 32 else len < 2 ^ 64) ∧ WfData k c f d
  | .coded, .offsetPair b e d => b < 2 ^ 64 ∧ e < 2 ^ 64 ∧ WfData k c f d
  | .coded, .defaultLocation d => k = .loc ∧ WfData k c f d
  | .coded, .startEnd b e d => b < addrMod c.addrSize ∧ e < addrMod c.addrSize ∧ WfData k c f d
  | .coded, .startLength b len d => b < addrMod c.addrSize ∧ len < 2 ^ 64 ∧ WfData k c f d

instance (k : Kind) (c : Cfg) (f : Fmt) (x : Entry) : Decidable (WfEntry k c f x) := by
  unfold WfEntry; cases f <;> cases x <;> infer_instance

end Gimli.Spec.Lists
