import Gimli.Model.Ints
/-!
# Model of the unit writer: `src/write/unit.rs`, `src/write/abbrev.rs`, `src/write/str.rs`,
the unit part of `src/write/dwarf.rs`, `EndianVec::write_at` (`src/write/endian_vec.rs`)

The writer lays a unit out in two passes.  Pass 1 (`calculate_offsets`) walks the entry tree and
assigns to each entry the `.debug_info` offset at which it *will* be written, from a size model
(`DebuggingInformationEntry::size`, `AttributeValue::size`); on the way every entry's abbreviation
is interned (`AbbreviationTable::add`) and its code remembered.  Pass 2 (`write`) emits bytes.
References inside the unit (`UnitRef`) are emitted as zero placeholders and patched after pass 2
from the pass-1 offsets; references across units (`DebugInfoRef::Entry`, also from inside
expressions) are queued as `DebugInfoFixup`s and patched after *all* units are written.

Everything is mirrored path by path, with these representation choices:

* an entry tree is given as a `Tree` (the `Unit.entries` vector plus `children` id lists is a tree
  by construction of the API); `id` is the entry's index in `Unit.entries`;
* `UnitOffsets.entries : Vec<DebugInfoOffset>` (0 = not yet assigned) is a finite map
  `Nat → Option Nat` together with its length `n` (an index `≥ n` is the Rust slice-index panic);
  the same for `codes`;
* the `DW_AT_sibling` value and the unit's initial length are emitted at their final value instead
  of "placeholder, then `write_udata_at` at a remembered offset": both placeholders lie inside the
  bytes the same call has just produced, the error (`ValueTooLarge` / `InitialLengthOverflow`) is
  raised at the same point in the sequence.  `UnitRef` and `DebugInfoRef` placeholders are patched
  positionally, exactly like the code does (`writeAt` = `EndianVec::write_at`);
* expressions are opaque byte blobs (`Expression::raw`) plus the three operations whose encoding
  depends on the unit layout: `DW_OP_convert <base type>` (ULEB128 unit offset — the reason for
  `reorder_base_types`), `DW_OP_call4 <entry>` and `DW_OP_call_ref <unit, entry>` (fix-up);
* line programs, range lists and location lists are written by other parts of the crate; their
  section offsets are inputs here (`lineProgram`, the payload of `rangeListRef`/`locationListRef`).
-/
namespace Gimli.WUnit
open Gimli Gimli.Ints

/-! ## constants (pinned by the byte-exact correspondence on `.debug_abbrev`) -/
def DW_FORM_addr : Nat := 0x01
def DW_FORM_data2 : Nat := 0x05
def DW_FORM_data4 : Nat := 0x06
def DW_FORM_data8 : Nat := 0x07
def DW_FORM_string : Nat := 0x08
def DW_FORM_block : Nat := 0x09
def DW_FORM_data1 : Nat := 0x0b
def DW_FORM_flag : Nat := 0x0c
def DW_FORM_sdata : Nat := 0x0d
def DW_FORM_strp : Nat := 0x0e
def DW_FORM_udata : Nat := 0x0f
def DW_FORM_ref_addr : Nat := 0x10
def DW_FORM_ref4 : Nat := 0x13
def DW_FORM_ref8 : Nat := 0x14
def DW_FORM_sec_offset : Nat := 0x17
def DW_FORM_exprloc : Nat := 0x18
def DW_FORM_flag_present : Nat := 0x19
def DW_FORM_ref_sup4 : Nat := 0x1c
def DW_FORM_strp_sup : Nat := 0x1d
def DW_FORM_data16 : Nat := 0x1e
def DW_FORM_line_strp : Nat := 0x1f
def DW_FORM_ref_sig8 : Nat := 0x20
def DW_FORM_implicit_const : Nat := 0x21
def DW_FORM_ref_sup8 : Nat := 0x24
def DW_AT_sibling : Nat := 0x01
def DW_AT_stmt_list : Nat := 0x10
def DW_TAG_base_type : Nat := 0x24
def DW_UT_compile : Nat := 0x01
def DW_OP_call4 : Nat := 0x99
def DW_OP_call_ref : Nat := 0x9a
def DW_OP_convert : Nat := 0xa8
def DW_OP_GNU_convert : Nat := 0xf7

/-- `gimli::Encoding` -/
structure Enc where
  version : Nat
  format : Format
  addrSize : Nat
  deriving DecidableEq, Repr, Inhabited

/-- `Format::word_size` -/
def Enc.word (c : Enc) : Nat := c.format.wordSize

/-- the part of `write::Expression` whose encoding depends on the unit layout -/
inductive ExprItem where
  /-- `Operation::Raw` (any run of operations that do not reference entries) -/
  | raw (bs : Bytes)
  /-- `Operation::Convert(Some(base))` -/
  | convert (id : Nat)
  /-- `Operation::Call(entry)` -/
  | call (id : Nat)
  /-- `Operation::CallRef(DebugInfoRef::Entry(unit, entry))` -/
  | callRef (unit id : Nat)
  deriving DecidableEq, Repr

/-- `write::AttributeValue`, variant by variant.  Ids are already resolved to indices
(`UnitEntryId.index`, `UnitId.index`, `StringId.index`, `LineStringId.index`); list ids are
resolved to the section offset the list writer returned. -/
inductive AttrVal where
  | address (v : Nat)
  | addressSym
  | block (bs : Bytes)
  | data1 (v : Nat)
  | data2 (v : Nat)
  | data4 (v : Nat)
  | data8 (v : Nat)
  | data16 (v : Nat)
  | sdata (v : Int)
  | udata (v : Nat)
  | implicitConst (v : Int)
  | exprloc (items : List ExprItem)
  | flag (b : Bool)
  | flagPresent
  | unitRef (id : Nat)
  | debugInfoRef (unit id : Nat)
  | debugInfoRefSym
  | debugInfoRefSup (off : Nat)
  | lineProgramRef
  | locationListRef (off : Nat)
  | debugMacinfoRef (off : Nat)
  | debugMacroRef (off : Nat)
  | rangeListRef (off : Nat)
  | debugTypesRef (sig : Nat)
  | stringRef (idx : Nat)
  | debugStrRefSup (off : Nat)
  | lineStringRef (idx : Nat)
  | string (bs : Bytes)
  /-- `Encoding`, `DecimalSign`, `Endianity`, `Accessibility`, `Visibility`, `Virtuality`,
  `Language`, `AddressClass`, `IdentifierCase`, `CallingConvention`, `Inline`, `Ordering`:
  twelve variants with one behaviour (`DW_FORM_udata` of the raw constant) -/
  | constClass (v : Nat)
  /-- `FileIndex(id)`; `raw` is `id.map(|id| id.raw(version))` (`none` writes 0) -/
  | fileIndex (raw : Option Nat)
  deriving DecidableEq, Repr

/-! ## `UnitOffsets` -/

/-- finite map with the `Vec` length it stands for -/
structure Offs where
  /-- `UnitOffsets.unit` -/
  unit : Nat
  /-- `UnitOffsets.entries.len()` -/
  n : Nat
  /-- `UnitOffsets.entries[i]`, `none` for the initial 0 -/
  map : Nat → Option Nat

def Offs.set (o : Offs) (id off : Nat) : Offs :=
  { o with map := fun j => if j = id then some off else o.map j }

/-- `UnitOffsets::debug_info_offset` -/
def Offs.debugInfoOffset (o : Offs) (id : Nat) : Out (Option Nat) :=
  if id < o.n then .ok (o.map id) else .panic "index out of bounds (UnitOffsets.entries)"

/-- `UnitOffsets::unit_offset` -/
def Offs.unitOffset (o : Offs) (id : Nat) : Out (Option Nat) := do
  let r ← o.debugInfoOffset id
  pure (r.map (· - o.unit))

/-! ## the three parallel switches of `AttributeValue` -/

/-- `AttributeValue::form`: the form code and the implicit-const value stored in the abbreviation
(0 when the form has none, as `AttributeSpecification::new` stores it) -/
def attrForm (c : Enc) : AttrVal → Nat × Int
  | .address _ | .addressSym => (DW_FORM_addr, 0)
  | .block _ => (DW_FORM_block, 0)
  | .data1 _ => (DW_FORM_data1, 0)
  | .data2 _ => (DW_FORM_data2, 0)
  | .data4 _ => (DW_FORM_data4, 0)
  | .data8 _ => (DW_FORM_data8, 0)
  | .data16 _ => (DW_FORM_data16, 0)
  | .exprloc _ => (if c.version ≥ 4 then DW_FORM_exprloc else DW_FORM_block, 0)
  | .flag _ => (DW_FORM_flag, 0)
  | .flagPresent => (if c.version ≥ 4 then DW_FORM_flag_present else DW_FORM_flag, 0)
  | .unitRef _ => (match c.format with | .dwarf32 => DW_FORM_ref4 | .dwarf64 => DW_FORM_ref8, 0)
  | .debugInfoRef _ _ | .debugInfoRefSym => (DW_FORM_ref_addr, 0)
  | .debugInfoRefSup _ =>
    (match c.format with | .dwarf32 => DW_FORM_ref_sup4 | .dwarf64 => DW_FORM_ref_sup8, 0)
  | .lineProgramRef | .locationListRef _ | .debugMacinfoRef _ | .debugMacroRef _
  | .rangeListRef _ =>
    (if c.version = 2 ∨ c.version = 3 then
      (match c.format with | .dwarf32 => DW_FORM_data4 | .dwarf64 => DW_FORM_data8)
     else DW_FORM_sec_offset, 0)
  | .debugTypesRef _ => (DW_FORM_ref_sig8, 0)
  | .stringRef _ => (DW_FORM_strp, 0)
  | .debugStrRefSup _ => (DW_FORM_strp_sup, 0)
  | .lineStringRef _ => (DW_FORM_line_strp, 0)
  | .string _ => (DW_FORM_string, 0)
  | .constClass _ | .fileIndex _ | .udata _ => (DW_FORM_udata, 0)
  | .sdata _ => (DW_FORM_sdata, 0)
  | .implicitConst v => if c.version ≥ 5 then (DW_FORM_implicit_const, v) else (DW_FORM_sdata, 0)

/-- `Operation::size` for the modelled operations; `o` are the offsets known *at that moment* -/
def exprItemSize (c : Enc) (o : Offs) : ExprItem → Out Nat
  | .raw bs => .ok bs.length
  | .convert id => do
    match ← o.unitOffset id with
    | some u => pure (1 + Leb.sizeU u)
    | none => .err .wUnsupportedExpressionForwardReference
  | .call _ => .ok (1 + 4)
  | .callRef _ _ => .ok (1 + c.word)

/-- `Expression::size` -/
def exprSize (c : Enc) (o : Offs) : List ExprItem → Out Nat
  | [] => .ok 0
  | it :: rest => do
    let a ← exprItemSize c o it
    let r ← exprSize c o rest
    pure (a + r)

/-- `AttributeValue::size` -/
def attrSize (c : Enc) (o : Offs) : AttrVal → Out Nat
  | .address _ | .addressSym => .ok c.addrSize
  | .block bs => .ok (Leb.sizeU bs.length + bs.length)
  | .data1 _ => .ok 1
  | .data2 _ => .ok 2
  | .data4 _ => .ok 4
  | .data8 _ => .ok 8
  | .data16 _ => .ok 16
  | .sdata v => .ok (Leb.sizeS v)
  | .implicitConst v => .ok (if c.version ≥ 5 then 0 else Leb.sizeS v)
  | .udata v => .ok (Leb.sizeU v)
  | .exprloc items => do
    let size ← exprSize c o items
    pure (Leb.sizeU size + size)
  | .flag _ => .ok 1
  | .flagPresent => .ok (if c.version ≥ 4 then 0 else 1)
  | .unitRef _ => .ok c.word
  | .debugInfoRef _ _ | .debugInfoRefSym => .ok (if c.version = 2 then c.addrSize else c.word)
  | .debugInfoRefSup _ => .ok c.word
  | .lineProgramRef | .locationListRef _ | .debugMacinfoRef _ | .debugMacroRef _
  | .rangeListRef _ => .ok c.word
  | .debugTypesRef _ => .ok 8
  | .stringRef _ | .debugStrRefSup _ | .lineStringRef _ => .ok c.word
  | .string bs => .ok (bs.length + 1)
  | .constClass v => .ok (Leb.sizeU v)
  | .fileIndex raw => .ok (Leb.sizeU (raw.getD 0))

/-- `DebugInfoFixup` -/
structure IFix where
  pos : Nat
  size : Nat
  unit : Nat
  id : Nat
  deriving DecidableEq, Repr

/-- what a piece of pass 2 produced: the bytes appended to `.debug_info`, the `unit_refs` and
`debug_info_refs` pushed (absolute section positions), and — ghost, mirrors the
`debug_assert_eq!(offsets.debug_info_offset(self.id), Some(w.offset()))` at the head of
`DebuggingInformationEntry::write` — the position at which each entry started -/
structure Emit where
  bytes : Bytes := []
  urefs : List (Nat × Nat) := []
  ifix : List IFix := []
  starts : List (Nat × Nat) := []

def Emit.append (a b : Emit) : Emit :=
  { bytes := a.bytes ++ b.bytes, urefs := a.urefs ++ b.urefs, ifix := a.ifix ++ b.ifix,
    starts := a.starts ++ b.starts }

instance : Append Emit := ⟨Emit.append⟩

/-- everything pass 2 reads -/
structure Ctx where
  endian : Endian
  enc : Enc
  /-- the complete `UnitOffsets` of pass 1 -/
  offs : Offs
  /-- `codes[i]` of pass 1 -/
  codes : Nat → Option Nat
  /-- offset of the unit's line program in `.debug_line`, if one was written -/
  lineProgram : Option Nat
  /-- `StringTable.offsets` -/
  strOffsets : List Nat
  /-- `LineStringTable.offsets` -/
  lineStrOffsets : List Nat

def zeros (n : Nat) : Bytes := List.replicate n 0

/-- `Operation::write` for the modelled operations, at section position `pos` -/
def exprItemEmit (cx : Ctx) (pos : Nat) : ExprItem → Out (Bytes × List IFix)
  | .raw bs => .ok (bs, [])
  | .convert id => do
    let op := if cx.enc.version ≥ 5 then DW_OP_convert else DW_OP_GNU_convert
    match ← cx.offs.unitOffset id with
    | some u => pure (UInt8.ofNat op :: Leb.encodeU u, [])
    | none => .err .wUnsupportedExpressionForwardReference
  | .call id => do
    match ← cx.offs.unitOffset id with
    | some u => do
      let b ← writeUdata cx.endian u 4
      pure (UInt8.ofNat DW_OP_call4 :: b, [])
    | none => .err .wUnsupportedExpressionForwardReference
  | .callRef unit id => do
    let b ← writeUdata cx.endian 0 cx.enc.word
    pure (UInt8.ofNat DW_OP_call_ref :: b,
      [{ pos := pos + 1, size := cx.enc.word, unit := unit, id := id }])

def exprItemsEmit (cx : Ctx) (pos : Nat) : List ExprItem → Out (Bytes × List IFix)
  | [] => .ok ([], [])
  | it :: rest => do
    let (a, fa) ← exprItemEmit cx pos it
    let (r, fr) ← exprItemsEmit cx (pos + a.length) rest
    pure (a ++ r, fa ++ fr)

/-- `strings.offset(id)` / `line_strings.offset(id)` -/
def tableOffset (offsets : List Nat) (idx : Nat) : Out Nat :=
  match offsets[idx]? with
  | some o => .ok o
  | none => .panic "index out of bounds (string table offsets)"

def Emit.ofBytes (bs : Bytes) : Emit := { bytes := bs }

/-- `AttributeValue::write` at section position `pos` -/
def attrEmit (cx : Ctx) (pos : Nat) : AttrVal → Out Emit
  | .address v => do let b ← writeUdata cx.endian v cx.enc.addrSize; pure (.ofBytes b)
  | .addressSym => .err .wInvalidAddress
  | .block bs => .ok (.ofBytes (Leb.encodeU bs.length ++ bs))
  | .data1 v => .ok (.ofBytes (toBytes cx.endian 1 v))
  | .data2 v => .ok (.ofBytes (toBytes cx.endian 2 v))
  | .data4 v => .ok (.ofBytes (toBytes cx.endian 4 v))
  | .data8 v => .ok (.ofBytes (toBytes cx.endian 8 v))
  | .data16 v => .ok (.ofBytes (toBytes cx.endian 16 v))
  | .sdata v => .ok (.ofBytes (Leb.encodeS v))
  | .implicitConst v => .ok (.ofBytes (if cx.enc.version ≥ 5 then [] else Leb.encodeS v))
  | .udata v => .ok (.ofBytes (Leb.encodeU v))
  | .exprloc items => do
    let size ← exprSize cx.enc cx.offs items
    let len := Leb.encodeU size
    let (body, fx) ← exprItemsEmit cx (pos + len.length) items
    pure { bytes := len ++ body, ifix := fx }
  | .flag b => .ok (.ofBytes [if b then 1 else 0])
  | .flagPresent => .ok (.ofBytes (if cx.enc.version ≥ 4 then [] else [1]))
  | .unitRef id => do
    let b ← writeUdata cx.endian 0 cx.enc.word
    pure { bytes := b, urefs := [(pos, id)] }
  | .debugInfoRef unit id => do
    let size := if cx.enc.version = 2 then cx.enc.addrSize else cx.enc.word
    let b ← writeUdata cx.endian 0 size
    pure { bytes := b, ifix := [{ pos := pos, size := size, unit := unit, id := id }] }
  | .debugInfoRefSym => .err .wInvalidReference
  | .debugInfoRefSup off => do let b ← writeUdata cx.endian off cx.enc.word; pure (.ofBytes b)
  | .lineProgramRef =>
    match cx.lineProgram with
    | some off => do let b ← writeUdata cx.endian off cx.enc.word; pure (.ofBytes b)
    | none => .err .wInvalidAttributeValue
  | .locationListRef off | .debugMacinfoRef off | .debugMacroRef off | .rangeListRef off
  | .debugStrRefSup off => do
    let b ← writeUdata cx.endian off cx.enc.word; pure (.ofBytes b)
  | .debugTypesRef sig => .ok (.ofBytes (toBytes cx.endian 8 sig))
  | .stringRef idx => do
    let off ← tableOffset cx.strOffsets idx
    let b ← writeUdata cx.endian off cx.enc.word; pure (.ofBytes b)
  | .lineStringRef idx => do
    let off ← tableOffset cx.lineStrOffsets idx
    let b ← writeUdata cx.endian off cx.enc.word; pure (.ofBytes b)
  | .string bs =>
    -- the string is null terminated, so it can't contain a null (checked before anything is written)
    if bs.contains 0 then .err .wInvalidAttributeValue else .ok (.ofBytes (bs ++ [0]))
  | .constClass v => .ok (.ofBytes (Leb.encodeU v))
  | .fileIndex raw => .ok (.ofBytes (Leb.encodeU (raw.getD 0)))

/-! ## abbreviations (`src/write/abbrev.rs`) -/

/-- `Abbreviation`; an attribute specification is (name, form, implicit-const value) -/
structure Abbrev where
  tag : Nat
  hasChildren : Bool
  attrs : List (Nat × Nat × Int)
  deriving DecidableEq, Repr

/-- position of the first element equal to `a` -/
def findIdx (a : Abbrev) : List Abbrev → Option Nat
  | [] => none
  | b :: rest => if b = a then some 0 else (findIdx a rest).map (· + 1)

/-- `AbbreviationTable::add` (`IndexSet::insert_full` then `+ 1`) -/
def abbrevAdd (tab : List Abbrev) (a : Abbrev) : Nat × List Abbrev :=
  match findIdx a tab with
  | some i => (i + 1, tab)
  | none => (tab.length + 1, tab ++ [a])

/-- `AttributeSpecification::write` -/
def specWrite : Nat × Nat × Int → Bytes
  | (name, form, ic) =>
    Leb.encodeU name ++ Leb.encodeU form ++
      (if form = DW_FORM_implicit_const then Leb.encodeS ic else [])

def specsWrite : List (Nat × Nat × Int) → Bytes
  | [] => []
  | s :: rest => specWrite s ++ specsWrite rest

/-- `Abbreviation::write` -/
def abbrevWrite (a : Abbrev) : Bytes :=
  Leb.encodeU a.tag ++ [if a.hasChildren then 1 else 0] ++ specsWrite a.attrs ++ [0, 0]

/-- the loop of `AbbreviationTable::write`, `code` = `enumerate()` index -/
def abbrevsWriteFrom : Nat → List Abbrev → Bytes
  | _, [] => []
  | code, a :: rest => Leb.encodeU (code + 1) ++ abbrevWrite a ++ abbrevsWriteFrom (code + 1) rest

/-- `AbbreviationTable::write` -/
def abbrevTableWrite (tab : List Abbrev) : Bytes := abbrevsWriteFrom 0 tab ++ [0]

/-! ## string tables (`src/write/str.rs`) -/

/-- `StringTable`: the distinct strings in first-insertion order (`offsets`/`len` are functions
of that list, see `strOffsetsFrom`) -/
abbrev StrTab := List Bytes

def strFind (s : Bytes) : List Bytes → Option Nat
  | [] => none
  | b :: rest => if b = s then some 0 else (strFind s rest).map (· + 1)

/-- `StringTable::add`: the id's index and the new table -/
def strAdd (tab : StrTab) (s : Bytes) : Nat × StrTab :=
  match strFind s tab with
  | some i => (i, tab)
  | none => (tab.length, tab ++ [s])

/-- `StringTable.offsets` (each insertion pushed the running `len`) -/
def strOffsetsFrom : Nat → StrTab → List Nat
  | _, [] => []
  | len, s :: rest => len :: strOffsetsFrom (len + s.length + 1) rest

def strOffsets (tab : StrTab) : List Nat := strOffsetsFrom 0 tab

/-- `StringTable::write` -/
def strWrite : StrTab → Bytes
  | [] => []
  | s :: rest => s ++ [0] ++ strWrite rest

/-! ## the entry tree -/

mutual
/-- a `DebuggingInformationEntry` with its children resolved -/
inductive Tree where
  | node (id tag : Nat) (sibling : Bool) (attrs : List (Nat × AttrVal)) (children : Forest)
/-- `children`, in order -/
inductive Forest where
  | nil
  | cons (t : Tree) (rest : Forest)
end

instance : Inhabited Tree := ⟨.node 0 0 false [] .nil⟩
instance : Inhabited Forest := ⟨.nil⟩

def Forest.isEmpty : Forest → Bool
  | .nil => true
  | .cons _ _ => false

def Forest.toList : Forest → List Tree
  | .nil => []
  | .cons t rest => t :: rest.toList

def Forest.ofList : List Tree → Forest
  | [] => .nil
  | t :: rest => .cons t (Forest.ofList rest)

def Tree.id : Tree → Nat | .node id _ _ _ _ => id
def Tree.tag : Tree → Nat | .node _ tag _ _ _ => tag
def Tree.children : Tree → Forest | .node _ _ _ _ ch => ch

/-- `attr.specification(encoding)` for every attribute -/
def attrSpecs (c : Enc) : List (Nat × AttrVal) → List (Nat × Nat × Int)
  | [] => []
  | (name, v) :: rest => (name, (attrForm c v).1, (attrForm c v).2) :: attrSpecs c rest

/-- `DebuggingInformationEntry::abbreviation` -/
def abbreviation (c : Enc) (tag : Nat) (sibling : Bool) (attrs : List (Nat × AttrVal))
    (hasChildren : Bool) : Abbrev :=
  let sib := sibling && hasChildren
  let sibSpec : List (Nat × Nat × Int) :=
    if sib then
      [(DW_AT_sibling, (match c.format with | .dwarf32 => DW_FORM_ref4 | .dwarf64 => DW_FORM_ref8), 0)]
    else []
  { tag := tag, hasChildren := hasChildren, attrs := sibSpec ++ attrSpecs c attrs }

/-- the attribute loop of `DebuggingInformationEntry::size` -/
def attrsSize (c : Enc) (o : Offs) : List (Nat × AttrVal) → Out Nat
  | [] => .ok 0
  | (_, v) :: rest => do
    let a ← attrSize c o v
    let r ← attrsSize c o rest
    pure (a + r)

/-- `DebuggingInformationEntry::size` -/
def entrySize (c : Enc) (o : Offs) (code : Nat) (sibling hasChildren : Bool)
    (attrs : List (Nat × AttrVal)) : Out Nat := do
  let a ← attrsSize c o attrs
  pure (Leb.sizeU code + (if sibling && hasChildren then c.word else 0) + a)

/-- the state threaded through `calculate_offsets` -/
structure P1 where
  /-- `*offset` -/
  offset : Nat
  offs : Offs
  abbrevs : List Abbrev
  codes : Nat → Option Nat

mutual
/-- `DebuggingInformationEntry::calculate_offsets` -/
def calcTree (c : Enc) (st : P1) : Tree → Out P1
  | .node id tag sibling attrs children => do
    let offs := st.offs.set id st.offset
    let added := abbrevAdd st.abbrevs (abbreviation c tag sibling attrs (!children.isEmpty))
    let codes := fun j => if j = id then some added.1 else st.codes j
    let sz ← entrySize c offs added.1 sibling (!children.isEmpty) attrs
    let st1 : P1 := { offset := st.offset + sz, offs := offs, abbrevs := added.2, codes := codes }
    match children with
    | .nil => pure st1
    | .cons t rest => do
      let st2 ← calcForest c st1 (.cons t rest)
      -- Null child
      pure { st2 with offset := st2.offset + 1 }
def calcForest (c : Enc) (st : P1) : Forest → Out P1
  | .nil => pure st
  | .cons t rest => do
    let st1 ← calcTree c st t
    calcForest c st1 rest
end

/-- the attribute loop of `DebuggingInformationEntry::write` -/
def attrsEmit (cx : Ctx) (pos : Nat) : List (Nat × AttrVal) → Out Emit
  | [] => .ok {}
  | (_, v) :: rest => do
    let a ← attrEmit cx pos v
    let r ← attrsEmit cx (pos + a.bytes.length) rest
    pure (a ++ r)

/-- `codes[self.id.index]` -/
def codeOf (cx : Ctx) (id : Nat) : Out Nat :=
  match cx.codes id with
  | some code => .ok code
  | none => .ok 0

mutual
/-- `DebuggingInformationEntry::write` at section position `pos` -/
def emitTree (cx : Ctx) (pos : Nat) : Tree → Out Emit
  | .node id _ sibling attrs children => do
    let code ← codeOf cx id
    let codeBs := Leb.encodeU code
    let hasSib := sibling && !children.isEmpty
    let sibLen := if hasSib then cx.enc.word else 0
    let a ← attrsEmit cx (pos + codeBs.length + sibLen) attrs
    let cpos := pos + codeBs.length + sibLen + a.bytes.length
    let k ← (match children with
      | .nil => pure {}
      | .cons t rest => do
        let k ← emitForest cx cpos (.cons t rest)
        -- Null child
        pure (k ++ Emit.ofBytes [0]) : Out Emit)
    -- `write_udata_at(sibling_offset, w.offset() - offsets.unit, word_size)`
    let next := cpos + k.bytes.length - cx.offs.unit
    let sibBs ← (if hasSib then writeUdata cx.endian next cx.enc.word else pure [] : Out Bytes)
    pure ({ bytes := codeBs ++ sibBs, starts := [(id, pos)] } ++ a ++ k)
def emitForest (cx : Ctx) (pos : Nat) : Forest → Out Emit
  | .nil => pure {}
  | .cons t rest => do
    let a ← emitTree cx pos t
    let r ← emitForest cx (pos + a.bytes.length) rest
    pure (a ++ r)
end

/-! ## `Unit::write` -/

/-- `Unit::reorder_base_types` on the root's children -/
def reorderBaseTypes : Tree → Tree
  | .node id tag sib attrs ch =>
    let l := ch.toList
    .node id tag sib attrs
      (Forest.ofList (l.filter (fun t => t.tag = DW_TAG_base_type) ++
        l.filter (fun t => ¬ t.tag = DW_TAG_base_type)))

/-- `DebuggingInformationEntry::set` -/
def attrSet (name : Nat) (v : AttrVal) : List (Nat × AttrVal) → List (Nat × AttrVal)
  | [] => [(name, v)]
  | (n, w) :: rest => if n = name then (n, v) :: rest else (n, w) :: attrSet name v rest

/-- the head of `Unit::write`: `DW_AT_stmt_list` is set on the root when a line program is
written and deleted otherwise -/
def prepRoot (lineProgram : Option Nat) : Tree → Tree
  | .node id tag sib attrs ch =>
    match lineProgram with
    | some _ => .node id tag sib (attrSet DW_AT_stmt_list .lineProgramRef attrs) ch
    | none => .node id tag sib (attrs.filter (fun a => ¬ a.1 = DW_AT_stmt_list)) ch

/-- `EndianVec::write_at` -/
def writeAt (buf : Bytes) (pos : Nat) (new : Bytes) : Out Bytes :=
  if pos > buf.length then .err .wOffsetOutOfBounds
  else if new.length > buf.length - pos then .err .wLengthOutOfBounds
  else .ok (buf.take pos ++ new ++ buf.drop (pos + new.length))

/-- the `unit_refs` loop at the end of `Unit::write` -/
def patchUnitRefs (e : Endian) (word : Nat) (o : Offs) (info : Bytes) : List (Nat × Nat) → Out Bytes
  | [] => .ok info
  | (pos, id) :: rest => do
    match ← o.unitOffset id with
    | some u => do
      let b ← writeUdata e u word
      let info ← writeAt info pos b
      patchUnitRefs e word o info rest
    | none => .err .wInvalidReference

/-- a `write::Unit` as `Unit::write` sees it -/
structure UnitIn where
  enc : Enc
  /-- `entries.len()` (ids below it that are not in the tree are reserved or orphaned entries) -/
  nEntries : Nat
  root : Tree
  /-- offset of the already written line program, `none` if `line_program_in_use()` is false -/
  lineProgram : Option Nat

/-- `.debug_info`, `.debug_abbrev` and the pending cross-unit fix-ups of `Sections` -/
structure Sec where
  info : Bytes := []
  abbr : Bytes := []
  ifix : List IFix := []

/-- the unit header after the initial length (`version` is a `u16`) -/
def unitHeader (e : Endian) (c : Enc) (abbrevOff : Nat) : Out Bytes :=
  if 2 ≤ c.version ∧ c.version ≤ 4 then do
    let a ← writeUdata e abbrevOff c.word
    pure (toBytes e 2 c.version ++ a ++ [UInt8.ofNat c.addrSize])
  else if c.version = 5 then do
    let a ← writeUdata e abbrevOff c.word
    pure (toBytes e 2 c.version ++ [UInt8.ofNat DW_UT_compile, UInt8.ofNat c.addrSize] ++ a)
  else .err .wUnsupportedVersion

/-- length of the initial-length field -/
def initLenSize : Format → Nat
  | .dwarf32 => 4
  | .dwarf64 => 12

/-- the root as pass 1 and pass 2 see it: `DW_AT_stmt_list` fixed up, base types first -/
def unitRoot (u : UnitIn) : Tree := reorderBaseTypes (prepRoot u.lineProgram u.root)

/-- the state `calculate_offsets` starts from: first entry at `start`, nothing assigned yet -/
def p1Init (start unitOff n : Nat) : P1 :=
  { offset := start, offs := { unit := unitOff, n := n, map := fun _ => none },
    abbrevs := [], codes := fun _ => none }

/-- what pass 2 reads: the tables pass 1 produced -/
def unitCtx (e : Endian) (strOffs lineStrOffs : List Nat) (u : UnitIn) (p1 : P1) : Ctx :=
  { endian := e, enc := u.enc, offs := p1.offs, codes := p1.codes, lineProgram := u.lineProgram,
    strOffsets := strOffs, lineStrOffsets := lineStrOffs }

/-- `Unit::write` followed by `abbrevs.write(&mut sections.debug_abbrev)`; returns the new
sections and the unit's final `UnitOffsets` -/
def writeUnit (e : Endian) (strOffs lineStrOffs : List Nat) (s : Sec) (u : UnitIn) : Out (Sec × Offs) := do
  let c := u.enc
  -- "A unit header with any other address size can't be read": the first thing `Unit::write`
  -- does, before the line program, the header or anything else is written
  if ¬ (c.addrSize = 1 ∨ c.addrSize = 2 ∨ c.addrSize = 4 ∨ c.addrSize = 8) then
    .err .wUnsupportedWordSize else
  let unitOff := s.info.length
  let hdr ← unitHeader e c s.abbr.length
  let start := unitOff + initLenSize c.format + hdr.length
  let p1 ← calcTree c (p1Init start unitOff u.nEntries) (unitRoot u)
  let em ← emitTree (unitCtx e strOffs lineStrOffs u p1) start (unitRoot u)
  let lenField ← writeInitialLength e c.format (hdr.length + em.bytes.length)
  let info := s.info ++ lenField ++ hdr ++ em.bytes
  let info ← patchUnitRefs e c.word p1.offs info em.urefs
  pure ({ info := info, abbr := s.abbr ++ abbrevTableWrite p1.abbrevs, ifix := s.ifix ++ em.ifix },
        p1.offs)

/-- the unit loop of `UnitTable::write` -/
def writeUnits (e : Endian) (strOffs lineStrOffs : List Nat) : Sec → List UnitIn → Out (Sec × List Offs)
  | s, [] => .ok (s, [])
  | s, u :: rest => do
    let (s1, o) ← writeUnit e strOffs lineStrOffs s u
    let (s2, os) ← writeUnits e strOffs lineStrOffs s1 rest
    pure (s2, o :: os)

/-- `UnitTable::write_debug_info_fixups` -/
def applyFixups (e : Endian) (units : List Offs) (info : Bytes) : List IFix → Out Bytes
  | [] => .ok info
  | f :: rest =>
    match units[f.unit]? with
    | none => .panic "index out of bounds (UnitTable.units)"
    | some o => do
      match ← o.debugInfoOffset f.id with
      | some off => do
        let b ← writeUdata e off f.size
        let info ← writeAt info f.pos b
        applyFixups e units info rest
      | none => .err .wInvalidReference

/-- `Dwarf::write` restricted to `.debug_info`, `.debug_abbrev`, `.debug_str`,
`.debug_line_str` (no separate line programs) -/
def writeDwarf (e : Endian) (strs lineStrs : StrTab) (units : List UnitIn) :
    Out (Bytes × Bytes × Bytes × Bytes) := do
  let (s, offs) ← writeUnits e (strOffsets strs) (strOffsets lineStrs) {} units
  let info ← applyFixups e offs s.info s.ifix
  pure (info, s.abbr, strWrite strs, strWrite lineStrs)

end Gimli.WUnit
