import Gimli.Model.Reuse
import Gimli.Model.Unwind
/-!
# The unwind machine (C06's Model) as the `Evaluator` of the reuse Model (C20)

`UnwindTable::new(section, bases, ctx, fde)` runs `ctx.initialize`, which starts with
`ctx.reset()`, on whatever context the caller hands in. `Model/Unwind.lean` (`unwind`) describes the
run on a context created for the purpose; `unwindOn` is the same pipeline started on a context
that has just been reset in place, seen through its public observations — the unused storage
slots of `ArrayVec` (`Reuse.AVec.stale`) are not an input of the machine.
-/
namespace Gimli.ReuseUnwind
open Gimli Gimli.Unwind

abbrev IRule := Cfi.Reg × Rule

/-- one `fde.rows(…)` request -/
structure FdeIn where
  cfg : Cfg
  cie : List Cfi.Instr
  cieTail : Out Unit
  fde : List Cfi.Instr
  fdeTail : Out Unit
  initial : Nat
  len : Nat

/-- C06's context from the observations of a reusable context (`Unwind.Ctx.stack` is top first,
`AVec.observe` is first-to-last) -/
def ofObs (o : List Row × Option (Option IRule) × Bool) : Unwind.Ctx :=
  { stack := o.1.reverse, initialRule := o.2.1, isInitialized := o.2.2 }

/-- `unwind` after its `reset`: the CIE's initial instructions, `save_initial_rules`, the FDE's
table -/
def unwindOn (x : FdeIn) (c0 : Unwind.Ctx) : Run Unit :=
  Run.bind (do
    let c1 ← (runTable x.cfg 0 0 x.cie x.cieTail c0).2
    saveInitialRules x.cfg.R c1) fun c2 =>
  Run.bind (fdeEndAddress x.cfg x.initial x.len) fun lastEnd =>
  let r := runTable x.cfg x.initial lastEnd x.fde x.fdeTail c2
  (r.1, r.2.map (fun _ => ()))

/-- the machine as an `Evaluator`: it reads the context through `observe` only; the context it
leaves behind keeps everything that was ever stored (as unused slots) -/
def evaluator : Reuse.Evaluator Row IRule FdeIn (Run Unit) where
  dflt := {}
  core c x := (unwindOn x (ofObs c.observe),
    { stack := ⟨[], c.stack.live ++ c.stack.stale⟩, initialRule := c.initialRule, isInitialized := true })
  respects := by intro c c' f h; simp [h]

end Gimli.ReuseUnwind
