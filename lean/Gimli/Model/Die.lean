import Gimli.Model.Abbrev
/-!
# Model of DIE navigation in `src/read/unit.rs`

`parse_unit_header` (DWARF 2–5, every unit type, 32/64-bit), `UnitHeader::{header_size,
is_in_bounds, range_from, entry}`, `EntriesRaw::{new, read_abbreviation, read_entry, next_offset,
seek_forward}`, `EntriesCursor::{next_entry, next_dfs, next_sibling}`, `EntriesTree::{root, next}`
with the `EntriesTreeNode/EntriesTreeIter` recursion, `DebuggingInformationEntry::sibling`.

* A reader is the list of bytes that remain; offsets are recovered as in the Rust code from
  `end_offset - input.len()`.
* Mutable structs become values that the step functions return (`Raw`, `Cursor`, `Tree`).
  When a step fails, the Rust code empties the reader and nulls the current entry; the
  traversals below stop at the first error, so that state is never observed.
* The documented way of using each API ("call until it says there is nothing more") is the
  `…All` function next to it; these are what the theorems in `Props/C02.lean` and the driver talk
  about. They return the entries seen so far and how the traversal ended (`Trace`).
* Loops take fuel; the `…All` entry points supply enough (`Props.C02`: never exhausted).
* `isize`/`usize` arithmetic on depths and offsets cannot overflow for inputs that fit in
  memory and is plain `Int`/`Nat` arithmetic. The two `debug_assert!`s in `EntriesTree::next` and
  `EntriesTreeNode::new` are not modelled (they cannot fire when the API is used as documented:
  iterate a node's children before asking its parent for the next child).
-/
namespace Gimli.Die
open Gimli Gimli.Attr Gimli.Abbrev

/-! ## unit headers -/

/-- `SectionId` of a unit -/
inductive Sect where
  | debugInfo
  | debugTypes
  deriving DecidableEq, Repr, Inhabited

/-- `UnitType` -/
inductive UnitType where
  | compilation
  | typeUnit (signature : Nat) (typeOffset : Nat)
  | partialUnit
  | skeleton (dwoId : Nat)
  | splitCompilation (dwoId : Nat)
  | splitType (signature : Nat) (typeOffset : Nat)
  deriving DecidableEq, Repr, Inhabited

/-- `UnitHeader` -/
structure UnitHeader where
  enc : Encoding
  unitLength : Nat
  unitType : UnitType
  abbrevOffset : Nat
  sect : Sect
  unitOffset : Nat
  entriesBuf : Bytes
  deriving DecidableEq, Repr, Inhabited

/-- `Format::initial_length_size` -/
def initialLengthSize : Format → Nat
  | .dwarf32 => 4
  | .dwarf64 => 12

/-- the unit-type specific part of the header -/
def parseUnitType (e : Endian) (format : Format) (ut : Nat) (bs : Bytes) : Out (UnitType × Bytes) :=
  if ut = 0x01 then .ok (.compilation, bs)
  else if ut = 0x02 then do
    let (sig, rest) ← Ints.readFixed e 8 bs
    let (off, rest) ← Ints.readWord e 64 format rest
    pure (.typeUnit sig off, rest)
  else if ut = 0x03 then .ok (.partialUnit, bs)
  else if ut = 0x04 then do
    let (id, rest) ← Ints.readFixed e 8 bs
    pure (.skeleton id, rest)
  else if ut = 0x05 then do
    let (id, rest) ← Ints.readFixed e 8 bs
    pure (.splitCompilation id, rest)
  else if ut = 0x06 then do
    let (sig, rest) ← Ints.readFixed e 8 bs
    let (off, rest) ← Ints.readWord e 64 format rest
    pure (.splitType sig off, rest)
  else .err .rUnknownUnitType

/-- `parse_unit_header(input, section, unit_offset)`: the header and the input after the unit -/
def parseUnitHeader (e : Endian) (sect : Sect) (unitOffset : Nat) (bs : Bytes) :
    Out (UnitHeader × Bytes) := do
  let ((unitLength, format), rest) ← Ints.readInitialLength e 64 bs
  let (unit, after) ← Ints.take unitLength rest
  let (version, unit) ← Ints.readFixed e 2 unit
  let (abbrevOffset, addressSize, ut, unit) ←
    (if 2 ≤ version ∧ version ≤ 4 then do
      let (ao, unit) ← Ints.readWord e 64 format unit
      let (asz, unit) ← Ints.readAddressSize unit
      pure (ao, asz, (match sect with | .debugTypes => 0x02 | .debugInfo => 0x01), unit)
    else if version = 5 then do
      let (ut, unit) ← Ints.readFixed e 1 unit
      let (asz, unit) ← Ints.readAddressSize unit
      let (ao, unit) ← Ints.readWord e 64 format unit
      pure (ao, asz, ut, unit)
    else .err .rUnknownVersion : Out (Nat × Nat × Nat × Bytes))
  let (unitType, unit) ← parseUnitType e format ut unit
  pure ({ enc := { endian := e, addressSize := addressSize, format := format, version := version },
          unitLength := unitLength, unitType := unitType, abbrevOffset := abbrevOffset,
          sect := sect, unitOffset := unitOffset, entriesBuf := unit }, after)

/-- `UnitHeader::length_including_self` -/
def UnitHeader.lengthIncludingSelf (h : UnitHeader) : Nat :=
  initialLengthSize h.enc.format + h.unitLength

/-- `UnitHeader::header_size` -/
def UnitHeader.headerSize (h : UnitHeader) : Nat :=
  h.lengthIncludingSelf - h.entriesBuf.length

/-- `UnitHeader::size_of_header` (recomputed from the fields, not from the buffer) -/
def UnitHeader.sizeOfHeader (h : UnitHeader) : Nat :=
  initialLengthSize h.enc.format + 2 + h.enc.format.wordSize + 1
    + (if h.enc.version = 5 then 1 else 0)
    + (match h.unitType with
       | .compilation | .partialUnit => 0
       | .typeUnit _ _ | .splitType _ _ => 8 + h.enc.format.wordSize
       | .skeleton _ | .splitCompilation _ => 8)

/-- `UnitHeader::is_in_bounds` -/
def UnitHeader.isInBounds (h : UnitHeader) (offset : Nat) : Bool :=
  if offset < h.headerSize then false
  else offset - h.headerSize < h.entriesBuf.length

/-- `UnitHeader::range_from(offset..)` -/
def UnitHeader.rangeFrom (h : UnitHeader) (offset : Nat) : Out Bytes :=
  if !h.isInBounds offset then .err .rOffsetOutOfBounds
  else skipN (offset - h.headerSize) h.entriesBuf

/-- the `DebugInfoUnitHeadersIter` / `DebugTypesUnitHeadersIter` loop: all headers of a section,
and how the iteration ended -/
def unitHeaders (e : Endian) (sect : Sect) : Nat → Nat → Bytes → List UnitHeader × Out Unit
  | 0, _, _ => ([], .diverge)
  | fuel + 1, offset, bs =>
    if bs.isEmpty then ([], .ok ())
    else
      match parseUnitHeader e sect offset bs with
      | .ok (h, after) =>
        let r := unitHeaders e sect fuel (offset + (bs.length - after.length)) after
        (h :: r.1, r.2)
      | .err err => ([], .err err)
      | .panic w => ([], .panic w)
      | .diverge => ([], .diverge)

/-! ## raw entry reading -/

/-- what stays fixed during a traversal: the unit's encoding and its abbreviations -/
structure Ctx where
  enc : Encoding
  abbrevs : Abbreviations
  deriving Repr, Inhabited

/-- `EntriesRaw` (without the immutable parts) -/
structure Raw where
  input : Bytes
  endOffset : Nat
  depth : Int
  deriving DecidableEq, Repr, Inhabited

/-- `EntriesRaw::new(input, …, offset)` -/
def Raw.new (input : Bytes) (offset : Nat) : Raw :=
  { input := input, endOffset := offset + input.length, depth := 0 }

/-- `EntriesRaw::next_offset` -/
def Raw.nextOffset (r : Raw) : Nat := r.endOffset - r.input.length

/-- `DebuggingInformationEntry`: attributes are kept with their specification -/
structure Entry where
  offset : Nat
  depth : Int
  tag : Nat
  hasChildren : Bool
  attrs : List (Spec × Value)
  deriving DecidableEq, Repr, Inhabited

/-- `DebuggingInformationEntry::null()` -/
def Entry.null : Entry := { offset := 0, depth := 0, tag := 0, hasChildren := false, attrs := [] }

/-- `is_null`: the tag is `DW_TAG_null` -/
def Entry.isNull (e : Entry) : Bool := e.tag = 0

/-- `DebuggingInformationEntry::sibling`: the first `DW_AT_sibling` attribute, normalised, if it
is a `UnitRef` that points forward -/
def Entry.sibling (e : Entry) : Option Nat :=
  match e.attrs.find? (fun a => a.1.name = 0x01) with
  | none => none
  | some (s, v) =>
    let nv := normalise s.name v
    match nv.kind, nv.payload with
    | .unitRef, .num off => if off > e.offset then some off else none
    | _, _ => none

/-- `EntriesRaw::read_abbreviation` -/
def Raw.readAbbreviation (ctx : Ctx) (r : Raw) : Out (Option Abbreviation × Raw) := do
  let (code, rest) ← Leb.unsigned r.input
  if code = 0 then pure (none, { r with input := rest, depth := r.depth - 1 })
  else
    match ctx.abbrevs.get code with
    | none => .err .rInvalidAbbreviationCode
    | some a =>
      pure (some a, { r with input := rest, depth := if a.hasChildren then r.depth + 1 else r.depth })

/-- `EntriesRaw::read_entry`: a null entry has tag 0, no children flag, no attributes, and the
offset/depth at which it was read -/
def Raw.readEntry (ctx : Ctx) (r : Raw) : Out (Entry × Raw) := do
  let depth := r.depth
  let offset := r.nextOffset
  let (a, r1) ← r.readAbbreviation ctx
  match a with
  | none => pure ({ offset := offset, depth := depth, tag := 0, hasChildren := false, attrs := [] }, r1)
  | some a => do
    let (vs, rest) ← readAttributes ctx.enc a.attrs r1.input
    pure ({ offset := offset, depth := depth, tag := a.tag, hasChildren := a.hasChildren,
            attrs := a.attrs.zip vs }, { r1 with input := rest })

/-- the other documented way of using `EntriesRaw`: `read_abbreviation` + `skip_attributes` -/
def Raw.skipEntry (ctx : Ctx) (r : Raw) : Out (Entry × Raw) := do
  let depth := r.depth
  let offset := r.nextOffset
  let (a, r1) ← r.readAbbreviation ctx
  match a with
  | none => pure ({ offset := offset, depth := depth, tag := 0, hasChildren := false, attrs := [] }, r1)
  | some a => do
    let rest ← skipAttributes ctx.enc a.attrs r1.input
    pure ({ offset := offset, depth := depth, tag := a.tag, hasChildren := a.hasChildren, attrs := [] },
          { r1 with input := rest })

/-- `EntriesRaw::seek_forward(offset, depth)`: ignored (state unchanged) when the offset lies
behind the reader or beyond the input -/
def Raw.seekForward (r : Raw) (offset : Nat) (depth : Int) : Raw :=
  if offset < r.nextOffset then r
  else
    let skipLen := offset - r.nextOffset
    if skipLen ≤ r.input.length then { r with input := r.input.drop skipLen, depth := depth } else r

/-- entries seen so far, and how the traversal ended (`ok ()` = ran to its normal end) -/
abbrev Trace := List Entry × Out Unit

def Trace.cons (e : Entry) (t : Trace) : Trace := (e :: t.1, t.2)

def Trace.fail {α} (o : Out α) : Trace :=
  match o with
  | .ok _ => ([], .ok ())
  | .err e => ([], .err e)
  | .panic w => ([], .panic w)
  | .diverge => ([], .diverge)

/-- `while !entries.is_empty() { entries.read_entry(&mut entry)? }` -/
def rawAll (ctx : Ctx) : Nat → Raw → Trace
  | 0, _ => ([], .diverge)
  | fuel + 1, r =>
    if r.input.isEmpty then ([], .ok ())
    else
      match r.readEntry ctx with
      | .ok (e, r') => (rawAll ctx fuel r').cons e
      | o => Trace.fail o

/-- the same with `read_abbreviation` + `skip_attributes` -/
def rawSkipAll (ctx : Ctx) : Nat → Raw → Trace
  | 0, _ => ([], .diverge)
  | fuel + 1, r =>
    if r.input.isEmpty then ([], .ok ())
    else
      match r.skipEntry ctx with
      | .ok (e, r') => (rawSkipAll ctx fuel r').cons e
      | o => Trace.fail o

/-! ## the cursor -/

/-- `EntriesCursor` -/
structure Cursor where
  raw : Raw
  cur : Entry
  deriving DecidableEq, Repr, Inhabited

/-- `EntriesCursor::new` -/
def Cursor.new (input : Bytes) (offset : Nat) : Cursor :=
  { raw := Raw.new input offset, cur := Entry.null }

/-- `cached_current.set_null()`: offset and depth stay -/
def Entry.setNull (e : Entry) : Entry := { e with tag := 0, hasChildren := false, attrs := [] }

/-- `EntriesCursor::current` -/
def Cursor.current (c : Cursor) : Option Entry := if c.cur.isNull then none else some c.cur

/-- `EntriesCursor::next_entry`: `false` at the end of input -/
def Cursor.nextEntry (ctx : Ctx) (c : Cursor) : Out (Bool × Cursor) :=
  if c.raw.input.isEmpty then .ok (false, { c with cur := c.cur.setNull })
  else do
    let (e, r) ← c.raw.readEntry ctx
    pure (true, { raw := r, cur := e })

/-- `EntriesCursor::next_dfs`: skips null entries -/
def Cursor.nextDfs (ctx : Ctx) : Nat → Cursor → Out (Option Entry × Cursor)
  | 0, _ => .diverge
  | fuel + 1, c => do
    let (more, c) ← c.nextEntry ctx
    if more then
      if !c.cur.isNull then pure (some c.cur, c) else Cursor.nextDfs ctx fuel c
    else pure (none, c)

/-- the `loop` of `EntriesCursor::next_sibling` -/
def Cursor.siblingLoop (ctx : Ctx) (currentDepth : Int) : Nat → Cursor → Out (Option Entry × Cursor)
  | 0, _ => .diverge
  | fuel + 1, c => do
    let c :=
      match c.current with
      | some cur =>
        if cur.hasChildren then
          match cur.sibling with
          | some off => { c with raw := c.raw.seekForward off cur.depth }
          | none => c
        else c
      | none => c
    let (more, c) ← c.nextEntry ctx
    if !more then pure (none, c)
    else if c.cur.depth = currentDepth then pure (c.current, c)
    else Cursor.siblingLoop ctx currentDepth fuel c

/-- `EntriesCursor::next_sibling` -/
def Cursor.nextSibling (ctx : Ctx) (c : Cursor) : Out (Option Entry × Cursor) :=
  match c.current with
  | none => .ok (none, c)
  | some _ => Cursor.siblingLoop ctx c.cur.depth (c.raw.input.length + 1) c

/-- `while cursor.next_entry()? { … cursor.current/offset/depth … }` -/
def entryAll (ctx : Ctx) : Nat → Cursor → Trace
  | 0, _ => ([], .diverge)
  | fuel + 1, c =>
    match c.nextEntry ctx with
    | .ok (true, c') => (entryAll ctx fuel c').cons c'.cur
    | .ok (false, _) => ([], .ok ())
    | o => Trace.fail o

/-- `while let Some(entry) = cursor.next_dfs()? { … }` -/
def dfsAll (ctx : Ctx) : Nat → Cursor → Trace
  | 0, _ => ([], .diverge)
  | fuel + 1, c =>
    match Cursor.nextDfs ctx (c.raw.input.length + 1) c with
    | .ok (some e, c') => (dfsAll ctx fuel c').cons e
    | .ok (none, _) => ([], .ok ())
    | o => Trace.fail o

/-- the recursive walk that uses only `next_entry` (to step into a child list) and
`next_sibling` (to iterate it), as in the documentation of `next_sibling`:
```text
walk(cursor):                       // cursor is on the first entry of a sibling list
  while let Some(cur) = cursor.current() {
      visit(cur);
      if cur.has_children() { let mut c = cursor.clone(); c.next_entry()?; walk(c)?; }
      cursor.next_sibling()?;
  }
```
`fuel` bounds the total number of steps. Returns the entries in visiting order. -/
def siblingWalk (ctx : Ctx) : Nat → Cursor → Trace
  | 0, _ => ([], .diverge)
  | fuel + 1, c =>
    match c.current with
    | none => ([], .ok ())
    | some cur =>
      let kids : Trace :=
        if cur.hasChildren then
          match c.nextEntry ctx with
          | .ok (_, c') => siblingWalk ctx fuel c'
          | o => Trace.fail o
        else ([], .ok ())
      match kids.2 with
      | .ok () =>
        match c.nextSibling ctx with
        | .ok (_, c') =>
          let rest := siblingWalk ctx fuel c'
          (cur :: (kids.1 ++ rest.1), rest.2)
        | o => (cur :: (kids.1 ++ (Trace.fail o).1), (Trace.fail o).2)
      | bad => (cur :: kids.1, bad)

/-- the whole unit by sibling stepping: `next_entry` onto the first entry, then `siblingWalk` -/
def siblingAll (ctx : Ctx) (fuel : Nat) (c : Cursor) : Trace :=
  match c.nextEntry ctx with
  | .ok (_, c') => siblingWalk ctx fuel c'
  | o => Trace.fail o

/-! ## the tree -/

/-- `EntriesTree` -/
structure Tree where
  root : Bytes
  raw : Raw
  entry : Entry
  deriving DecidableEq, Repr, Inhabited

/-- `EntriesTree::new(root, …, offset)` -/
def Tree.new (root : Bytes) (offset : Nat) : Tree :=
  { root := root, raw := Raw.new root offset, entry := Entry.null }

/-- `EntriesTree::root`: the tree positioned on the root entry (its node has depth 1) -/
def Tree.rootNode (ctx : Ctx) (t : Tree) : Out Tree := do
  let raw := { t.raw with input := t.root, depth := 0 }
  let (e, r) ← raw.readEntry ctx
  if e.isNull then .err .rNoEntryAtGivenOffset
  else pure { t with raw := r, entry := e }

/-- the `loop` of `EntriesTree::next` -/
def Tree.nextLoop (ctx : Ctx) (depth : Int) : Nat → Tree → Out (Bool × Tree)
  | 0, _ => .diverge
  | fuel + 1, t =>
    let raw :=
      if t.entry.hasChildren then
        match t.entry.sibling with
        | some off => t.raw.seekForward off t.entry.depth
        | none => t.raw
      else t.raw
    if raw.input.isEmpty then .ok (false, { t with raw := raw, entry := t.entry.setNull })
    else do
      let (e, r) ← raw.readEntry ctx
      let t := { t with raw := r, entry := e }
      if e.depth = depth then pure (!e.isNull, t) else Tree.nextLoop ctx depth fuel t

/-- `EntriesTree::next(depth)`: move to the next entry at `depth`; `false` if there is none -/
def Tree.next (ctx : Ctx) (t : Tree) (depth : Int) : Out (Bool × Tree) :=
  if t.entry.depth < depth then
    if !t.entry.hasChildren then .ok (false, t)
    else if t.raw.input.isEmpty then .ok (false, { t with entry := t.entry.setNull })
    else do
      let (e, r) ← t.raw.readEntry ctx
      pure (!e.isNull, { t with raw := r, entry := e })
  else Tree.nextLoop ctx depth (t.raw.input.length + 1) t

/-- the documented recursion over `EntriesTreeNode::children()`:
```text
process(node):  visit(node.entry()); let mut it = node.children();
                while let Some(child) = it.next()? { process(child)? }
```
`treeChildren ctx fuel t depth` is the `while` loop of an iterator of depth `depth`;
a child node has depth `depth + 1`. -/
def treeChildren (ctx : Ctx) : Nat → Tree → Int → Trace × Tree
  | 0, t, _ => (([], .diverge), t)
  | fuel + 1, t, depth =>
    match t.next ctx depth with
    | .ok (true, t') =>
      -- process(child): visit, then its children, then go on with this iterator
      let sub := treeChildren ctx fuel t' (depth + 1)
      match sub.1.2 with
      | .ok () =>
        let rest := treeChildren ctx fuel sub.2 depth
        ((t'.entry :: (sub.1.1 ++ rest.1.1), rest.1.2), rest.2)
      | bad => ((t'.entry :: sub.1.1, bad), sub.2)
    | .ok (false, t') => (([], .ok ()), t')
    | o => (Trace.fail o, t)

/-- `tree.root()?` then the recursion: the root entry and all its descendants, in pre-order -/
def treeAll (ctx : Ctx) (fuel : Nat) (t : Tree) : Trace :=
  match t.rootNode ctx with
  | .ok t' => (treeChildren ctx fuel t' 1).1.cons t'.entry
  | o => Trace.fail o

/-- a caller that does not iterate every child list to its end (so that `EntriesTree::next` has
to pass over what was left, through the `DW_AT_sibling` fast path where there is one). The rule
is fixed by the entry's offset: `offset % 3 = 0` — iterate all children; `1` — do not look at
the children; `2` — process the first child only and drop the iterator.
`all = false` is the "first child only" loop. -/
def treeSkip (ctx : Ctx) : Nat → Tree → Int → Bool → Trace × Tree
  | 0, t, _, _ => (([], .diverge), t)
  | fuel + 1, t, depth, all =>
    match t.next ctx depth with
    | .ok (true, t') =>
      let sub : Trace × Tree :=
        if t'.entry.offset % 3 = 0 then treeSkip ctx fuel t' (depth + 1) true
        else if t'.entry.offset % 3 = 1 then (([], .ok ()), t')
        else treeSkip ctx fuel t' (depth + 1) false
      match sub.1.2 with
      | .ok () =>
        if all then
          let rest := treeSkip ctx fuel sub.2 depth true
          ((t'.entry :: (sub.1.1 ++ rest.1.1), rest.1.2), rest.2)
        else ((t'.entry :: sub.1.1, .ok ()), sub.2)
      | bad => ((t'.entry :: sub.1.1, bad), sub.2)
    | .ok (false, t') => (([], .ok ()), t')
    | o => (Trace.fail o, t)

/-- `tree.root()?` then `treeSkip` under the root's own rule -/
def treeSkipAll (ctx : Ctx) (fuel : Nat) (t : Tree) : Trace :=
  match t.rootNode ctx with
  | .ok t' =>
    if t'.entry.offset % 3 = 0 then (treeSkip ctx fuel t' 1 true).1.cons t'.entry
    else if t'.entry.offset % 3 = 1 then ([t'.entry], .ok ())
    else (treeSkip ctx fuel t' 1 false).1.cons t'.entry
  | o => Trace.fail o

/-! ## positioned reads -/

/-- `UnitHeader::entries_raw(abbrevs, Some(offset))` -/
def UnitHeader.entriesRaw (h : UnitHeader) (offset : Nat) : Out Raw := do
  let input ← h.rangeFrom offset
  pure (Raw.new input offset)

/-- `UnitHeader::entry(abbrevs, offset)` -/
def UnitHeader.entry (h : UnitHeader) (ctx : Ctx) (offset : Nat) : Out Entry := do
  let r ← h.entriesRaw offset
  let (e, _) ← r.readEntry ctx
  if e.isNull then .err .rNoEntryAtGivenOffset else pure e

/-- `UnitHeader::entries_at_offset(abbrevs, offset)` -/
def UnitHeader.entriesAt (h : UnitHeader) (offset : Nat) : Out Cursor := do
  let input ← h.rangeFrom offset
  pure (Cursor.new input offset)

/-- `UnitHeader::entries_tree(abbrevs, Some(offset))` -/
def UnitHeader.entriesTree (h : UnitHeader) (offset : Nat) : Out Tree := do
  let input ← h.rangeFrom offset
  pure (Tree.new input offset)

/-- `UnitHeader::root_offset` -/
def UnitHeader.rootOffset (h : UnitHeader) : Nat := h.headerSize

/-- `UnitHeader::entries(abbrevs)` -/
def UnitHeader.entries (h : UnitHeader) : Cursor := Cursor.new h.entriesBuf h.rootOffset

end Gimli.Die
