import Gimli.Model.Attr
import Gimli.Model.WUnit
/-!
# Model of the read → write conversion of units: `src/write/unit.rs` `mod convert`
(`ConvertUnitSection::{new,reserve_unit,read_unit}`, `read_entry_offsets`,
`ConvertUnit::{read_entry,add_entry,convert,convert_attributes,convert_attribute_value,
convert_file_index,convert_unit_ref,convert_debug_info_ref}`, `ConvertUnitEntry::filter_attributes`)
and `Dwarf::from` (`src/write/dwarf.rs`).

Input side: what `gimli::read` delivers (the reader Models of C02/C03): per unit the stream of
non-null entries in `.debug_info` order, each with its section offset, depth, tag, children flag
and attributes (`Attr.Value`, raw and normalised by `Attr.normalise`).  Output side: the calls on
`write::Unit` (`add_reserved(id, parent, tag)`, `set_sibling`, `set(name, value)`), i.e. the
input of the unit writer Model (`WUnit.AttrVal`).

What the code does, mirrored step by step:

* `ConvertUnitSection::new`: every unit is parsed once (`read_entry_offsets`) and an id is
  `reserve`d for every non-null entry after the root, in section order: the root is id 0
  (`Unit::new` creates it, **with tag `DW_TAG_compile_unit`, whatever the input says**), the k-th
  entry after it is id k.  `entry_ids` maps *section offsets* to (unit, id) for all units — that
  is what makes forward and cross-unit references convertible.
* `read_entry`: null entries are skipped; the parent is found with a stack of (depth, id) of
  entries that have the children flag; an entry for which no stack element has a smaller depth
  gets the root as parent (`entry.parent.unwrap_or(self.unit.root())`).
* `filter_attributes`: `DW_AT_sibling` becomes the sibling flag; the DWARF metadata attributes
  (`SKIPPED`) are dropped.  `convert_attributes` drops `DW_AT_GNU_locviews`.
* `convert_attribute_value`: `DW_FORM_implicit_const` first (raw value), otherwise a `match` on
  `attr.value()`.

Conversions owned by other parts of the crate are parameters of `Ctx`: expressions
(`Expression::from`), range and location lists, the line program with its file table, and the
section lookups of the reader (`.debug_str`, `.debug_line_str`, `.debug_str_offsets`,
`.debug_addr`).
-/
namespace Gimli.ConvUnit
open Gimli Gimli.Attr Gimli.WUnit

/-- `write::ConvertError` as far as this part of the conversion produces it -/
inductive CErr where
  /-- `ConvertError::Read(_)`, from a reader lookup (name of the read error) -/
  | read (e : String)
  | invalidAttributeValue
  | invalidAddress
  | invalidFileIndex
  | invalidLineRef
  | invalidUnitRef
  | invalidDebugInfoRef
  /-- an error of one of the sub-conversions that are parameters here (expression, list) -/
  | sub (e : String)
  /-- a `Value` whose payload does not fit its kind: `parse_attribute` never produces one -/
  | malformedValue
  deriving DecidableEq, Repr

def CErr.name : CErr → String
  | .read e => e
  | .invalidAttributeValue => "InvalidAttributeValue"
  | .invalidAddress => "InvalidAddress"
  | .invalidFileIndex => "InvalidFileIndex"
  | .invalidLineRef => "InvalidLineRef"
  | .invalidUnitRef => "InvalidUnitRef"
  | .invalidDebugInfoRef => "InvalidDebugInfoRef"
  | .sub e => e
  | .malformedValue => "MalformedValue"

abbrev Res := Except CErr

/-! ## constants -/
def DW_TAG_compile_unit : Nat := 0x11
def DW_AT_GNU_locviews : Nat := 0x2137
def DW_AT_vtable_elem_location : Nat := 0x4d
def DW_OP_constu : Nat := 0x10

/-- the attribute names `filter_attributes` drops (DWARF metadata; `DW_AT_sibling` is turned
into the sibling flag) -/
def SKIPPED : List Nat :=
  [0x01,    -- DW_AT_sibling
   0x72,    -- DW_AT_str_offsets_base
   0x73,    -- DW_AT_addr_base
   0x74,    -- DW_AT_rnglists_base
   0x8c,    -- DW_AT_loclists_base
   0x76,    -- DW_AT_dwo_name
   0x2133,  -- DW_AT_GNU_addr_base
   0x2132,  -- DW_AT_GNU_ranges_base
   0x2130,  -- DW_AT_GNU_dwo_name
   0x2131]  -- DW_AT_GNU_dwo_id

/-- a `read::Attribute` -/
structure RAttr where
  name : Nat
  /-- `attr.form()` (after `DW_FORM_indirect`) -/
  form : Form
  /-- `attr.raw_value()` -/
  raw : Value

/-- a non-null entry as `EntriesRaw::read_entry` delivers it -/
structure RItem where
  /-- section offset (`UnitSectionOffset`), the key of `entry_ids` -/
  off : Nat
  depth : Int
  tag : Nat
  children : Bool
  attrs : List RAttr

/-- what the conversion of one unit can look up -/
structure Ctx where
  /-- DWARF version of the unit being read -/
  version : Nat
  /-- `convert_address` (for `Address::Constant`) -/
  convAddr : Nat → Option Nat
  /-- `read_unit.address(index)` (`.debug_addr` through `DW_AT_addr_base`) -/
  addrAt : Nat → Res Nat
  /-- `read_unit.string(offset)` -/
  strAt : Nat → Res Bytes
  /-- `read_unit.line_string(offset)` -/
  lineStrAt : Nat → Res Bytes
  /-- `read_unit.string_offset(index)` (`.debug_str_offsets` through `DW_AT_str_offsets_base`) -/
  strOffsetAt : Nat → Res Nat
  /-- `StringTable::add` / `LineStringTable::add` of the output `Dwarf` (id of the string) -/
  strId : Bytes → Nat
  lineStrId : Bytes → Nat
  /-- offset of the header of the unit's line program, if it has one -/
  lineProgram : Option Nat
  /-- `line_program_files.get(index)`: the new `FileId` (its index) -/
  fileId : Nat → Option Nat
  /-- `Expression::from` -/
  convExpr : Bytes → Res (List ExprItem)
  /-- `read_unit.locations_offset(index)`, `convert_location_list` + `locations.add` -/
  locOffsetAt : Nat → Res Nat
  convLocList : Nat → Res Nat
  /-- `ranges_offset_from_raw`, `read_unit.ranges_offset(index)`, `convert_range_list` + `ranges.add` -/
  rngOffsetFromRaw : Nat → Nat
  rngOffsetAt : Nat → Res Nat
  convRngList : Nat → Res Nat
  /-- `convert_unit_ref`: bounds check and `entry_ids` lookup, from a *unit* offset -/
  unitRef : Nat → Option Nat
  /-- `convert_debug_info_ref`: `entry_ids` lookup from a section offset: (unit index, id) -/
  infoRef : Nat → Option (Nat × Nat)

/-- `FileId::raw(version)` -/
def fileRaw (version id : Nat) : Nat := if version ≤ 4 then id + 1 else id

/-- `convert_file_index` -/
def convertFileIndex (cx : Ctx) (index : Nat) : Res (Option Nat) :=
  if index = 0 ∧ cx.version ≤ 4 then .ok none
  else match cx.fileId index with
    | some id => .ok (some (fileRaw cx.version id))
    | none => .error .invalidFileIndex

/-- `ConvertUnit::convert_attribute_value`, `DW_AT_vtable_elem_location`: the expression is copied
verbatim (`Expression::raw`) exactly when it is one `DW_OP_constu` operation and nothing else — the
vtable index shape that gdb matches, which `Expression::from` would re-encode as `DW_OP_lit<n>`.
Anything else goes through `convert`, so that references inside it are converted. -/
def vtableRaw (bs : Bytes) : Bool :=
  match bs with
  | op :: rest =>
    op == 0x10 &&
      (match Leb.unsigned rest with
       | .ok (_, []) => true
       | _ => false)
  | [] => false

/-- `convert_attribute_value` -/
def convertValue (cx : Ctx) (a : RAttr) : Res AttrVal :=
  if a.form = .implicitConst then
    match a.raw.kind, a.raw.payload with
    | .sdata, .int v => .ok (.implicitConst v)
    | _, _ => .error .invalidAttributeValue
  else
    let v := normalise a.name a.raw
    match v.kind, v.payload with
    | .addr, .num x =>
      match cx.convAddr x with
      | some y => .ok (.address y)
      | none => .error .invalidAddress
    | .block, .bytes b => .ok (.block b)
    | .data1, .num x => .ok (.data1 x)
    | .data2, .num x => .ok (.data2 x)
    | .data4, .num x => .ok (.data4 x)
    | .data8, .num x => .ok (.data8 x)
    | .data16, .num x => .ok (.data16 x)
    | .sdata, .int x => .ok (.sdata x)
    | .udata, .num x => .ok (.udata x)
    | .exprloc, .bytes b =>
      if a.name = DW_AT_vtable_elem_location ∧ vtableRaw b then
        .ok (.exprloc [.raw b])
      else do
        let items ← cx.convExpr b
        pure (.exprloc items)
    | .flag, .flag b => if a.form = .flagPresent then .ok .flagPresent else .ok (.flag b)
    | .debugAddrIndex, .num i => do
      let x ← cx.addrAt i
      match cx.convAddr x with
      | some y => pure (.address y)
      | none => .error .invalidAddress
    | .unitRef, .num off =>
      match cx.unitRef off with
      | some id => .ok (.unitRef id)
      | none => .error .invalidUnitRef
    | .debugInfoRef, .num off =>
      match cx.infoRef off with
      | some (u, id) => .ok (.debugInfoRef u id)
      | none => .error .invalidDebugInfoRef
    | .debugInfoRefSup, .num x => .ok (.debugInfoRefSup x)
    | .debugLineRef, .num x =>
      if cx.lineProgram = some x then .ok .lineProgramRef else .error .invalidLineRef
    | .debugMacinfoRef, .num x => .ok (.debugMacinfoRef x)
    | .debugMacroRef, .num x => .ok (.debugMacroRef x)
    | .locationListsRef, .num off => do
      let id ← cx.convLocList off
      pure (.locationListRef id)
    | .debugLocListsIndex, .num i => do
      let off ← cx.locOffsetAt i
      let id ← cx.convLocList off
      pure (.locationListRef id)
    | .rangeListsRef, .num off => do
      let id ← cx.convRngList (cx.rngOffsetFromRaw off)
      pure (.rangeListRef id)
    | .debugRngListsIndex, .num i => do
      let off ← cx.rngOffsetAt i
      let id ← cx.convRngList off
      pure (.rangeListRef id)
    | .debugTypesRef, .num x => .ok (.debugTypesRef x)
    | .debugStrRef, .num off => do
      let s ← cx.strAt off
      pure (.stringRef (cx.strId s))
    | .debugStrRefSup, .num x => .ok (.debugStrRefSup x)
    | .debugStrOffsetsIndex, .num i => do
      let off ← cx.strOffsetAt i
      let s ← cx.strAt off
      pure (.stringRef (cx.strId s))
    | .debugLineStrRef, .num off => do
      let s ← cx.lineStrAt off
      pure (.lineStringRef (cx.lineStrId s))
    | .string, .bytes s => .ok (.string s)
    | .encoding, .num x | .decimalSign, .num x | .endianity, .num x | .accessibility, .num x
    | .visibility, .num x | .virtuality, .num x | .language, .num x | .addressClass, .num x
    | .identifierCase, .num x | .callingConvention, .num x | .inline, .num x | .ordering, .num x =>
      .ok (.constClass x)
    | .fileIndex, .num x => do
      let r ← convertFileIndex cx x
      pure (.fileIndex r)
    | .dwoId, .num x => .ok (.udata x)
    -- "Should always be a more specific section reference." / metadata attributes
    | .secOffset, _ | .debugAddrBase, _ | .debugLocListsBase, _ | .debugRngListsBase, _
    | .debugStrOffsetsBase, _ => .error .invalidAttributeValue
    | _, _ => .error .malformedValue

/-- `ConvertUnitEntry::filter_attributes`: the sibling flag and the attributes that remain -/
def filterAttrs (attrs : List RAttr) : Bool × List RAttr :=
  (attrs.any (fun a => a.name = 0x01), attrs.filter (fun a => ¬ a.name ∈ SKIPPED))

/-- `convert_attributes`: `set(name, value)` for every remaining attribute, in order; the first
error aborts the conversion -/
def convertAttrs (cx : Ctx) : List RAttr → List (Nat × AttrVal) → Res (List (Nat × AttrVal))
  | [], acc => .ok acc
  | a :: rest, acc =>
    if a.name = DW_AT_GNU_locviews then convertAttrs cx rest acc
    else do
      let v ← convertValue cx a
      convertAttrs cx rest (attrSet a.name v acc)

/-- one `add_reserved(id, parent, tag)` + `set_sibling` + `set`s -/
structure Created where
  id : Nat
  parent : Nat
  tag : Nat
  sibling : Bool
  attrs : List (Nat × AttrVal)

/-- the loop of `read_entry`: pop the stack of (depth, id) until an element with a smaller
depth is on top; that element is the parent -/
def popParents (depth : Int) : List (Int × Nat) → List (Int × Nat)
  | [] => []
  | (d, id) :: rest => if d < depth then (d, id) :: rest else popParents depth rest

/-- the `while let Some(id) = self.read_entry(&mut entry)?` loop of `ConvertUnit::convert` over
the entries after the root; `ids` is `entry_ids` restricted to this unit (section offset ↦ id) -/
def convertEntries (cx : Ctx) (ids : Nat → Option Nat) :
    List RItem → (parents : List (Int × Nat)) → Res (List Created)
  | [], _ => .ok []
  | it :: rest, parents =>
    let (sib, attrs) := filterAttrs it.attrs
    let id := ids it.off
    let parents1 := popParents it.depth parents
    let parent := match parents1 with | (_, p) :: _ => p | [] => 0
    let parents2 := match id with
      | some i => if it.children then (it.depth, i) :: parents1 else parents1
      | none => parents1
    match id with
    | none => convertEntries cx ids rest parents2   -- filtered out (not reserved): skipped
    | some i => do
      let as ← convertAttrs cx attrs []
      let more ← convertEntries cx ids rest parents2
      pure ({ id := i, parent := parent, tag := it.tag, sibling := sib, attrs := as } :: more)

/-- a converted unit: the root (always `DW_TAG_compile_unit`) and the entries added to it -/
structure OutUnit where
  /-- attributes of the root; its sibling flag is never set (`add_entry` is not called for it) -/
  rootAttrs : List (Nat × AttrVal)
  entries : List Created

/-- `ConvertUnit::convert` for one unit: the first item is the root entry (`read_unit()` fails
with `MissingUnitDie` without one) -/
def convertUnit (cx : Ctx) (ids : Nat → Option Nat) : List RItem → Res OutUnit
  | [] => .error (.read "MissingUnitDie")
  | root :: rest => do
    let attrs := (filterAttrs root.attrs).2
    let ras ← convertAttrs cx attrs []
    -- `read_entry` on the root: the stack gets (depth, root id) if the root has the children flag
    let parents := if root.children then [(root.depth, 0)] else []
    let es ← convertEntries cx ids rest parents
    pure { rootAttrs := ras, entries := es }

/-- `reserve_unit`: ids in section order, the root first -/
def reserveIds (items : List RItem) : Nat → Option Nat :=
  fun off => (items.map (·.off)).idxOf? off

end Gimli.ConvUnit
