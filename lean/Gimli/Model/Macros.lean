import Gimli.Model.Ints
import Gimli.Prim.Iter
/-!
# Model of `src/read/macros.rs` — `MacroIter::next`

State = the bytes that remain. Every sub-read leaves the state exactly as the Rust reader is left,
also when it fails (LEB128 readers consume as they go; fixed-width reads, `find` and `split` do
not consume on failure), so that the behaviour of an error-ignoring caller is modelled exactly.
-/
namespace Gimli.Macros
open Gimli

inductive Entry where
  | define (line : Nat) (text : Bytes)
  | undef (line : Nat) (name : Bytes)
  | startFile (line file : Nat)
  | endFile
  | defineStrp (line off : Nat)
  | undefStrp (line off : Nat)
  | import_ (off : Nat)
  | defineSup (line off : Nat)
  | undefSup (line off : Nat)
  | importSup (off : Nat)
  | defineStrx (line idx : Nat)
  | undefStrx (line idx : Nat)
  | vendorExt (num : Nat) (s : Bytes)
  deriving Repr, DecidableEq

/-- `read_uleb128` with the reader state left behind on failure -/
def ulebSt (bs : Bytes) : Out Nat × Bytes :=
  match Leb.unsigned bs with
  | .ok (v, r) => (.ok v, r)
  | .err .rUnexpectedEof => (.err .rUnexpectedEof, [])
  | .err e => (.err e, bs.drop 10)
  | .panic w => (.panic w, bs)
  | .diverge => (.diverge, bs)

/-- `read_null_terminated_slice`: find(0), split, skip(1); nothing consumed on failure -/
def nullTerm (bs : Bytes) : Out Bytes × Bytes :=
  match bs.idxOf? 0 with
  | some i => (.ok (bs.take i), bs.drop (i + 1))
  | none => (.err .rUnexpectedEof, bs)

/-- `read_offset(format)`; nothing consumed on failure -/
def offsetSt (e : Endian) (f : Format) (bs : Bytes) : Out Nat × Bytes :=
  match Ints.readWord e 64 f bs with
  | .ok (v, r) => (.ok v, r)
  | .err x => (.err x, bs)
  | .panic w => (.panic w, bs)
  | .diverge => (.diverge, bs)

/-- sequencing of state-tracking reads -/
@[inline] def andThen {α β : Type} (x : Out α × Bytes) (f : α → Bytes → Out β × Bytes) : Out β × Bytes :=
  match x.1 with
  | .ok a => f a x.2
  | .err e => (.err e, x.2)
  | .panic w => (.panic w, x.2)
  | .diverge => (.diverge, x.2)

def lineThenStr (mk : Nat → Bytes → Entry) (rest : Bytes) : Out (Option Entry) × Bytes :=
  andThen (ulebSt rest) fun line r => andThen (nullTerm r) fun s r => (.ok (some (mk line s)), r)

def lineThenOff (e : Endian) (f : Format) (mk : Nat → Nat → Entry) (rest : Bytes) : Out (Option Entry) × Bytes :=
  andThen (ulebSt rest) fun line r => andThen (offsetSt e f r) fun o r => (.ok (some (mk line o)), r)

def lineThenUleb (mk : Nat → Nat → Entry) (rest : Bytes) : Out (Option Entry) × Bytes :=
  andThen (ulebSt rest) fun line r => andThen (ulebSt r) fun o r => (.ok (some (mk line o)), r)

/-- what follows the type byte (the arms of the `match macro_type` in `MacroIter::next`) -/
inductive Shape where
  | done                                   -- type 0: `input.empty(); Ok(None)`
  | lineStr (mk : Nat → Bytes → Entry)     -- ULEB line, NUL-terminated string
  | lineUleb (mk : Nat → Nat → Entry)      -- ULEB, ULEB
  | endFile
  | lineOff (mk : Nat → Nat → Entry)       -- ULEB line, offset of the unit's format
  | off (mk : Nat → Entry)                 -- offset
  | bad (e : Err)                          -- `input.empty(); Err(..)`

/-- the dispatch on the type byte, in the order of the Rust `match` (guards `if self.is_macro`) -/
def shapeOf (t : Nat) (isMacro : Bool) : Shape :=
  if t = 0 then .done
  else if t = 1 then .lineStr .define
  else if t = 2 then .lineStr .undef
  else if t = 3 then .lineUleb .startFile
  else if t = 4 then .endFile
  else if t = 5 ∧ isMacro then .lineOff .defineStrp
  else if t = 6 ∧ isMacro then .lineOff .undefStrp
  else if t = 7 ∧ isMacro then .off .import_
  else if t = 8 ∧ isMacro then .lineOff .defineSup
  else if t = 9 ∧ isMacro then .lineOff .undefSup
  else if t = 10 ∧ isMacro then .off .importSup
  else if t = 11 ∧ isMacro then .lineUleb .defineStrx
  else if t = 12 ∧ isMacro then .lineUleb .undefStrx
  else if isMacro then .bad .rInvalidMacroType
  else if t = 0xff then .lineStr .vendorExt
  else .bad .rInvalidMacinfoType

def run (e : Endian) (f : Format) : Shape → Bytes → Out (Option Entry) × Bytes
  | .done, _ => (.ok none, [])
  | .lineStr mk, rest => lineThenStr mk rest
  | .lineUleb mk, rest => lineThenUleb mk rest
  | .endFile, rest => (.ok (some .endFile), rest)
  | .lineOff mk, rest => lineThenOff e f mk rest
  | .off mk, rest => andThen (offsetSt e f rest) fun o r => (.ok (some (mk o)), r)
  | .bad err, _ => (.err err, [])

/-- `MacroIter::next` (HEAD of /repo: an empty input ends the list) -/
def next (e : Endian) (f : Format) (isMacro : Bool) (bs : Bytes) : Out (Option Entry) × Bytes :=
  match bs with
  | [] => (.ok none, [])
  | b :: rest => run e f (shapeOf b.toNat isMacro) rest

def iter (e : Endian) (f : Format) (isMacro : Bool) : Iter Bytes Entry := ⟨next e f isMacro⟩

end Gimli.Macros
