import Gimli.Model.Pub
/-!
# Model of `src/read/names.rs` (`.debug_names`, DWARF 5 §6.1.1)

`NameIndexHeader::parse`, `NameIndexHeaderIter`, `NameIndex::new` (layout arithmetic),
`compile_unit`/`local_type_unit`/`foreign_type_unit`/`type_unit`, `NameBucketIter`,
`NameHashIter`, `name_string_offset`, `NameEntryIter`, `NameEntry::parse`, `name_entry`,
`read_debug_names_form_value`, `NameAbbreviations::{parse,get}`, the attribute accessors.

Readers are the remaining bytes.  All size products are `u32 × {4,8}` in `u64`: no overflow.
The case-folding DJB hash (`src/case_fold.rs`) is *not* modelled: callers pass the hash.
-/
namespace Gimli.Names
open Gimli Gimli.Ints
open Gimli.Aranges (Item)

/-- `r.clone(); r.skip(off)?; …`: the reader positioned at `off` -/
def skipTo (bs : Bytes) (off : Nat) : Out Bytes :=
  if off ≤ bs.length then .ok (bs.drop off) else .err .rUnexpectedEof

/-! ## header -/

/-- `NameIndexHeader` (without the section offset, which the iterator supplies) -/
structure Header where
  length : Nat
  format : Format
  version : Nat
  cuCount : Nat
  localTuCount : Nat
  foreignTuCount : Nat
  bucketCount : Nat
  nameCount : Nat
  abbrevTableSize : Nat
  augmentation : Option Bytes
  content : Bytes
  deriving Repr, DecidableEq

/-- `NameIndexHeader::parse`; returns the header and the input after this index -/
def parseHeader (e : Endian) (input : Bytes) : Out (Header × Bytes) := do
  let ((length, format), input) ← readInitialLength e 64 input
  let (body, input) ← take length input
  let (version, body) ← readFixed e 2 body
  if version ≠ 5 then .err .rUnknownVersion else do
  let (_, body) ← take 2 body
  let (cuCount, body) ← readFixed e 4 body
  let (localTuCount, body) ← readFixed e 4 body
  let (foreignTuCount, body) ← readFixed e 4 body
  let (bucketCount, body) ← readFixed e 4 body
  let (nameCount, body) ← readFixed e 4 body
  let (abbrevTableSize, body) ← readFixed e 4 body
  let (augSize, body) ← readFixed e 4 body
  if augSize > 0 then do
    let (aug, body) ← take augSize body
    -- `(4 - (augmentation_string_size & 3)) & 3`
    let (_, body) ← take ((4 - augSize % 4) % 4) body
    pure ({ length, format, version, cuCount, localTuCount, foreignTuCount, bucketCount, nameCount,
            abbrevTableSize, augmentation := some aug, content := body }, input)
  else
    pure ({ length, format, version, cuCount, localTuCount, foreignTuCount, bucketCount, nameCount,
            abbrevTableSize, augmentation := none, content := body }, input)

/-- `NameIndexHeaderIter` run to the end (`off` = section offset of the next header) -/
def headers (e : Endian) : Nat → Bytes → Nat → List (Item (Nat × Header))
  | 0, _, _ => []
  | fuel + 1, input, off =>
    if input.isEmpty then []
    else match parseHeader e input with
      | .ok (h, rest) => .item (off, h) :: headers e fuel rest (off + (input.length - rest.length))
      | .err x => [.error x]
      | _ => []

/-! ## abbreviations -/

/-- `NameAbbreviation`: code, tag, `(name, form)` list -/
structure Abbrev where
  code : Nat
  tag : Nat
  attrs : List (Nat × Nat)
  deriving Repr, DecidableEq

/-- the inner `loop` of `NameAbbreviations::parse` (attribute specifications) -/
def parseAttrSpecs : Nat → Bytes → Out (List (Nat × Nat) × Bytes)
  | 0, _ => .diverge
  | fuel + 1, bs => do
    let (name, bs) ← Leb.u16 bs
    let (form, bs) ← Leb.u16 bs
    if name = 0 ∧ form = 0 then pure ([], bs)
    else if name = 0 then .err .rAttributeNameZero
    else if form = 0 then .err .rAttributeFormZero
    else do
      let (rest, bs) ← parseAttrSpecs fuel bs
      pure ((name, form) :: rest, bs)

/-- the `while !reader.is_empty()` loop of `NameAbbreviations::parse` -/
def parseAbbrevs : Nat → Bytes → Out (List Abbrev)
  | 0, _ => .diverge
  | fuel + 1, bs =>
    if bs.isEmpty then .ok []
    else do
      let (code, bs) ← Leb.unsigned bs
      if code = 0 then pure []
      else do
        let (tag, bs) ← Leb.u16 bs
        if tag = 0 then .err .rAbbreviationTagZero
        else do
          let (attrs, bs') ← parseAttrSpecs (bs.length + 1) bs
          let rest ← parseAbbrevs fuel bs'
          pure ({ code, tag, attrs } :: rest)

/-- `NameAbbreviations::get`: the first abbreviation with that code -/
def getAbbrev (abbrevs : List Abbrev) (code : Nat) : Option Abbrev :=
  abbrevs.find? (fun a => a.code = code)

/-! ## the index -/

/-- `NameIndex` -/
structure Index where
  format : Format
  cuCount : Nat
  localTuCount : Nat
  foreignTuCount : Nat
  bucketCount : Nat
  nameCount : Nat
  cuList : Bytes
  localTuList : Bytes
  foreignTuList : Bytes
  bucketData : Bytes
  hashTableData : Bytes
  nameTableData : Bytes
  entryOffsetData : Bytes
  entryPool : Bytes
  abbrevs : List Abbrev
  deriving Repr, DecidableEq

/-- `NameIndex::new`: the layout arithmetic -/
def Index.new (h : Header) : Out Index := do
  let offsetSize := h.format.wordSize
  let cuListSize := h.cuCount * offsetSize
  let localTuSize := h.localTuCount * offsetSize
  let foreignTuSize := h.foreignTuCount * 8
  let bucketsSize := h.bucketCount * 4
  let hashTableSize := if h.bucketCount = 0 then 0 else h.nameCount * 4
  let nameTableSize := h.nameCount * offsetSize
  let abbrevSize := h.abbrevTableSize
  let (cuList, r) ← take cuListSize h.content
  let (localTuList, r) ← take localTuSize r
  let (foreignTuList, r) ← take foreignTuSize r
  let (bucketData, r) ← take bucketsSize r
  let (hashTableData, r) ← take hashTableSize r
  let (nameTableData, r) ← take nameTableSize r
  let (entryOffsetData, r) ← take nameTableSize r
  let (abbrevTable, r) ← take abbrevSize r
  let abbrevs ← parseAbbrevs (abbrevTable.length + 1) abbrevTable
  pure { format := h.format, cuCount := h.cuCount, localTuCount := h.localTuCount,
         foreignTuCount := h.foreignTuCount, bucketCount := h.bucketCount, nameCount := h.nameCount,
         cuList, localTuList, foreignTuList, bucketData, hashTableData, nameTableData,
         entryOffsetData, entryPool := r, abbrevs }

/-- `reader.skip(index * size)?; reader.read_offset(format)` on one of the offset lists -/
def offsetAt (e : Endian) (f : Format) (list : Bytes) (index : Nat) : Out Nat := do
  let r ← skipTo list (index * f.wordSize)
  let (v, _) ← readWord e 64 f r
  pure v

/-- `NameIndex::compile_unit` -/
def Index.compileUnit (e : Endian) (ix : Index) (index : Nat) : Out Nat :=
  offsetAt e ix.format ix.cuList index

/-- `NameIndex::local_type_unit` -/
def Index.localTypeUnit (e : Endian) (ix : Index) (index : Nat) : Out Nat :=
  offsetAt e ix.format ix.localTuList index

/-- `NameIndex::foreign_type_unit` -/
def Index.foreignTypeUnit (e : Endian) (ix : Index) (index : Nat) : Out Nat := do
  let r ← skipTo ix.foreignTuList (index * 8)
  let (v, _) ← readFixed e 8 r
  pure v

/-- `NameTypeUnit` -/
inductive TypeUnit where
  | local_ (off : Nat)
  | foreign (sig : Nat)
  deriving Repr, DecidableEq

/-- `NameIndex::type_unit` (`index.checked_sub(local_type_unit_count)`) -/
def Index.typeUnit (e : Endian) (ix : Index) (index : Nat) : Out TypeUnit :=
  if index ≥ ix.localTuCount then (ix.foreignTypeUnit e (index - ix.localTuCount)).map .foreign
  else (ix.localTypeUnit e index).map .local_

/-- `NameIndex::name_string_offset` -/
def Index.nameStringOffset (e : Endian) (ix : Index) (index : Nat) : Out Nat :=
  offsetAt e ix.format ix.nameTableData index

/-- `DebugStr::get_str` -/
def getStr (debugStr : Bytes) (off : Nat) : Out Bytes := do
  let r ← skipTo debugStr off
  let (s, _) ← Pub.readCStr r
  pure s

/-! ## hash table -/

/-- state of a `NameBucketIter`: reader into the hash array, next name-table index -/
structure BucketIter where
  reader : Bytes
  index : Nat
  bucketIndex : Nat
  deriving Repr, DecidableEq

/-- `NameBucketIter::new`: `Ok(None)` for an empty bucket -/
def BucketIter.new (e : Endian) (ix : Index) (bucketIndex : Nat) : Out (Option BucketIter) := do
  let r ← skipTo ix.bucketData (bucketIndex * 4)
  let (start, _) ← readFixed e 4 r
  if start = 0 then pure none
  else do
    let index := start - 1
    let reader ← skipTo ix.hashTableData (index * 4)
    pure (some { reader, index, bucketIndex })

/-- `NameBucketIter::next`: result and the iterator afterwards -/
def BucketIter.next (e : Endian) (ix : Index) (it : BucketIter) :
    Out (Option (Nat × Nat)) × BucketIter :=
  if it.index ≥ ix.nameCount then (.ok none, it)
  else match readFixed e 4 it.reader with
    | .ok (hash, reader) =>
      let it' := { it with reader, index := it.index + 1 }
      if ix.bucketCount = 0 then (.panic "attempt to calculate the remainder with a divisor of zero", it')
      else if hash % ix.bucketCount ≠ it.bucketIndex then (.ok none, it')
      else (.ok (some (it.index, hash)), it')
    | .err x => (.err x, it)
    | .panic w => (.panic w, it)
    | .diverge => (.diverge, it)

/-- a bucket iterator run to its first `Ok(None)` / error (`fuel` = cap on `next` calls) -/
def BucketIter.drain (e : Endian) (ix : Index) : Nat → BucketIter → List (Item (Nat × Nat))
  | 0, _ => []
  | fuel + 1, it =>
    match it.next e ix with
    | (.ok (some p), it') => .item p :: BucketIter.drain e ix fuel it'
    | (.ok none, _) => []
    | (.err x, _) => [.error x]
    | (_, _) => []

/-- `NameIndex::find_by_bucket` + drain: `none` = empty bucket -/
def Index.bucket (e : Endian) (ix : Index) (bucketIndex : Nat) :
    Out (Option (List (Item (Nat × Nat)))) := do
  let it ← BucketIter.new e ix bucketIndex
  match it with
  | none => pure none
  | some it => pure (some (it.drain e ix (ix.nameCount + 2)))

/-- the `while let Some(..) = bucket_iter.next()?` loop of `NameHashIter::next` -/
def hashNext (e : Endian) (ix : Index) (hash : Nat) : Nat → BucketIter → Out (Option Nat) × BucketIter
  | 0, it => (.diverge, it)
  | fuel + 1, it =>
    match it.next e ix with
    | (.ok (some (i, h)), it') => if h = hash then (.ok (some i), it') else hashNext e ix hash fuel it'
    | (.ok none, it') => (.ok none, it')
    | (.err x, it') => (.err x, it')
    | (.panic w, it') => (.panic w, it')
    | (.diverge, it') => (.diverge, it')

/-- a `NameHashIter` run to its first `Ok(None)` / error -/
def hashDrain (e : Endian) (ix : Index) (hash : Nat) : Nat → BucketIter → List (Item Nat)
  | 0, _ => []
  | fuel + 1, it =>
    match hashNext e ix hash (ix.nameCount + 2) it with
    | (.ok (some i), it') => .item i :: hashDrain e ix hash fuel it'
    | (.ok none, _) => []
    | (.err x, _) => [.error x]
    | (_, _) => []

/-- `NameIndex::find_by_hash` + drain -/
def Index.findByHash (e : Endian) (ix : Index) (hash : Nat) : Out (List (Item Nat)) := do
  let bucketIndex := if ix.bucketCount = 0 then 0 else hash % ix.bucketCount
  let it ← BucketIter.new e ix bucketIndex
  match it with
  | none => pure []
  | some it => pure (hashDrain e ix hash (ix.nameCount + 2) it)

/-! ## entry pool -/

/-- `NameAttributeValue` -/
inductive Value where
  | unsigned (v : Nat)
  | offset (v : Nat)
  | flag (b : Bool)
  deriving Repr, DecidableEq

/-- `read_debug_names_form_value` -/
def readFormValue (e : Endian) (form : Nat) (bs : Bytes) : Out (Value × Bytes) :=
  if form = 0x0c then do let (v, bs) ← readFixed e 1 bs; pure (.flag (v ≠ 0), bs)
  else if form = 0x19 then pure (.flag true, bs)
  else if form = 0x0b then do let (v, bs) ← readFixed e 1 bs; pure (.unsigned v, bs)
  else if form = 0x05 then do let (v, bs) ← readFixed e 2 bs; pure (.unsigned v, bs)
  else if form = 0x06 then do let (v, bs) ← readFixed e 4 bs; pure (.unsigned v, bs)
  else if form = 0x07 then do let (v, bs) ← readFixed e 8 bs; pure (.unsigned v, bs)
  else if form = 0x0f then do let (v, bs) ← Leb.unsigned bs; pure (.unsigned v, bs)
  else if form = 0x11 then do let (v, bs) ← readFixed e 1 bs; pure (.offset v, bs)
  else if form = 0x12 then do let (v, bs) ← readFixed e 2 bs; pure (.offset v, bs)
  else if form = 0x13 then do let (v, bs) ← readFixed e 4 bs; pure (.offset v, bs)
  else if form = 0x14 then do let (v, bs) ← readFixed e 8 bs; pure (.offset v, bs)
  else if form = 0x15 then do let (v, bs) ← Leb.unsigned bs; pure (.offset v, bs)
  else .err .rUnknownForm

/-- `NameAttribute` -/
structure Attr where
  name : Nat
  form : Nat
  value : Value
  deriving Repr, DecidableEq

/-- `NameEntry` -/
structure Entry where
  offset : Nat
  abbrevCode : Nat
  tag : Nat
  attrs : List Attr
  deriving Repr, DecidableEq

/-- the `for spec in specs` loop of `NameEntry::parse` -/
def readAttrs (e : Endian) : List (Nat × Nat) → Bytes → Out (List Attr × Bytes)
  | [], bs => .ok ([], bs)
  | (name, form) :: specs, bs => do
    let (value, bs) ← readFormValue e form bs
    let (rest, bs) ← readAttrs e specs bs
    pure ({ name, form, value } :: rest, bs)

/-- `NameEntry::parse`: `Ok(None)` on abbreviation code 0 -/
def parseEntry (e : Endian) (abbrevs : List Abbrev) (offset : Nat) (bs : Bytes) :
    Out (Option Entry × Bytes) := do
  let (code, bs) ← Leb.unsigned bs
  if code = 0 then pure (none, bs)
  else match getAbbrev abbrevs code with
    | none => .err .rInvalidAbbreviationCode
    | some a => do
      let (attrs, bs) ← readAttrs e a.attrs bs
      pure (some { offset, abbrevCode := code, tag := a.tag, attrs }, bs)

/-- `NameEntryIter` (for the pool of length `poolLen`) run to `Ok(None)` / error; on both the
reader is emptied, so nothing follows -/
def entrySeries (e : Endian) (abbrevs : List Abbrev) (poolLen : Nat) : Nat → Bytes → List (Item Entry)
  | 0, _ => []
  | fuel + 1, bs =>
    if bs.isEmpty then []
    else match parseEntry e abbrevs (poolLen - bs.length) bs with
      | .ok (some en, rest) => .item en :: entrySeries e abbrevs poolLen fuel rest
      | .ok (none, _) => []
      | .err x => [.error x]
      | _ => []

/-- `NameIndex::name_entries(index)` + drain -/
def Index.nameEntries (e : Endian) (ix : Index) (index : Nat) : Out (List (Item Entry)) := do
  let offset ← offsetAt e ix.format ix.entryOffsetData index
  let r ← skipTo ix.entryPool offset
  pure (entrySeries e ix.abbrevs ix.entryPool.length (r.length + 1) r)

/-- `NameIndex::name_entry(offset)` -/
def Index.nameEntry (e : Endian) (ix : Index) (offset : Nat) : Out Entry := do
  let r ← skipTo ix.entryPool offset
  let (en, _) ← parseEntry e ix.abbrevs offset r
  match en with
  | some en => pure en
  | none => .err .rNoEntryAtGivenOffset

/-! ## attribute accessors -/

def firstAttr (en : Entry) (name : Nat) : Option Attr := en.attrs.find? (fun a => a.name = name)

/-- `NameEntry::compile_unit` -/
def Entry.compileUnit (e : Endian) (ix : Index) (en : Entry) : Out (Option Nat) :=
  match firstAttr en 1 with
  | none => .ok none
  | some a =>
    match a.value with
    | .unsigned v => if v < 2 ^ 32 then (ix.compileUnit e v).map some else .err .rInvalidNameAttributeIndex
    | _ => .err .rUnsupportedAttributeForm

/-- `NameEntry::type_unit` -/
def Entry.typeUnit (e : Endian) (ix : Index) (en : Entry) : Out (Option TypeUnit) :=
  match firstAttr en 2 with
  | none => .ok none
  | some a =>
    match a.value with
    | .unsigned v => if v < 2 ^ 32 then (ix.typeUnit e v).map some else .err .rInvalidNameAttributeIndex
    | _ => .err .rUnsupportedAttributeForm

/-- `NameEntry::die_offset` -/
def Entry.dieOffset (en : Entry) : Out (Option Nat) :=
  match firstAttr en 3 with
  | none => .ok none
  | some a =>
    match a.value with
    | .offset v => .ok (some v)
    | _ => .err .rUnsupportedAttributeForm

/-- `NameEntry::parent`: `some (some off)` indexed parent, `some none` parent not indexed,
`none` no `DW_IDX_parent` -/
def Entry.parent (en : Entry) : Out (Option (Option Nat)) :=
  match firstAttr en 4 with
  | none => .ok none
  | some a =>
    match a.value with
    | .offset v => .ok (some (some v))
    | .flag true => .ok (some none)
    | _ => .err .rUnsupportedAttributeForm

/-- `NameEntry::type_hash` -/
def Entry.typeHash (en : Entry) : Out (Option Nat) :=
  match firstAttr en 5 with
  | none => .ok none
  | some a =>
    match a.value with
    | .unsigned v => .ok (some v)
    | _ => .err .rUnsupportedAttributeForm

end Gimli.Names
