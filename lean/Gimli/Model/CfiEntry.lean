import Gimli.Model.Ints
/-!
# Model of the entry / pointer / lookup half of `src/read/cfi.rs`
(and `DwEhPe::{format,application,is_indirect,is_absent,is_valid_encoding}` of `src/constants.rs`)

Mirrors, path by path: `parse_pointer_encoding`, `parse_encoded_pointer`, `parse_encoded_value`,
`parse_cfi_entry_prefix`, `parse_cfi_entry`, `is_cie`, `resolve_cie_offset`,
`CommonInformationEntry::{parse,from_prefix}`, `Augmentation::parse`, `AugmentationData::parse`,
`PartialFrameDescriptionEntry::{parse_partial,from_prefix}`, `FrameDescriptionEntry::{parse_rest,
parse_addresses,end_address,contains}`, `CfiEntriesIter::next`, `UnwindSection::{cie_from_offset,
fde_from_offset,fde_for_address,unwind_info_for_address}`, `EhFrameHdr::parse`,
`ParsedEhFrameHdr::table`, `EhHdrTable::{iter,lookup,pointer_to_offset,fde_for_address,
unwind_info_for_address}`, `EhHdrTableIter::next`.

Call-frame *instructions* are opaque byte ranges here (`Cie.instr`, `Fde.instr`); their decoding and
the unwind machine belong to `Model/Cfi.lean` / `Model/Unwind.lean` (C06).

A reader is `Rd = (off, bs)`: the bytes of the (possibly truncated) view and the offset of its first
byte from the start of the section (`Reader::offset_from(section)`), which pc-relative pointers and
`.eh_frame` CIE pointers need.  `usize` is 64 bits.
-/
namespace Gimli.CfiEntry
open Gimli

/-! ## reader with section offset -/

structure Rd where
  off : Nat
  bs : Bytes
  deriving DecidableEq, Repr, Inhabited

namespace Rd

/-- `Reader::split(len)`: (the first `len` bytes as a sub-reader, the advanced reader) -/
def split (n : Nat) (r : Rd) : Out (Rd × Rd) :=
  if n ≤ r.bs.length then .ok (⟨r.off, r.bs.take n⟩, ⟨r.off + n, r.bs.drop n⟩)
  else .err .rUnexpectedEof

/-- `Reader::skip(len)` -/
def skip (n : Nat) (r : Rd) : Out Rd :=
  if n ≤ r.bs.length then .ok ⟨r.off + n, r.bs.drop n⟩ else .err .rUnexpectedEof

/-- run a `Bytes`-level primitive reader (C09 Model) at this position -/
def lift {α : Type} (f : Bytes → Out (α × Bytes)) (r : Rd) : Out (α × Rd) := do
  let (a, rest) ← f r.bs
  pure (a, ⟨r.off + (r.bs.length - rest.length), rest⟩)

/-- `Reader::read_u8` -/
def u8 (r : Rd) : Out (Nat × Rd) :=
  match r.bs with
  | [] => .err .rUnexpectedEof
  | b :: rest => .ok (b.toNat, ⟨r.off + 1, rest⟩)

end Rd

/-! ## `DW_EH_PE_*` -/

/-- `DwEhPe::format` (`& 0x0f`) -/
def peFormat (b : Nat) : Nat := b % 16
/-- `DwEhPe::application` (`& 0x70`), as the constant's value `0x00, 0x10, … 0x70` -/
def peApplication (b : Nat) : Nat := b % 128 / 16 * 16
/-- `DwEhPe::is_indirect` (`& 0x80 != 0`) -/
def peIndirect (b : Nat) : Bool := decide (128 ≤ b % 256)
/-- `DwEhPe::is_absent` -/
def peAbsent (b : Nat) : Bool := decide (b = 0xff)

/-- `DwEhPe::is_valid_encoding` -/
def isValidEncoding (b : Nat) : Bool :=
  if peAbsent b then true
  else
    let f := peFormat b
    if ¬ (f = 0 ∨ f = 1 ∨ f = 2 ∨ f = 3 ∨ f = 4 ∨ f = 9 ∨ f = 0x0a ∨ f = 0x0b ∨ f = 0x0c) then false
    else
      let a := peApplication b
      if ¬ (a = 0 ∨ a = 0x10 ∨ a = 0x20 ∨ a = 0x30 ∨ a = 0x40 ∨ a = 0x50) then false
      else true

/-- `SectionBaseAddresses` -/
structure SecBases where
  sect : Option Nat := none
  text : Option Nat := none
  data : Option Nat := none
  deriving DecidableEq, Repr, Inhabited

/-- `BaseAddresses` -/
structure Bases where
  ehFrameHdr : SecBases := {}
  ehFrame : SecBases := {}
  deriving DecidableEq, Repr, Inhabited

/-- `Pointer` -/
inductive Ptr where
  | direct (v : Nat)
  | indirect (v : Nat)
  deriving DecidableEq, Repr, Inhabited

/-- `Pointer::new` -/
def Ptr.new (enc v : Nat) : Ptr := if peIndirect enc then .indirect v else .direct v
/-- `Pointer::direct` -/
def Ptr.toDirect : Ptr → Out Nat
  | .direct v => .ok v
  | .indirect _ => .err .rUnsupportedIndirectPointer
/-- `Pointer::pointer` -/
def Ptr.pointer : Ptr → Nat
  | .direct v => v
  | .indirect v => v

/-- `u64::wrapping_add_sized(self, length, size)` = `self.wrapping_add(length) & ones_sized(size)`,
`ones_sized(size) = !0 >> (64 - size * 8)` computed in `u8`: for `size` outside 1..8 the
subtraction / multiplication / shift overflows — a panic with overflow checks, and a mask from the
wrapped shift amount (`& 63`) without. -/
def wrappingAddSized (m : Mode) (a len size : Nat) : Out Nat :=
  if 1 ≤ size ∧ size ≤ 8 then .ok ((a + len) % 2 ^ 64 % 2 ^ (8 * size))
  else match m with
    | .debug =>
      if size = 0 then .panic "attempt to shift right with overflow"
      else if size * 8 > 255 then .panic "attempt to multiply with overflow"
      else .panic "attempt to subtract with overflow"
    | .release =>
      let sh := ((64 + 256 - (size * 8) % 256) % 256) % 64
      .ok (((a + len) % 2 ^ 64) &&& ((2 ^ 64 - 1) >>> sh))

/-- `PointerEncodingParameters` (the section itself is the `off` carried by `Rd`) -/
structure PeParams where
  bases : SecBases
  funcBase : Option Nat
  asz : Nat
  deriving Repr

/-- `parse_pointer_encoding` -/
def parsePointerEncoding (r : Rd) : Out (Nat × Rd) := do
  let (b, r) ← r.u8
  if isValidEncoding b then pure (b, r) else .err .rUnknownPointerEncoding

/-- sign extension of an `n`-byte pattern to the `u64` pattern (`read_iN().map(|a| a as u64)`) -/
def sext (n v : Nat) : Nat := Leb.ofI64 (Ints.toSigned n v)

/-- `parse_encoded_value` -/
def parseEncodedValue (e : Endian) (enc asz : Nat) (r : Rd) : Out (Nat × Rd) :=
  let f := peFormat enc
  if f = 0 then r.lift (Ints.readAddress e asz)
  else if f = 1 then r.lift Leb.unsigned
  else if f = 2 then r.lift (Ints.readFixed e 2)
  else if f = 3 then r.lift (Ints.readFixed e 4)
  else if f = 4 then r.lift (Ints.readFixed e 8)
  else if f = 9 then do
    let (v, r) ← r.lift Leb.signed
    pure (Leb.ofI64 v, r)
  else if f = 0x0a then do
    let (v, r) ← r.lift (Ints.readFixed e 2)
    pure (sext 2 v, r)
  else if f = 0x0b then do
    let (v, r) ← r.lift (Ints.readFixed e 4)
    pure (sext 4 v, r)
  else if f = 0x0c then do
    let (v, r) ← r.lift (Ints.readFixed e 8)
    pure (sext 8 v, r)
  else .panic "internal error: entered unreachable code"

/-- the `base` of `parse_encoded_pointer` for the reader position `off` -/
def pointerBase (m : Mode) (enc : Nat) (p : PeParams) (off : Nat) : Out Nat :=
  let a := peApplication enc
  if a = 0 then .ok 0
  else if a = 0x10 then
    match p.bases.sect with
    | some sb => wrappingAddSized m sb off p.asz
    | none => .err .rPcRelativePointerButSectionBaseIsUndefined
  else if a = 0x20 then
    match p.bases.text with
    | some t => .ok t
    | none => .err .rTextRelativePointerButTextBaseIsUndefined
  else if a = 0x30 then
    match p.bases.data with
    | some d => .ok d
    | none => .err .rDataRelativePointerButDataBaseIsUndefined
  else if a = 0x40 then
    match p.funcBase with
    | some f => .ok f
    | none => .err .rFuncRelativePointerInBadContext
  else if a = 0x50 then .err .rUnsupportedPointerEncoding
  else .panic "internal error: entered unreachable code"

/-- `parse_encoded_pointer` -/
def parseEncodedPointer (m : Mode) (e : Endian) (enc : Nat) (p : PeParams) (r : Rd) : Out (Ptr × Rd) :=
  if ¬ isValidEncoding enc then .err .rUnknownPointerEncoding
  else if enc = 0xff then .err .rCannotParseOmitPointerEncoding
  else do
    let base ← pointerBase m enc p r.off
    let (offset, r) ← parseEncodedValue e enc p.asz r
    let v ← wrappingAddSized m base offset p.asz
    pure (Ptr.new enc v, r)

/-! ## sections, entry prefix -/

/-- what distinguishes the two section kinds and the caller's settings -/
structure Cfg where
  /-- `.eh_frame` (true) or `.debug_frame` (false) -/
  eh : Bool
  e : Endian
  /-- `set_address_size` (the default is the native word size, 8) -/
  asz : Nat
  m : Mode
  deriving Repr

/-- `CfiEntryPrefix` -/
structure Prefix where
  offset : Nat
  length : Nat
  format : Format
  cieOffsetBase : Nat
  cieIdOrOffset : Nat
  rest : Rd
  deriving Repr

/-- the CIE id / CIE pointer field (`cie_offset_encoding`): always `U32` in `.eh_frame`, by format
in `.debug_frame` -/
def readCieId (c : Cfg) (format : Format) (rest : Rd) : Out (Nat × Rd) :=
  if c.eh ∨ format = .dwarf32 then rest.lift (Ints.readFixed c.e 4)
  else rest.lift (Ints.readFixed c.e 8)

/-- `parse_cfi_entry_prefix`: `none` = a zero length -/
def parsePrefix (c : Cfg) (r : Rd) : Out (Option Prefix × Rd) := do
  let offset := r.off
  let ((length, format), r) ← r.lift (Ints.readInitialLength c.e 64)
  if length = 0 then pure (none, r) else do
  let (rest, r) ← r.split length
  let base := rest.off
  let (id, rest) ← readCieId c format rest
  pure (some { offset, length, format, cieOffsetBase := base, cieIdOrOffset := id, rest }, r)

/-- `_UnwindSectionPrivate::is_cie` -/
def isCie (c : Cfg) (format : Format) (id : Nat) : Bool :=
  if c.eh then decide (id = 0)
  else match format with
    | .dwarf32 => decide (id = 0xffff_ffff)
    | .dwarf64 => decide (id = 0xffff_ffff_ffff_ffff)

/-- `_UnwindSectionPrivate::resolve_cie_offset` -/
def resolveCieOffset (c : Cfg) (base offset : Nat) : Option Nat :=
  if c.eh then (if offset ≤ base then some (base - offset) else none) else some offset

/-! ## CIE -/

/-- `Augmentation` -/
structure Aug where
  lsda : Option Nat := none
  personality : Option (Nat × Ptr) := none
  fdeEnc : Option Nat := none
  signal : Bool := false
  deriving DecidableEq, Repr, Inhabited

/-- `CommonInformationEntry` (instructions are an opaque byte range) -/
structure Cie where
  offset : Nat
  length : Nat
  format : Format
  version : Nat
  aug : Option Aug
  asz : Nat
  caf : Nat
  daf : Int
  rar : Nat
  instr : Rd
  deriving Repr, DecidableEq, Inhabited

/-- the loop of `Augmentation::parse` over the characters of the augmentation string -/
def augLoop (m : Mode) (e : Endian) (bases : Bases) (asz : Nat) :
    Bytes → (parsedFirst : Bool) → Aug → (data : Option Rd) → (input : Rd) → Out (Aug × Rd)
  | [], _, aug, _, input => .ok (aug, input)
  | ch :: s, pf, aug, data, input =>
    if ch.toNat = 0x7a then -- 'z'
      if pf then .err .rUnknownAugmentation
      else do
        let (len, input) ← input.lift Leb.unsigned
        let (d, input) ← input.split len
        augLoop m e bases asz s true aug (some d) input
    else if ch.toNat = 0x4c then -- 'L'
      match data with
      | none => .err .rUnknownAugmentation
      | some d => do
        let (enc, d) ← parsePointerEncoding d
        augLoop m e bases asz s true { aug with lsda := some enc } (some d) input
    else if ch.toNat = 0x50 then -- 'P'
      match data with
      | none => .err .rUnknownAugmentation
      | some d => do
        let (enc, d) ← parsePointerEncoding d
        let (p, d) ← parseEncodedPointer m e enc { bases := bases.ehFrame, funcBase := none, asz } d
        augLoop m e bases asz s true { aug with personality := some (enc, p) } (some d) input
    else if ch.toNat = 0x52 then -- 'R'
      match data with
      | none => .err .rUnknownAugmentation
      | some d => do
        let (enc, d) ← parsePointerEncoding d
        augLoop m e bases asz s true { aug with fdeEnc := some enc } (some d) input
    else if ch.toNat = 0x53 then -- 'S'
      augLoop m e bases asz s true { aug with signal := true } data input
    else .err .rUnknownAugmentation

/-- the bytes before the first NUL and the bytes after it (`Reader::find(0)`, `split`, `skip(1)`) -/
def cstr : Bytes → Option (Bytes × Bytes)
  | [] => none
  | b :: rest =>
    if b = 0 then some ([], rest)
    else match cstr rest with
      | some (s, r) => some (b :: s, r)
      | none => none

/-- `Reader::read_null_terminated_slice` -/
def readCstr (r : Rd) : Out (Bytes × Rd) :=
  match cstr r.bs with
  | none => .err .rUnexpectedEof
  | some (s, rest) => .ok (s, ⟨r.off + s.length + 1, rest⟩)

/-- the address size of a CIE: read (with the segment size) when `has_address_and_segment_sizes`,
else the section's setting -/
def cieAddressSize (c : Cfg) (version : Nat) (rest : Rd) : Out (Nat × Rd) :=
  if ¬ c.eh ∧ version = 4 then do
    let (asz, rest) ← rest.lift Ints.readAddressSize
    let (seg, rest) ← rest.u8
    if seg ≠ 0 then .err .rUnsupportedSegmentSize else pure (asz, rest)
  else pure (c.asz, rest)

/-- the return address register: `u8` in version 1, else ULEB128 through `Register::from_u64` -/
def cieRar (version : Nat) (rest : Rd) : Out (Nat × Rd) :=
  if version = 1 then rest.u8 else do
    let (v, rest) ← rest.lift Leb.unsigned
    if v < 2 ^ 16 then pure (v, rest) else .err .rUnsupportedRegister

/-- `Augmentation::parse` when the augmentation string is not empty -/
def cieAug (c : Cfg) (bases : Bases) (asz : Nat) (augStr : Bytes) (rest : Rd) : Out (Option Aug × Rd) :=
  if augStr.isEmpty then pure (none, rest) else do
    let (a, rest) ← augLoop c.m c.e bases asz augStr false {} none rest
    pure (some a, rest)

/-- `CommonInformationEntry::from_prefix` -/
def cieFromPrefix (c : Cfg) (bases : Bases) (p : Prefix) : Out Cie := do
  let (version, rest) ← p.rest.u8
  if ¬ (version = 1 ∨ version = 3 ∨ version = 4) then .err .rUnknownVersion else do
  let (augStr, rest) ← readCstr rest
  let (asz, rest) ← cieAddressSize c version rest
  let (caf, rest) ← rest.lift Leb.unsigned
  let (daf, rest) ← rest.lift Leb.signed
  let (rar, rest) ← cieRar version rest
  let (aug, rest) ← cieAug c bases asz augStr rest
  pure { offset := p.offset, length := p.length, format := p.format, version, aug, asz, caf, daf,
         rar, instr := rest }

/-- `UnwindSection::cie_from_offset` (`CommonInformationEntry::parse`) -/
def cieFromOffset (c : Cfg) (bases : Bases) (sec : Bytes) (offset : Nat) : Out Cie := do
  let r ← (⟨0, sec⟩ : Rd).skip offset
  let (op, _) ← parsePrefix c r
  match op with
  | none => .err .rNoEntryAtGivenOffset
  | some p =>
    if ¬ isCie c p.format p.cieIdOrOffset then .err .rNotCieId
    else cieFromPrefix c bases p

/-! ## FDE -/

/-- `PartialFrameDescriptionEntry` -/
structure PartialFde where
  offset : Nat
  length : Nat
  format : Format
  cieOffset : Nat
  rest : Rd
  deriving Repr, DecidableEq, Inhabited

/-- `FrameDescriptionEntry` -/
structure Fde where
  offset : Nat
  length : Nat
  format : Format
  cie : Cie
  initial : Nat
  range : Nat
  /-- `lsda()` -/
  lsda : Option Ptr
  instr : Rd
  deriving Repr, DecidableEq, Inhabited

/-- `PartialFrameDescriptionEntry::from_prefix` -/
def partialFromPrefix (c : Cfg) (p : Prefix) : Out PartialFde :=
  -- `R::Offset::from_u64` cannot fail for 64-bit offsets
  match resolveCieOffset c p.cieOffsetBase p.cieIdOrOffset with
  | none => .err .rOffsetOutOfBounds
  | some co => .ok { offset := p.offset, length := p.length, format := p.format, cieOffset := co,
                     rest := p.rest }

/-- `FrameDescriptionEntry::parse_addresses` -/
def parseAddresses (c : Cfg) (cie : Cie) (params : PeParams) (r : Rd) : Out ((Nat × Nat) × Rd) :=
  match cie.aug.bind (·.fdeEnc) with
  | some enc => do
    let (p, r) ← parseEncodedPointer c.m c.e enc params r
    let (range, r) ← parseEncodedValue c.e enc params.asz r
    pure ((p.pointer, range), r)
  | none => do
    let (i, r) ← r.lift (Ints.readAddress c.e cie.asz)
    let (range, r) ← r.lift (Ints.readAddress c.e cie.asz)
    pure ((i, range), r)

/-- `AugmentationData::parse` (only when the CIE has an augmentation): the LSDA pointer -/
def fdeAugData (c : Cfg) (cie : Cie) (params : PeParams) (initial : Nat) (rest : Rd) :
    Out (Option Ptr × Rd) :=
  match cie.aug with
  | some aug => do
    let (len, rest) ← rest.lift Leb.unsigned
    let (d, rest) ← rest.split len
    match aug.lsda with
    | some enc => do
      let (ptr, _) ← parseEncodedPointer c.m c.e enc { params with funcBase := some initial } d
      pure (some ptr, rest)
    | none => pure (none, rest)
  | none => pure (none, rest)

/-- `FrameDescriptionEntry::parse_rest` with `get_cie = Section::cie_from_offset` -/
def parseRest (c : Cfg) (bases : Bases) (sec : Bytes) (p : PartialFde) : Out Fde := do
  let cie ← cieFromOffset c bases sec p.cieOffset
  let params : PeParams := { bases := bases.ehFrame, funcBase := none, asz := cie.asz }
  let ((initial, range), rest) ← parseAddresses c cie params p.rest
  let (lsda, rest) ← fdeAugData c cie params initial rest
  pure { offset := p.offset, length := p.length, format := p.format, cie, initial, range, lsda,
         instr := rest }

/-- `FrameDescriptionEntry::end_address` -/
def Fde.endAddress (m : Mode) (f : Fde) : Out Nat := wrappingAddSized m f.initial f.range f.cie.asz

/-- `FrameDescriptionEntry::contains` -/
def Fde.contains (m : Mode) (f : Fde) (a : Nat) : Out Bool :=
  -- `&&` short-circuits: `end_address` is evaluated only when `initial_address() <= address`
  if f.initial ≤ a then do
    let e ← f.endAddress m
    pure (decide (a < e))
  else pure false

/-! ## the entries iterator -/

/-- `CieOrFde` -/
inductive Entry where
  | cie (c : Cie)
  | fde (p : PartialFde)
  deriving Repr

/-- `parse_cfi_entry` -/
def parseCfiEntry (c : Cfg) (bases : Bases) (r : Rd) : Out (Option Entry × Rd) := do
  let (op, r) ← parsePrefix c r
  match op with
  | none => pure (none, r)
  | some p =>
    if isCie c p.format p.cieIdOrOffset then do
      let cie ← cieFromPrefix c bases p
      pure (some (.cie cie), r)
    else do
      let f ← partialFromPrefix c p
      pure (some (.fde f), r)

/-- `CfiEntriesIter::next`; the `loop` runs again only after a zero length in `.debug_frame`.
Fuel `r.bs.length + 1` suffices (`next_fuel`). After an error the real iterator is emptied: the
next call returns `Ok(None)`. -/
def next (c : Cfg) (bases : Bases) : Nat → Rd → Out (Option Entry × Rd)
  | 0, _ => .diverge
  | fuel + 1, r =>
    if r.bs.isEmpty then .ok (none, r)
    else match parseCfiEntry c bases r with
      | .ok (some en, r') => .ok (some en, r')
      | .ok (none, r') => if c.eh then .ok (none, ⟨r'.off, []⟩) else next c bases fuel r'
      | .err er => .err er
      | .panic w => .panic w
      | .diverge => .diverge

/-- all items of `section.entries(bases)` and how the iteration ended (`ok ()` = `Ok(None)`) -/
def entries (c : Cfg) (bases : Bases) : Nat → Rd → List Entry × Out Unit
  | 0, _ => ([], .diverge)
  | fuel + 1, r =>
    match next c bases (r.bs.length + 1) r with
    | .ok (some en, r') => let (l, fin) := entries c bases fuel r'; (en :: l, fin)
    | .ok (none, _) => ([], .ok ())
    | .err er => ([], .err er)
    | .panic w => ([], .panic w)
    | .diverge => ([], .diverge)

/-- `UnwindSection::fde_for_address` with `get_cie = cie_from_offset` -/
def fdeForAddressLoop (c : Cfg) (bases : Bases) (sec : Bytes) (a : Nat) : Nat → Rd → Out Fde
  | 0, _ => .diverge
  | fuel + 1, r =>
    match next c bases (r.bs.length + 1) r with
    | .ok (some (.cie _), r') => fdeForAddressLoop c bases sec a fuel r'
    | .ok (some (.fde p), r') => do
      let f ← parseRest c bases sec p
      let ct ← f.contains c.m a
      if ct then pure f else fdeForAddressLoop c bases sec a fuel r'
    | .ok (none, _) => .err .rNoUnwindInfoForAddress
    | .err er => .err er
    | .panic w => .panic w
    | .diverge => .diverge

def fdeForAddress (c : Cfg) (bases : Bases) (sec : Bytes) (a : Nat) : Out Fde :=
  fdeForAddressLoop c bases sec a (sec.length + 1) ⟨0, sec⟩

def entriesOf (c : Cfg) (bases : Bases) (sec : Bytes) : List Entry × Out Unit :=
  entries c bases (sec.length + 1) ⟨0, sec⟩

/-- `UnwindSection::unwind_info_for_address`: the FDE lookup followed by the row search inside the
FDE (`FrameDescriptionEntry::unwind_info_for_address`, C06's unwind machine — a parameter here). -/
def unwindInfoForAddress {Row : Type} (rowFor : Fde → Nat → Out Row)
    (c : Cfg) (bases : Bases) (sec : Bytes) (a : Nat) : Out Row := do
  let f ← fdeForAddress c bases sec a
  rowFor f a

/-- `UnwindSection::partial_fde_from_offset` + `parse` = `fde_from_offset` -/
def fdeFromOffset (c : Cfg) (bases : Bases) (sec : Bytes) (offset : Nat) : Out Fde := do
  let r ← (⟨0, sec⟩ : Rd).skip offset
  let (op, _) ← parsePrefix c r
  match op with
  | none => .err .rNoEntryAtGivenOffset
  | some p =>
    if isCie c p.format p.cieIdOrOffset then .err .rNotCiePointer
    else do
      let pf ← partialFromPrefix c p
      parseRest c bases sec pf

/-! ## `.eh_frame_hdr` -/

/-- `ParsedEhFrameHdr` -/
structure Hdr where
  asz : Nat
  ehFramePtr : Ptr
  fdeCount : Nat
  tableEnc : Nat
  table : Rd
  deriving Repr

/-- the `fde_count` field of `EhFrameHdr::parse` -/
def hdrCount (e : Endian) (cntEnc tblEnc asz : Nat) (r : Rd) : Out (Nat × Rd) :=
  if cntEnc = 0xff ∨ tblEnc = 0xff then pure (0, r)
  else if cntEnc ≠ peFormat cntEnc then .err .rUnsupportedPointerEncoding
  else parseEncodedValue e cntEnc asz r

/-- `EhFrameHdr::parse` -/
def parseHdr (m : Mode) (e : Endian) (bases : Bases) (asz : Nat) (sec : Bytes) : Out Hdr := do
  let r : Rd := ⟨0, sec⟩
  let (version, r) ← r.u8
  if version ≠ 1 then .err .rUnknownVersion else do
  let (ptrEnc, r) ← parsePointerEncoding r
  let (cntEnc, r) ← parsePointerEncoding r
  let (tblEnc, r) ← parsePointerEncoding r
  let params : PeParams := { bases := bases.ehFrameHdr, funcBase := none, asz }
  if ptrEnc = 0xff then .err .rCannotParseOmitPointerEncoding else do
  let (ptr, r) ← parseEncodedPointer m e ptrEnc params r
  let (cnt, r) ← hdrCount e cntEnc tblEnc asz r
  pure { asz, ehFramePtr := ptr, fdeCount := cnt, tableEnc := tblEnc, table := r }

/-- `ParsedEhFrameHdr::table` is `Some` -/
def Hdr.hasTable (h : Hdr) : Bool := decide (h.fdeCount ≠ 0)

def Hdr.params (h : Hdr) (bases : Bases) : PeParams :=
  { bases := bases.ehFrameHdr, funcBase := none, asz := h.asz }

/-- the `size` match of `lookup` / `nth` -/
def tableEntrySize (enc : Nat) : Option Nat :=
  let f := peFormat enc
  if f = 0x0a ∨ f = 2 then some 2
  else if f = 0x0b ∨ f = 3 then some 4
  else if f = 0x0c ∨ f = 4 then some 8
  else none

/-- `EhHdrTableIter::next` run to the end: the rows and how the iteration ended. `remain` comes
from the header; the iterator stops after the first error (fix 49f4b6f). -/
def hdrRows (m : Mode) (e : Endian) (h : Hdr) (bases : Bases) : Nat → Nat → Rd → List (Ptr × Ptr) × Out Unit
  | 0, _, _ => ([], .diverge)
  | fuel + 1, remain, r =>
    if remain = 0 then ([], .ok ())
    else
      match (do
        let (a, r) ← parseEncodedPointer m e h.tableEnc (h.params bases) r
        let (b, r) ← parseEncodedPointer m e h.tableEnc (h.params bases) r
        pure ((a, b), r) : Out ((Ptr × Ptr) × Rd)) with
      | .ok (row, r') => let (l, fin) := hdrRows m e h bases fuel (remain - 1) r'; (row :: l, fin)
      | .err er => ([], .err er)
      | .panic w => ([], .panic w)
      | .diverge => ([], .diverge)

/-- the `while len > 1` loop of `EhHdrTable::lookup`; returns the reader positioned at the chosen row.
Each round at least halves `len` (rounding up), so fuel `k` with `len ≤ 2^k` suffices
(`Props.C05.hdr_search_terminates`); `lookup` passes 64. -/
def lookupLoop (m : Mode) (e : Endian) (enc : Nat) (p : PeParams) (rowSize address : Nat) :
    Nat → Nat → Rd → Out Rd
  | 0, len, r => if len > 1 then .diverge else .ok r
  | fuel + 1, len, r =>
    if len > 1 then
      -- `(len / 2).checked_mul(row_size)`
      let offset := (len / 2) * rowSize
      if offset ≥ 2 ^ 64 then .err .rUnsupportedOffset else do
      let (head, tail) ← r.split offset
      let (pv, _) ← parseEncodedPointer m e enc p tail
      let pivot ← pv.toDirect
      if pivot = address then pure tail
      else if pivot < address then lookupLoop m e enc p rowSize address fuel (len - len / 2) tail
      else lookupLoop m e enc p rowSize address fuel (len / 2) head
    else .ok r

/-- `EhHdrTable::lookup` -/
def lookup (m : Mode) (e : Endian) (h : Hdr) (bases : Bases) (address : Nat) : Out Ptr :=
  match tableEntrySize h.tableEnc with
  | none => .err .rUnsupportedPointerEncoding
  | some size => do
    let r ← lookupLoop m e h.tableEnc (h.params bases) (size * 2) address 64 h.fdeCount h.table
    let r ← r.skip size
    let (p, _) ← parseEncodedPointer m e h.tableEnc (h.params bases) r
    pure p

/-- `EhHdrTable::pointer_to_offset` -/
def pointerToOffset (h : Hdr) (ptr : Ptr) : Out Nat := do
  let p ← ptr.toDirect
  let base ← h.ehFramePtr.toDirect
  if base ≤ p then pure (p - base) else .err .rOffsetOutOfBounds

/-- `EhHdrTable::fde_for_address` with `get_cie = EhFrame::cie_from_offset` -/
def hdrFdeForAddress (c : Cfg) (bases : Bases) (h : Hdr) (frame : Bytes) (a : Nat) : Out Fde := do
  let ptr ← lookup c.m c.e h bases a
  let off ← pointerToOffset h ptr
  let f ← fdeFromOffset c bases frame off
  let ct ← f.contains c.m a
  if ct then pure f else .err .rNoUnwindInfoForAddress

/-- `EhHdrTable::unwind_info_for_address` -/
def hdrUnwindInfoForAddress {Row : Type} (rowFor : Fde → Nat → Out Row)
    (c : Cfg) (bases : Bases) (h : Hdr) (frame : Bytes) (a : Nat) : Out Row := do
  let f ← hdrFdeForAddress c bases h frame a
  rowFor f a

end Gimli.CfiEntry
