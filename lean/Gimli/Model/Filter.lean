import Gimli.Prim.Basic
import Gimli.Tables.FilterTags
/-!
# Model of the filtered conversion (`src/write/unit.rs`, module `convert`) — property C19

Mirrors, path by path:

* `FilterDependencies::{add_entry, add_edge, require_entry, get_reachable}` — `Deps`,
  `Deps.addEntry`, `Deps.addEdge`, `Deps.requireEntry`, `visit` (the `for entry in entries` body),
  `loop` (the `while let Some(entries) = queue.pop()` loop, with fuel), `getReachable`;
* `FilterUnit::read_entry` edge construction (`add_attribute_refs`, `add_expression_refs`,
  `add_location_refs`, `has_die_back_edge`, the parent stack; as repaired by the `fix:` commits
  6341b4d and 34014b9) — `attrDeps`, `hasBackEdge`,
  `popParents`, `readEntry`, `filterUnit`, `buildDeps`;
* `ConvertUnitSection::new_with_filter` / `reserve_unit` — `partition`, `reserve`;
* `ConvertUnit::read_entry` (skipping unreserved entries, parent links through its own stack) and
  the reference resolution of `convert_unit_ref` / `convert_debug_info_ref` as used by
  `convert_attribute_value`, `Expression::from`, `LocationList::from` — `convertUnit`, `convertAll`.

The hash map `FnvHashMap<UnitSectionOffset, Vec<UnitSectionOffset>>` is an association list read
with "first match" and erased with "all matches", so every list denotes a finite map and no
well-formedness invariant is needed in the theorems. Offsets are `Nat` (`UnitSectionOffset<usize>`
of `.debug_info`; `.debug_types` units are never produced by `Dwarf::units()`).
No Mathlib import: the driver links this file.
-/
namespace Gimli.Filter

abbrev Off := Nat

/-! ## `FilterDependencies` -/

/-- `FnvHashMap<UnitSectionOffset, Vec<UnitSectionOffset>>` -/
abbrev EdgeMap := List (Off × List Off)

namespace EdgeMap

/-- `HashMap::get` -/
def get? : EdgeMap → Off → Option (List Off)
  | [], _ => none
  | (k, v) :: m, x => if k = x then some v else get? m x

def contains (m : EdgeMap) (x : Off) : Bool := (m.get? x).isSome

/-- `HashMap::remove` (the value is obtained with `get?` first) -/
def erase (m : EdgeMap) (x : Off) : EdgeMap := m.filter (fun p => p.1 != x)

/-- `HashMap::insert` (replaces an existing value) -/
def insert (m : EdgeMap) (x : Off) (v : List Off) : EdgeMap := (x, v) :: m.erase x

/-- `get_mut(&from).unwrap().push(to)` on a present key -/
def push : EdgeMap → Off → Off → EdgeMap
  | [], _, _ => []
  | (k, v) :: m, x, y => if k = x then (k, v ++ [y]) :: m else (k, v) :: push m x y

end EdgeMap

structure Deps where
  edges : EdgeMap := []
  required : List Off := []
  deriving Repr

namespace Deps

/-- `add_entry`: `debug_assert!(!contains_key)`, then `insert` -/
def addEntry (m : Mode) (d : Deps) (entry : Off) (deps : List Off) : Out Deps :=
  if m = .debug ∧ d.edges.contains entry then .panic "debug_assert !edges.contains_key(entry)"
  else .ok { d with edges := d.edges.insert entry deps }

/-- `add_edge`: `self.edges.get_mut(&from).unwrap().push(to)` -/
def addEdge (d : Deps) (frm to : Off) : Out Deps :=
  if d.edges.contains frm then .ok { d with edges := d.edges.push frm to }
  else .panic "called Option::unwrap() on a None value"

/-- `require_entry` -/
def requireEntry (d : Deps) (entry : Off) : Deps := { d with required := d.required ++ [entry] }

end Deps

/-- state of `get_reachable`: the map (entries not yet reached), `reachable`, the stack `queue`
(head = top of the `Vec` stack) -/
structure WState where
  edges : EdgeMap
  reach : List Off
  queue : List (List Off)

/-- `for entry in entries { if let Some(deps) = self.edges.remove(&entry) { reachable.push(entry);
queue.push(deps); } }` -/
def visit : WState → List Off → WState
  | s, [] => s
  | s, e :: es =>
    match s.edges.get? e with
    | some deps => visit ⟨s.edges.erase e, s.reach ++ [e], deps :: s.queue⟩ es
    | none => visit s es

/-- `while let Some(entries) = queue.pop() { … }` -/
def loop : Nat → WState → Out (List Off)
  | 0, _ => .diverge
  | fuel + 1, s =>
    match s.queue with
    | [] => .ok s.reach
    | entries :: queue => loop fuel (visit { s with queue := queue } entries)

def insertOff (a : Off) : List Off → List Off
  | [] => [a]
  | b :: l => if a ≤ b then a :: b :: l else b :: insertOff a l

/-- `sort_unstable`: ascending order (the keys are distinct, so every correct sorting algorithm
returns the same list; an insertion sort keeps the definition kernel-evaluable) -/
def sortOffs (l : List Off) : List Off := l.foldr insertOff []

def getReachableFuel (fuel : Nat) (d : Deps) : Out (List Off) :=
  (loop fuel ⟨d.edges, [], [d.required]⟩).map sortOffs

/-- the fuel that always suffices (`Gimli.Props.C19.worklist_terminates`): every iteration pops
one list, and a list is pushed only when an entry is removed from the map -/
def fuelFor (d : Deps) : Nat := d.edges.length + 2

/-- `FilterDependencies::get_reachable` -/
def getReachable (d : Deps) : Out (List Off) := getReachableFuel (fuelFor d) d

/-! ## `has_die_back_edge` (tables regenerated from the Rust source) -/

def tagIn (t : Nat) (l : List (String × Nat)) : Bool := l.any (fun p => p.2 == t)

/-- `FilterUnitEntry::has_die_back_edge` -/
def hasBackEdge (tag : Nat) (hasDeclaration : Bool) : Bool :=
  if tagIn tag Tables.FilterTags.noBackEdge then false
  else if tagIn tag Tables.FilterTags.declBackEdge then hasDeclaration
  else Tables.FilterTags.defaultBackEdge

/-- `parent.tag != constants::DW_TAG_namespace` -/
def parentAllowsChildEdge (parentTag : Nat) : Bool := !tagIn parentTag Tables.FilterTags.noChildEdgeParent

/-! ## abstract description of what `FilterUnit::read_entry` sees -/

/-- `read::UnitHeader`: `offset()`, `header_size()`, `entries_buf.len()` -/
structure UnitHdr where
  base : Off
  hdr : Nat
  len : Nat
  deriving Repr

namespace UnitHdr
/-- `UnitHeader::is_in_bounds(UnitOffset)` -/
def inBounds (u : UnitHdr) (val : Nat) : Bool := decide (u.hdr ≤ val) && decide (val - u.hdr < u.len)
/-- `root_offset().to_unit_section_offset(unit)` -/
def rootOff (u : UnitHdr) : Off := u.base + u.hdr
/-- `UnitSectionOffset::to_unit_offset(unit).is_some()` -/
def containsOff (u : UnitHdr) (o : Off) : Bool := decide (u.base ≤ o) && u.inBounds (o - u.base)
end UnitHdr

/-- a DIE reference carried by one operation of a DWARF expression -/
inductive OpRef where
  /-- `Deref/RegisterOffset/TypedLiteral/Convert/Reinterpret{base_type}`, `ParameterRef{offset}`,
  `Call{UnitRef}`: unit-relative offset, recorded by `add_expression_refs` if in bounds -/
  | unitRef (val : Nat)
  /-- `Call{DebugInfoRef}`: section offset, recorded -/
  | infoRef (val : Off)
  /-- `ImplicitPointer{value}` / `VariableValue{offset}`: section offset, recorded like
  `Call{DebugInfoRef}` (since fix 6341b4d; before, these fell into `_ => {}`) and resolved by
  `Expression::from` with `convert_debug_info_ref` -/
  | implicitRef (val : Off)
  /-- unit-relative reference nested in `depth ≥ 1` `EntryValue{expression}` operations: the filter
  recurses into nested expressions (fix 6341b4d) while `depth ≤ MAX_ENTRY_VALUE_DEPTH` (fix 8679173:
  `add_nested_expression_refs` descends only `if depth < MAX_ENTRY_VALUE_DEPTH`), and
  `Expression::from_nested` rejects an `EntryValue` at depth `≥ MAX_ENTRY_VALUE_DEPTH` -/
  | nestedUnitRef (depth : Nat) (val : Nat)
  /-- section-offset reference nested in `depth` `EntryValue` operations -/
  | nestedInfoRef (depth : Nat) (val : Off)
  /-- an operation without a DIE reference nested in `depth` `EntryValue` operations (it matters
  only through the nesting bound of the conversion) -/
  | nestedPlain (depth : Nat)
  deriving Repr, DecidableEq

/-- one attribute value that can carry DIE references, as `add_attribute_refs` sees it -/
inductive AttrRef where
  | unitRef (val : Nat)                              -- `AttributeValue::UnitRef`
  | infoRef (val : Off)                              -- `AttributeValue::DebugInfoRef`
  | expr (ops : List OpRef)                          -- `AttributeValue::Exprloc`
  /-- `LocationListsRef` / `DebugLocListsIndex`: the raw entries that carry an expression, in
  order. `add_location_refs` (since fix 34014b9) and `LocationList::from` look at the expression
  of every one of them; the flag says whether the converted list keeps the entry
  (`LocationList::from` drops entries with `begin == end` AFTER converting their expression), i.e.
  whether its references are written -/
  | loclist (locs : List (Bool × List OpRef))
  deriving Repr

/-- a DIE as the raw entry reader delivers it -/
structure Entry where
  off : Nat              -- unit-relative offset (`entry.offset`)
  depth : Int
  hasChildren : Bool
  tag : Nat
  hasDecl : Bool         -- `has_attr(DW_AT_declaration)`
  attrs : List AttrRef
  required : Bool        -- the user calls `require_entry(entry.offset)` after `read_entry`
  deriving Repr

/-! ## `FilterUnit::read_entry` -/

/-- does `add_nested_expression_refs` reach an operation nested in `depth` `EntryValue`s? It starts
at depth 0 and descends from depth `d` to `d + 1` only `if d < MAX_ENTRY_VALUE_DEPTH` -/
def scansDepth (depth : Nat) : Bool := decide (depth ≤ Tables.FilterTags.maxEntryValueDepth)

/-- `add_expression_refs` = `add_nested_expression_refs(.., 0)` (the `to_unit_section_offset(..).ok_or(InvalidDebugInfoRef)?` of the
section-offset kinds can only fail for a unit outside `.debug_info`, which `Dwarf::units()` never
yields, so no error path is modelled) -/
def opDeps (u : UnitHdr) : OpRef → List Off
  | .unitRef val => if u.inBounds val then [u.base + val] else []
  | .infoRef val => [val]
  | .implicitRef val => [val]
  | .nestedUnitRef depth val => if scansDepth depth && u.inBounds val then [u.base + val] else []
  | .nestedInfoRef depth val => if scansDepth depth then [val] else []
  | .nestedPlain _ => []

/-- `add_attribute_refs` (`add_location_refs` iterates the raw list: every entry with `data`) -/
def attrDeps (u : UnitHdr) : AttrRef → List Off
  | .unitRef val => if u.inBounds val then [u.base + val] else []
  | .infoRef val => [val]
  | .expr ops => ops.flatMap (opDeps u)
  | .loclist locs => locs.flatMap (fun l => l.2.flatMap (opDeps u))

/-- `FilterParent` -/
structure Parent where
  depth : Int
  off : Nat
  tag : Nat
  deriving Repr

/-- `while let Some(parent) = parents.last() { if parent.depth < entry.depth { break } parents.pop() }`
(head = top of stack) -/
def popParents (depth : Int) : List Parent → List Parent
  | [] => []
  | p :: ps => if p.depth < depth then p :: ps else popParents depth ps

/-- the dependency part of `FilterUnit::read_entry` once the parent is known: attribute references,
the edge to the parent, the edge from the parent for member-like children, `add_entry`; followed by
the user's `require_entry` if the entry is wanted -/
def recordEntry (m : Mode) (u : UnitHdr) (d : Deps) (e : Entry) (parent : Option Parent) : Out Deps :=
  let entryOff := u.base + e.off
  let deps := e.attrs.flatMap (attrDeps u)
  let finish (d : Deps) (deps : List Off) : Out Deps := do
    let d ← d.addEntry m entryOff deps
    pure (if e.required then d.requireEntry entryOff else d)
  match parent with
  | none => finish d deps
  | some p =>
    let parentOff := u.base + p.off
    if parentAllowsChildEdge p.tag && hasBackEdge e.tag e.hasDecl then do
      let d ← d.addEdge parentOff entryOff
      finish d (deps ++ [parentOff])
    else finish d (deps ++ [parentOff])

/-- the parent stack after an entry: `if entry.has_children() { parents.push(...) }` -/
def pushParent (e : Entry) (parents : List Parent) : List Parent :=
  if e.hasChildren then ⟨e.depth, e.off, e.tag⟩ :: parents else parents

/-- the body of `FilterUnit::read_entry` after the raw read -/
def readEntry (m : Mode) (u : UnitHdr) (st : Deps × List Parent) (e : Entry) : Out (Deps × List Parent) :=
  let parents := popParents e.depth st.2
  (recordEntry m u st.1 e parents.head?).map (fun d => (d, pushParent e parents))

def foldOut {σ α : Type} (f : σ → α → Out σ) : σ → List α → Out σ
  | s, [] => .ok s
  | s, a :: as => match f s a with
    | .ok s' => foldOut f s' as
    | .err e => .err e
    | .panic w => .panic w
    | .diverge => .diverge

/-- `FilterUnit::new` (fix f623d29): the root DIE is always converted, so every offset that
`add_attribute_refs` collects from the root's attributes is passed to `require_entry`; the root
itself is not an entry of the graph (no `add_entry`, not pushed on `parents`) -/
def requireRoot (u : UnitHdr) (rootAttrs : List AttrRef) (d : Deps) : Deps :=
  (rootAttrs.flatMap (attrDeps u)).foldl Deps.requireEntry d

/-- one `FilterUnit` after `new`: fresh parent stack, all entries in read order -/
def filterUnit (m : Mode) (d : Deps) (ue : UnitHdr × List Entry) : Out Deps :=
  (foldOut (readEntry m ue.1) (d, []) ue.2).map (·.1)

/-- the user's loop over `FilterUnitSection::read_unit`; `rootAttrs` are the reference-carrying
attributes of the unit root DIEs (by position, missing = none) -/
def buildDepsFrom (m : Mode) : Deps → List (UnitHdr × List Entry) → List (List AttrRef) → Out Deps
  | d, [], _ => .ok d
  | d, ue :: rest, ras =>
    match filterUnit m (requireRoot ue.1 (ras.headD []) d) ue with
    | .ok d' => buildDepsFrom m d' rest ras.tail
    | .err e => .err e
    | .panic w => .panic w
    | .diverge => .diverge

def buildDeps (m : Mode) (units : List (UnitHdr × List Entry)) (rootAttrs : List (List AttrRef) := []) : Out Deps :=
  buildDepsFrom m {} units rootAttrs

/-! ## `ConvertUnitSection::new_with_filter` -/

/-- the `while let Some(offset) = offsets.get(end) { if to_unit_offset(unit).is_none() {break}; end += 1 }`
scan of one unit: the slice reserved for it and the rest -/
def takeUnit (u : UnitHdr) : List Off → List Off × List Off
  | [] => ([], [])
  | o :: os => if u.containsOff o then let r := takeUnit u os; (o :: r.1, r.2) else ([], o :: os)

/-- per-unit slices of the sorted reachable list and what is left at the end -/
def partition : List UnitHdr → List Off → List (List Off) × List Off
  | [], os => ([], os)
  | u :: us, os =>
    let t := takeUnit u os
    let r := partition us t.2
    (t.1 :: r.1, r.2)

/-- `new_with_filter`: `debug_assert_eq!(end, offsets.len())` -/
def reserve (m : Mode) (units : List UnitHdr) (offsets : List Off) : Out (List (List Off)) :=
  let p := partition units offsets
  if m = .debug ∧ p.2 ≠ [] then .panic "debug_assert_eq!(end, offsets.len())" else .ok p.1

/-! ## conversion of the reserved entries -/

inductive ConvErr where
  | invalidUnitRef
  | invalidDebugInfoRef
  | unsupportedOperation
  deriving Repr, DecidableEq

def ConvErr.name : ConvErr → String
  | .invalidUnitRef => "C.InvalidUnitRef"
  | .invalidDebugInfoRef => "C.InvalidDebugInfoRef"
  | .unsupportedOperation => "C.UnsupportedOperation"

/-- `convert_unit_ref`: in bounds and a key of `entry_ids` -/
def convUnitRef (ids : List Off) (u : UnitHdr) (val : Nat) : Option ConvErr :=
  if u.inBounds val && ids.contains (u.base + val) then none else some .invalidUnitRef

/-- `convert_debug_info_ref` -/
def convInfoRef (ids : List Off) (val : Off) : Option ConvErr :=
  if ids.contains val then none else some .invalidDebugInfoRef

/-- first error in a list of checks -/
def firstErr : List (Option ConvErr) → Option ConvErr
  | [] => none
  | some e :: _ => some e
  | none :: r => firstErr r

/-- `Expression::from`: every reference of every operation, nested expressions included -/
def convOp (ids : List Off) (u : UnitHdr) : OpRef → Option ConvErr
  | .unitRef val => convUnitRef ids u val
  | .infoRef val => convInfoRef ids val
  | .implicitRef val => convInfoRef ids val
  -- `from_nested`: the `EntryValue` met at depth `MAX_ENTRY_VALUE_DEPTH` is rejected before its
  -- nested expression is looked at
  | .nestedUnitRef depth val => if scansDepth depth then convUnitRef ids u val else some .unsupportedOperation
  | .nestedInfoRef depth val => if scansDepth depth then convInfoRef ids val else some .unsupportedOperation
  | .nestedPlain depth => if scansDepth depth then none else some .unsupportedOperation

/-- `convert_attribute_value` (`LocationList::from` converts the expression of every raw entry) -/
def convAttr (ids : List Off) (u : UnitHdr) : AttrRef → Option ConvErr
  | .unitRef val => convUnitRef ids u val
  | .infoRef val => convInfoRef ids val
  | .expr ops => firstErr (ops.map (convOp ids u))
  | .loclist locs => firstErr (locs.map (fun l => firstErr (l.2.map (convOp ids u))))

/-- what `ConvertUnit::convert` leaves in the output unit: `(entry offset, parent offset)` for every
reserved entry (parent `none` = the root), or the first conversion error.
`ids` are the keys of `entry_ids`; `stack` is `parents: Vec<(isize, UnitEntryId)>` (head = top). -/
def convertEntries (ids : List Off) (u : UnitHdr) :
    List (Int × Off) → List Entry → List (Off × Option Off) → Except ConvErr (List (Off × Option Off))
  | _, [], acc => .ok acc.reverse
  | stack, e :: es, acc =>
    let o := u.base + e.off
    let reserved := ids.contains o
    -- `entry.parent = None; while let Some((d, id)) = parents.last() { if d < depth {parent = id; break} pop }`
    let stack1 := stack.dropWhile (fun p => !(decide (p.1 < e.depth)))
    let parent := stack1.head?.map (·.2)
    let stack2 := if reserved && e.hasChildren then (e.depth, o) :: stack1 else stack1
    if reserved then
      match firstErr (e.attrs.map (convAttr ids u)) with
      | some err => .error err
      | none => convertEntries ids u stack2 es ((o, parent) :: acc)
    else convertEntries ids u stack2 es acc

/-- all units in order; `rootAttrs` are the reference-carrying attributes of the unit root DIEs
(by position, missing = none): `ConvertUnit::convert` converts them before the entries -/
def convertUnits (ids : List Off) :
    List (UnitHdr × List Entry) → List (List AttrRef) → Except ConvErr (List (List (Off × Option Off)))
  | [], _ => .ok []
  | (u, es) :: rest, ras =>
    match firstErr ((ras.headD []).map (convAttr ids u)) with
    | some e => .error e
    | none =>
      -- `ConvertUnitSection::read_unit` reads the root first: it is reserved, so it is pushed when
      -- it has children
      match convertEntries ids u (if es.isEmpty then [] else [(0, u.rootOff)]) es [] with
      | .error e => .error e
      | .ok r => match convertUnits ids rest ras.tail with
        | .error e => .error e
        | .ok rs => .ok (r :: rs)

/-- outcome of the whole pipeline on an abstract forest -/
inductive Outcome where
  | converted (reserved : List (List Off)) (units : List (List (Off × Option Off)))
  | convErr (e : ConvErr)
  /-- `Dwarf::write` fails with `Error::InvalidReference`: a written DIE references an id that was
  reserved but never added -/
  | writeErr
  | panic (why : String)
  | diverge
  deriving Repr, DecidableEq

/-- filter, reachability, reservation by unit, conversion -/
def run (m : Mode) (units : List (UnitHdr × List Entry)) (rootAttrs : List (List AttrRef) := []) : Outcome :=
  match buildDeps m units rootAttrs with
  | .panic w => .panic w
  | .diverge => .diverge
  | .err _ => .panic "unexpected"
  | .ok d =>
    match getReachable d with
    | .panic w => .panic w
    | .diverge => .diverge
    | .err _ => .panic "unexpected"
    | .ok offsets =>
      match reserve m (units.map (·.1)) offsets with
      | .panic w => .panic w
      | .diverge => .diverge
      | .err _ => .panic "unexpected"
      | .ok parts =>
        -- `entry_ids`: the root of every unit plus the reserved offsets
        let ids := units.map (·.1.rootOff) ++ parts.flatten
        match convertUnits ids units rootAttrs with
        | .error e => .convErr e
        | .ok us => .converted parts us

/-- the offsets a converted and written attribute points to (location-list entries with an empty
range are dropped by the conversion; `convAttr … = none` implies every unit-relative
one is in bounds and none is nested too deep, so these are exactly the recorded ones) -/
def attrTargets (u : UnitHdr) : AttrRef → List Off
  | .loclist locs => locs.flatMap (fun l => if l.1 then l.2.flatMap (opDeps u) else [])
  | a => attrDeps u a

/-- `Unit::write` resolves every reference through the offsets of the DIEs it has written: an id
that was reserved but never added gives `Error::InvalidReference` -/
def splitWriteOk (ids : List Off) (u : UnitHdr) (es : List Entry) (rootAttrs : List AttrRef)
    (res : List (Off × Option Off)) : Bool :=
  let written := u.rootOff :: res.map (·.1)
  (rootAttrs.flatMap (attrTargets u)).all written.contains &&
  -- the converted DIEs are the reserved ones
  es.all (fun e => !ids.contains (u.base + e.off) ||
    (e.attrs.flatMap (attrTargets u)).all written.contains)

/-- split DWARF: `FilterUnitSection::new_split`, `ConvertUnit::convert_split_with_filter`
(`ConvertSplitUnitSection::new_with_filter` + `new_with_offsets`). The split section is a LIST of
units: the filter walks all of them (the user's `while let Some(unit) = filter.read_unit()`), so
the graph and the reachable offsets range over the whole section; the conversion takes the FIRST
unit (`filter.units.into_iter().next()`, the unit `convert_split` converts as well), reserves the
reachable offsets that lie inside that unit (fix aa527e6; before, every reachable offset of the
section was reserved and a reference into a later unit failed only in `write`) and walks only that
unit's DIEs. `splitWriteOk` mirrors the reference resolution of `write`; `split_write_never_fails`
proves it cannot fail any more. -/
def runSplit (m : Mode) (units : List (UnitHdr × List Entry)) (rootAttrs : List (List AttrRef) := []) : Outcome :=
  match buildDeps m units rootAttrs with
  | .panic w => .panic w
  | .diverge => .diverge
  | .err _ => .panic "unexpected"
  | .ok d =>
    match getReachable d with
    | .panic w => .panic w
    | .diverge => .diverge
    | .err _ => .panic "unexpected"
    | .ok offsets =>
      match units with
      | [] => .panic "MissingSplitUnit"
      | ue :: _ =>
        -- `new_with_offsets` (fix aa527e6): `if offset.to_unit_offset(&split_unit.header).is_none() { continue }`
        let reserved := offsets.filter ue.1.containsOff
        match convertUnits (ue.1.rootOff :: reserved) [ue] rootAttrs with
        | .error e => .convErr e
        | .ok us =>
          if splitWriteOk (ue.1.rootOff :: reserved) ue.1 ue.2 (rootAttrs.headD []) (us.headD []) then .converted [reserved] us
          else .writeErr

/-- the unfiltered `ConvertUnit::convert_split` (`ConvertSplitUnitSection::new`): the first unit of
the split section with all of its DIEs reserved (`read_entry_offsets`) -/
def runSplitUnfiltered (units : List (UnitHdr × List Entry)) (rootAttrs : List (List AttrRef) := []) : Outcome :=
  match units with
  | [] => .panic "MissingSplitUnit"
  | ue :: _ =>
    let offsets := ue.2.map (fun e => ue.1.base + e.off)
    match convertUnits (ue.1.rootOff :: offsets) [ue] rootAttrs with
    | .error e => .convErr e
    | .ok us => .converted [offsets] us

end Gimli.Filter
