import Gimli.Model.Ints
/-!
# Model of call-frame instruction decoding (`src/read/cfi.rs`)

* `Instr` mirrors `CallFrameInstruction<T>` variant by variant.  Registers are `UInt16`
  (`Register(pub u16)`), unsigned operands are `Nat` (`u64`/`u32` values), signed operands are
  `Int` (`i64` values).  An `UnwindExpression { offset, length }` is represented by the bytes it
  designates (the section bytes `[offset, offset+length)`), which is what `UnwindExpression::get`
  returns and what the correspondence check prints.
* `parse` mirrors `CallFrameInstruction::parse` path by path: same order of reads, same error at
  the same point.  `R::Offset::from_u64` is the identity (`usize` = 64 bits).
* `parseEncodedPointer` / `parseEncodedValue` mirror the functions of the same name as far as
  `DW_CFA_set_loc` needs them (`func_base` is always `None` for instruction iterators).
* `decodeAll` mirrors `CallFrameInstructionIter` driven until it returns `Ok(None)` or an error:
  the decoded instructions in order and the error that ended the iteration, if any.

No Mathlib import (the driver links this file).
-/
namespace Gimli.Cfi

/-- `gimli::Vendor` -/
inductive Vendor where
  | default
  | aarch64
  deriving DecidableEq, Repr, Inhabited

/-- `gimli::Register` -/
abbrev Reg := UInt16

/-- `gimli::read::CallFrameInstruction` -/
inductive Instr where
  | setLoc (address : Nat)
  | advanceLoc (delta : Nat)
  | defCfa (register : Reg) (offset : Nat)
  | defCfaSf (register : Reg) (factoredOffset : Int)
  | defCfaRegister (register : Reg)
  | defCfaOffset (offset : Nat)
  | defCfaOffsetSf (factoredOffset : Int)
  | defCfaExpression (expression : Bytes)
  | undefined (register : Reg)
  | sameValue (register : Reg)
  | offset (register : Reg) (factoredOffset : Nat)
  | offsetExtendedSf (register : Reg) (factoredOffset : Int)
  | valOffset (register : Reg) (factoredOffset : Nat)
  | valOffsetSf (register : Reg) (factoredOffset : Int)
  | register (destRegister srcRegister : Reg)
  | expression (register : Reg) (expression : Bytes)
  | valExpression (register : Reg) (expression : Bytes)
  | restore (register : Reg)
  | rememberState
  | restoreState
  | argsSize (size : Nat)
  | negateRaState
  | nop
  deriving DecidableEq, Repr, Inhabited

/-! ## `u64` address helpers (`ReaderAddress for u64`, `src/read/reader.rs`) -/

/-- `u64::ones_sized(size)` = `!0 >> (64 - size * 8)` with `size : u8`.
For `1 ≤ size ≤ 8` this is `2^(8·size) − 1`.  Outside that range the `u8` arithmetic overflows:
a panic with overflow checks (`debug`), a wrapped / masked shift amount without (`release`). -/
def onesSized (m : Mode) (size : Nat) : Out Nat :=
  if 1 ≤ size ∧ size ≤ 8 then .ok (2 ^ (8 * size) - 1)
  else match m with
    | .debug =>
      if size * 8 > 255 then .panic "attempt to multiply with overflow"
      else if size * 8 > 64 then .panic "attempt to subtract with overflow"
      else .panic "attempt to shift right with overflow"
    | .release =>
      let sh := ((64 + 256 - (size * 8) % 256) % 256) % 64
      .ok ((2 ^ 64 - 1) >>> sh)

/-- `u64::add_sized`: checked addition, then the address-size mask test
(`address & !mask != 0` is `address > mask` because `mask = 2^k − 1`). -/
def addSized (m : Mode) (a length size : Nat) : Out Nat :=
  if a + length ≥ 2 ^ 64 then .err .rAddressOverflow
  else do
    let mask ← onesSized m size
    if a + length > mask then .err .rAddressOverflow else pure (a + length)

/-- `u64::wrapping_add_sized` (`x & mask` is `x % (mask+1)`) -/
def wrappingAddSized (m : Mode) (a length size : Nat) : Out Nat := do
  let mask ← onesSized m size
  pure (((a + length) % 2 ^ 64) % (mask + 1))

/-! ## encoded pointers, as used by `DW_CFA_set_loc` in an FDE whose CIE has an `R` augmentation -/

/-- the part of `PointerEncodingParameters` / `SectionBaseAddresses` that decoding reads;
`func_base` is `None` in `CommonInformationEntry::instructions` / `FrameDescriptionEntry::instructions` -/
structure PtrParams where
  addressSize : Nat
  /-- `bases.eh_frame.section` -/
  sectionBase : Option Nat := none
  /-- `bases.eh_frame.text` -/
  textBase : Option Nat := none
  /-- `bases.eh_frame.data` -/
  dataBase : Option Nat := none
  deriving Repr, Inhabited

/-- `DwEhPe::is_valid_encoding` -/
def ehPeValid (enc : Nat) : Bool :=
  if enc = 0xff then true
  else
    let f := enc % 16
    let a := (enc / 16) % 8
    (f = 0 ∨ f = 1 ∨ f = 2 ∨ f = 3 ∨ f = 4 ∨ f = 9 ∨ f = 10 ∨ f = 11 ∨ f = 12) ∧ a ≤ 5

/-- `parse_encoded_value`: the format nibble selects the read; signed formats are sign-extended
to 64 bits and returned as `u64`.  Reached only for valid encodings (otherwise `unreachable!()`). -/
def parseEncodedValue (e : Endian) (enc : Nat) (addressSize : Nat) (bs : Bytes) : Out (Nat × Bytes) :=
  let sx (n : Nat) (r : Out (Nat × Bytes)) : Out (Nat × Bytes) := do
    let (v, rest) ← r
    pure (Leb.ofI64 (Ints.toSigned n v), rest)
  match enc % 16 with
  | 0 => Ints.readAddress e addressSize bs
  | 1 => Leb.unsigned bs
  | 2 => Ints.readFixed e 2 bs
  | 3 => Ints.readFixed e 4 bs
  | 4 => Ints.readFixed e 8 bs
  | 9 => do let (v, rest) ← Leb.signed bs; pure (Leb.ofI64 v, rest)
  | 10 => sx 2 (Ints.readFixed e 2 bs)
  | 11 => sx 4 (Ints.readFixed e 4 bs)
  | 12 => sx 8 (Ints.readFixed e 8 bs)
  | _ => .panic "internal error: entered unreachable code"

/-- the `base` of `parse_encoded_pointer`, selected by the application bits of the encoding
(`func_base = None`); `pos` is `input.offset_from(parameters.section)` -/
def pointerBase (m : Mode) (enc : Nat) (p : PtrParams) (pos : Nat) : Out Nat :=
  match (enc / 16) % 8 with
  | 0 => pure 0
  | 1 => match p.sectionBase with
    | some sb => wrappingAddSized m sb pos p.addressSize
    | none => .err .rPcRelativePointerButSectionBaseIsUndefined
  | 2 => match p.textBase with
    | some t => pure t
    | none => .err .rTextRelativePointerButTextBaseIsUndefined
  | 3 => match p.dataBase with
    | some d => pure d
    | none => .err .rDataRelativePointerButDataBaseIsUndefined
  | 4 => .err .rFuncRelativePointerInBadContext
  | 5 => .err .rUnsupportedPointerEncoding
  | _ => .panic "internal error: entered unreachable code"

/-- `parse_encoded_pointer(encoding, parameters, input)` with `func_base = None`: the address,
whether it is `Pointer::Indirect`, and the remaining input.
`pos` is `input.offset_from(parameters.section)`. -/
def parseEncodedPointer (m : Mode) (e : Endian) (enc : Nat) (p : PtrParams) (pos : Nat)
    (bs : Bytes) : Out ((Nat × Bool) × Bytes) :=
  if !ehPeValid enc then .err .rUnknownPointerEncoding
  else if enc = 0xff then .err .rCannotParseOmitPointerEncoding
  else do
    let base ← pointerBase m enc p pos
    let (off, rest) ← parseEncodedValue e enc p.addressSize bs
    let addr ← wrappingAddSized m base off p.addressSize
    pure ((addr, enc / 128 % 2 = 1), rest)

/-- `parse_encoded_pointer(..)?.direct()?` -/
def parseEncodedPointerDirect (m : Mode) (e : Endian) (enc : Nat) (p : PtrParams) (pos : Nat)
    (bs : Bytes) : Out (Nat × Bytes) := do
  let ((addr, indirect), rest) ← parseEncodedPointer m e enc p pos bs
  if indirect then .err .rUnsupportedIndirectPointer else pure (addr, rest)

/-! ## `CallFrameInstruction::parse` -/

/-- `input.read_uleb128().and_then(Register::from_u64)?` -/
def readReg (bs : Bytes) : Out (Reg × Bytes) := do
  let (v, rest) ← Leb.unsigned bs
  if v < 2 ^ 16 then pure (UInt16.ofNat v, rest) else .err .rUnsupportedRegister

/-- `read_uleb128().and_then(R::Offset::from_u64)?`, `offset_from`, `skip(length)?` -/
def readExpr (bs : Bytes) : Out (Bytes × Bytes) := do
  let (len, rest) ← Leb.unsigned bs
  if len ≤ rest.length then pure (rest.take len, rest.drop len) else .err .rUnexpectedEof

/-- decoding context of a `CallFrameInstructionIter` -/
structure DecodeCfg where
  mode : Mode := .release
  endian : Endian := .little
  /-- `address_encoding` (`None` for a CIE, the `R` augmentation byte of the CIE for an FDE) -/
  addressEncoding : Option Nat := none
  params : PtrParams
  vendor : Vendor := .default
  deriving Repr, Inhabited

/-- `CallFrameInstruction::parse`; `pos` = offset in the section of the first byte of `bs`
(only `DW_EH_PE_pcrel` set_loc operands depend on it) -/
def parse (c : DecodeCfg) (pos : Nat) (bs : Bytes) : Out (Instr × Bytes) :=
  match bs with
  | [] => .err .rUnexpectedEof
  | b :: rest =>
    let op := b.toNat
    let low := UInt16.ofNat (op % 64)
    if op / 64 = 1 then .ok (.advanceLoc (op % 64), rest)
    else if op / 64 = 2 then do
      let (off, rest) ← Leb.unsigned rest
      pure (.offset low off, rest)
    else if op / 64 = 3 then .ok (.restore low, rest)
    else match op with
    | 0x00 => .ok (.nop, rest)
    | 0x01 =>
      match c.addressEncoding with
      | some enc => do
        let (a, rest) ← parseEncodedPointerDirect c.mode c.endian enc c.params (pos + 1) rest
        pure (.setLoc a, rest)
      | none => do
        let (a, rest) ← Ints.readAddress c.endian c.params.addressSize rest
        pure (.setLoc a, rest)
    | 0x02 => do let (d, rest) ← Ints.readFixed c.endian 1 rest; pure (.advanceLoc d, rest)
    | 0x03 => do let (d, rest) ← Ints.readFixed c.endian 2 rest; pure (.advanceLoc d, rest)
    | 0x04 => do let (d, rest) ← Ints.readFixed c.endian 4 rest; pure (.advanceLoc d, rest)
    | 0x05 => do
      let (r, rest) ← readReg rest
      let (off, rest) ← Leb.unsigned rest
      pure (.offset r off, rest)
    | 0x06 => do let (r, rest) ← readReg rest; pure (.restore r, rest)
    | 0x07 => do let (r, rest) ← readReg rest; pure (.undefined r, rest)
    | 0x08 => do let (r, rest) ← readReg rest; pure (.sameValue r, rest)
    | 0x09 => do
      let (d, rest) ← readReg rest
      let (s, rest) ← readReg rest
      pure (.register d s, rest)
    | 0x0a => .ok (.rememberState, rest)
    | 0x0b => .ok (.restoreState, rest)
    | 0x0c => do
      let (r, rest) ← readReg rest
      let (off, rest) ← Leb.unsigned rest
      pure (.defCfa r off, rest)
    | 0x0d => do let (r, rest) ← readReg rest; pure (.defCfaRegister r, rest)
    | 0x0e => do let (off, rest) ← Leb.unsigned rest; pure (.defCfaOffset off, rest)
    | 0x0f => do let (ex, rest) ← readExpr rest; pure (.defCfaExpression ex, rest)
    | 0x10 => do
      let (r, rest) ← readReg rest
      let (ex, rest) ← readExpr rest
      pure (.expression r ex, rest)
    | 0x11 => do
      let (r, rest) ← readReg rest
      let (off, rest) ← Leb.signed rest
      pure (.offsetExtendedSf r off, rest)
    | 0x12 => do
      let (r, rest) ← readReg rest
      let (off, rest) ← Leb.signed rest
      pure (.defCfaSf r off, rest)
    | 0x13 => do let (off, rest) ← Leb.signed rest; pure (.defCfaOffsetSf off, rest)
    | 0x14 => do
      let (r, rest) ← readReg rest
      let (off, rest) ← Leb.unsigned rest
      pure (.valOffset r off, rest)
    | 0x15 => do
      let (r, rest) ← readReg rest
      let (off, rest) ← Leb.signed rest
      pure (.valOffsetSf r off, rest)
    | 0x16 => do
      let (r, rest) ← readReg rest
      let (ex, rest) ← readExpr rest
      pure (.valExpression r ex, rest)
    | 0x2e => do let (n, rest) ← Leb.unsigned rest; pure (.argsSize n, rest)
    | 0x2d =>
      if c.vendor = .aarch64 then .ok (.negateRaState, rest)
      else .err .rUnknownCallFrameInstruction
    | _ => .err .rUnknownCallFrameInstruction

/-- `CallFrameInstructionIter::next` called until `Ok(None)` or the first `Err`: the instructions
yielded, and how the iteration ended: `ok ()` = `Ok(None)` on empty input, `err e` = the decode
error (the iterator then empties its input), `panic` = a panic inside decoding (only `onesSized`
outside address sizes 1..8 in debug builds).
`total` is the length of the whole instruction stream and `base` its offset in the section, so
that `pos = base + (total − remaining)`.  Fuel: every successful `parse` consumes ≥ 1 byte, so
`fuel = bs.length` suffices (`Lemmas.Cfi.decodeAll_not_diverge`). -/
def decodeFuel (c : DecodeCfg) (base total : Nat) : Nat → Bytes → List Instr × Out Unit
  | _, [] => ([], .ok ())
  | 0, _ :: _ => ([], .diverge)
  | fuel + 1, b :: bs =>
    match parse c (base + (total - (b :: bs).length)) (b :: bs) with
    | .ok (i, rest) =>
      let r := decodeFuel c base total fuel rest
      (i :: r.1, r.2)
    | .err e => ([], .err e)
    | .panic w => ([], .panic w)
    | .diverge => ([], .diverge)

/-- all instructions of a stream and how decoding ended -/
def decodeAll (c : DecodeCfg) (base : Nat) (bs : Bytes) : List Instr × Out Unit :=
  decodeFuel c base bs.length bs.length bs

end Gimli.Cfi
