import Gimli.Model.Attr
/-!
# Model of `src/read/abbrev.rs`: `Abbreviations::{insert,get,parse}`, `Abbreviation::parse`,
`AttributeSpecification::parse`, `DebugAbbrev::abbreviations`

* `Abbreviations` is a dense `Vec` for the codes `1..=vec.len()` plus a `BTreeMap` for the rest.
  The map is an association list here (only membership, lookup and insertion are used; no
  iteration order is observable).
* `usize` is 64 bits and abbreviation codes come from `read_uleb128` (`< 2^64`), so
  `code as usize as u64 == code` always holds and `usize::try_from(code)` never fails; both tests
  are therefore omitted (assumption recorded in `props/C02.json`).
* `insert` is only ever called by `parse` with a code `≠ 0` (`Abbreviation::new` asserts it,
  `Abbreviation::parse` returns `None` for code 0); `code - 1` is the `Nat` subtraction.
* The two parsing loops take fuel; the entry points supply `input length + 1`.
-/
namespace Gimli.Abbrev
open Gimli Gimli.Attr

/-- `Abbreviation` -/
structure Abbreviation where
  code : Nat
  /-- `DwTag` (`u16`) -/
  tag : Nat
  hasChildren : Bool
  attrs : List Spec
  deriving DecidableEq, Repr, Inhabited

/-- `Abbreviations { vec, map }` -/
structure Abbreviations where
  vec : List Abbreviation := []
  map : List (Nat × Abbreviation) := []
  deriving DecidableEq, Repr, Inhabited

/-- `BTreeMap::get` -/
def mapGet (m : List (Nat × Abbreviation)) (code : Nat) : Option Abbreviation :=
  match m with
  | [] => none
  | (k, a) :: rest => if k = code then some a else mapGet rest code

/-- `Abbreviations::empty` -/
def Abbreviations.empty : Abbreviations := {}

/-- `map.entry(code)`: `Occupied` → `Err(())`, `Vacant` → insert -/
def Abbreviations.mapInsert (t : Abbreviations) (a : Abbreviation) : Option Abbreviations :=
  match mapGet t.map a.code with
  | some _ => none
  | none => some { t with map := (a.code, a) :: t.map }

/-- `Abbreviations::insert`: `none` is `Err(())` (duplicate code) -/
def Abbreviations.insert (t : Abbreviations) (a : Abbreviation) : Option Abbreviations :=
  if a.code - 1 < t.vec.length then none
  else if a.code - 1 = t.vec.length then
    if !t.map.isEmpty && (mapGet t.map a.code).isSome then none
    else some { t with vec := t.vec ++ [a] }
  else t.mapInsert a

/-- `Abbreviations::get` -/
def Abbreviations.get (t : Abbreviations) (code : Nat) : Option Abbreviation :=
  if code = 0 then none                                   -- `code.checked_sub(1)?`
  else if h : code - 1 < t.vec.length then some t.vec[code - 1]
  else mapGet t.map code

/-- `AttributeSpecification::parse`: `none` is the null specification that ends a list -/
def parseSpec (bs : Bytes) : Out (Option Spec × Bytes) := do
  let (name, rest) ← Leb.u16 bs
  let (form, rest) ← Leb.u16 rest
  if name = 0 ∧ form = 0 then pure (none, rest)
  else if name = 0 then .err .rAttributeNameZero
  else if form = 0 then .err .rAttributeFormZero
  else if form = 0x21 then do
    let (v, rest) ← Leb.signed rest
    pure (some { name := name, form := .implicitConst, implicitConst := v }, rest)
  else pure (some { name := name, form := Form.ofCode form, implicitConst := 0 }, rest)

/-- `Abbreviation::parse_attributes` -/
def parseSpecs : Nat → Bytes → Out (List Spec × Bytes)
  | 0, _ => .diverge
  | fuel + 1, bs => do
    let (s, rest) ← parseSpec bs
    match s with
    | none => pure ([], rest)
    | some s => do
      let (ss, rest) ← parseSpecs fuel rest
      pure (s :: ss, rest)

/-- `Abbreviation::parse`: `none` for the null abbreviation or (recovery) at the end of input -/
def parseAbbreviation (bs : Bytes) : Out (Option Abbreviation × Bytes) :=
  if bs.isEmpty then .ok (none, bs) else do
  let (code, rest) ← Leb.unsigned bs
  if code = 0 then pure (none, rest) else do
  let (tag, rest) ← Leb.u16 rest
  if tag = 0 then .err .rAbbreviationTagZero else do
  let (hc, rest) ← Ints.readFixed .little 1 rest
  if hc ≠ 0 ∧ hc ≠ 1 then .err .rInvalidAbbreviationChildren else do
  let (attrs, rest) ← parseSpecs (rest.length + 1) rest
  pure (some { code := code, tag := tag, hasChildren := hc = 1, attrs := attrs }, rest)

/-- the `while let Some(abbrev) = Abbreviation::parse(input)?` loop of `Abbreviations::parse` -/
def parseLoop : Nat → Abbreviations → Bytes → Out Abbreviations
  | 0, _, _ => .diverge
  | fuel + 1, t, bs => do
    let (a, rest) ← parseAbbreviation bs
    match a with
    | none => pure t
    | some a =>
      match t.insert a with
      | none => .err .rDuplicateAbbreviationCode
      | some t => parseLoop fuel t rest

/-- `Abbreviations::parse` -/
def Abbreviations.parse (bs : Bytes) : Out Abbreviations :=
  parseLoop (bs.length + 1) .empty bs

/-- `DebugAbbrev::abbreviations(offset)`: skip to the offset, then parse -/
def abbreviationsAt (sec : Bytes) (offset : Nat) : Out Abbreviations := do
  let bs ← skipN offset sec
  Abbreviations.parse bs

end Gimli.Abbrev
