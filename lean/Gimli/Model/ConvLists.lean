import Gimli.Model.Lists
import Gimli.Model.WLists
/-!
# Model of `RangeList::from` (`src/write/range.rs`, `mod convert`) and `LocationList::from`
(`src/write/loc.rs`, `mod convert`) at HEAD of /repo

The read-to-write conversion of one range list / location list: the RAW list iterator of the
reader (`raw_ranges` / `raw_locations`, C08's Model `Lists.rawAt`) is drained entry by entry, every
`RawRngListEntry` / `RawLocListEntry` becomes a `write::Range` / `write::Location`
(`WLists.WEntry`, the input of C16's writer Model):

* `AddressOrOffsetPair` (DWARF ≤ 4): both words go through `convert_address`; with a base address
  (`have_base_address`: the unit's `low_pc` is not 0, or a base-address entry was seen) the pair
  must consist of constants and becomes an `OffsetPair`, otherwise it becomes a `StartEnd`;
* `BaseAddress` / `BaseAddressx`: `have_base_address := true`, a `BaseAddress` entry;
* `StartxEndx`, `StartxLength`, `BaseAddressx`: the indices are resolved through `.debug_addr`
  (`UnitRef::address` = C08's `getAddress`), a failing lookup fails the conversion;
* `OffsetPair`, `StartEnd`, `StartLength`, `DefaultLocation`: the entry of the same name;
* afterwards empty entries (`StartLength` of length 0, `StartEnd` / `OffsetPair` with
  `begin == end`) are dropped; nothing else is (tombstones are not looked at);
* an `Err` of the raw iterator fails the conversion (`from.next()?`).

The two Rust functions differ only in the location description, which is converted
(`Expression::from`) after the addresses of the entry and before the base-address test; the Model has
one copy parameterised by `Kind`. `convert_address` (`ca`) and the expression conversion (`ce`) are
parameters.
-/
namespace Gimli.ConvLists
open Gimli Gimli.Lists Gimli.WLists

/-- `write::ConvertError` as far as list conversion is concerned -/
inductive CErr where
  /-- `ConvertError::Read(e)` -/
  | read (e : Err)
  | invalidAddress
  | invalidRangeRelativeAddress
  /-- any error of the expression conversion (`Expression::from`) -/
  | expr (name : String)
  /-- a modelled function panicked or diverged (never happens: `Props.C12.convert_total`) -/
  | crash
  deriving DecidableEq, Repr, Inhabited

def CErr.name : CErr → String
  | .read e => "Read." ++ e.name
  | .invalidAddress => "InvalidAddress"
  | .invalidRangeRelativeAddress => "InvalidRangeRelativeAddress"
  | .expr n => n
  | .crash => "crash"

abbrev CR := Except CErr

deriving instance DecidableEq for Except

/-- a result of the reader Model as a conversion result (`?` on a `read::Result`) -/
def liftRead {α : Type} : Out α → CR α
  | .ok a => .ok a
  | .err e => .error (.read e)
  | .panic _ => .error .crash
  | .diverge => .error .crash

/-- `convert_address(x).ok_or(ConvertError::InvalidAddress)` -/
def convAddr (ca : Nat → Option Addr) (a : Nat) : CR Addr :=
  match ca a with
  | some x => .ok x
  | none => .error .invalidAddress

/-- `from_unit.address(index)?`: `DebugAddr::get_address(address_size, unit.addr_base, index)` -/
def unitAddress (c : Cfg) (addr : Bytes) (ab i : Nat) : CR Nat := liftRead (getAddress c addr ab i)

/-- `convert_expression(data)?` — range entries carry no expression -/
def convData (k : Kind) (ce : Bytes → CR WExpr) (d : Bytes) : CR WExpr :=
  match k with
  | .rng => .ok []
  | .loc => ce d

/-- the `match from_range { … }` / `match from_loc { … }`: the writer entry and the new
`have_base_address` -/
def convertEntry (k : Kind) (c : Cfg) (ca : Nat → Option Addr) (ce : Bytes → CR WExpr)
    (addr : Bytes) (ab : Nat) (hb : Bool) : Entry → CR (WEntry × Bool)
  | .pair b e d => do
    let b' ← convAddr ca b
    let e' ← convAddr ca e
    let x ← convData k ce d
    if hb then
      match b', e' with
      | .const bo, .const eo => pure (.offsetPair bo eo x, hb)
      | _, _ => throw .invalidRangeRelativeAddress
    else pure (.startEnd b' e' x, hb)
  | .baseAddress a => do
    let a' ← convAddr ca a
    pure (.baseAddress a', true)
  | .baseAddressx i => do
    let a ← unitAddress c addr ab i
    let a' ← convAddr ca a
    pure (.baseAddress a', true)
  | .startxEndx b e d => do
    let b0 ← unitAddress c addr ab b
    let b' ← convAddr ca b0
    let e0 ← unitAddress c addr ab e
    let e' ← convAddr ca e0
    let x ← convData k ce d
    pure (.startEnd b' e' x, hb)
  | .startxLength b len d => do
    let b0 ← unitAddress c addr ab b
    let b' ← convAddr ca b0
    let x ← convData k ce d
    pure (.startLength b' len x, hb)
  | .offsetPair b e d => do
    let x ← convData k ce d
    pure (.offsetPair b e x, hb)
  | .defaultLocation d => do
    let x ← convData k ce d
    pure (.defaultLocation x, hb)
  | .startEnd b e d => do
    let b' ← convAddr ca b
    let e' ← convAddr ca e
    let x ← convData k ce d
    pure (.startEnd b' e' x, hb)
  | .startLength b len d => do
    let b' ← convAddr ca b
    let x ← convData k ce d
    pure (.startLength b' len x, hb)

/-- "Filtering empty ranges out": the entries `continue` skips -/
def isEmptyEntry : WEntry → Bool
  | .startLength _ len _ => len == 0
  | .startEnd b e _ => b == e
  | .offsetPair b e _ => b == e
  | _ => false

/-- the `while let Some(raw) = from.next()?` loop over the results of the raw iterator -/
def convertEntries (k : Kind) (c : Cfg) (ca : Nat → Option Addr) (ce : Bytes → CR WExpr)
    (addr : Bytes) (ab : Nat) : Bool → List (Ev Entry) → CR WList
  | _, [] => .ok []
  | _, .error e :: _ => .error (.read e)
  | hb, .item x :: rest => do
    let (w, hb') ← convertEntry k c ca ce addr ab hb x
    let ws ← convertEntries k c ca ce addr ab hb' rest
    pure (if isEmptyEntry w then ws else w :: ws)

/-- the list section of DWARF ≤ 4 (`.debug_ranges` / `.debug_loc`) -/
def legacySec : Kind → Sections → Bytes
  | .rng, s => s.debugRanges
  | .loc, s => s.debugLoc

/-- the list section of DWARF 5 (`.debug_rnglists` / `.debug_loclists`) -/
def v5Sec : Kind → Sections → Bytes
  | .rng, s => s.debugRnglists
  | .loc, s => s.debugLoclists

/-- `ConvertUnit::convert_range_list` / `convert_location_list`: the raw iterator at `offset` of
the section the unit's version selects (`raw_ranges(offset)?` / `raw_locations(offset)?`), then
`RangeList::from` / `LocationList::from` with `have_base_address = (unit.low_pc != 0)` -/
def convertList (k : Kind) (u : UnitCtx) (secs : Sections) (ca : Nat → Option Addr)
    (ce : Bytes → CR WExpr) (offset : Nat) : CR WList := do
  let evs ← liftRead (rawAt k u.cfg (decide (k = .loc) && u.dwo) (legacySec k secs) (v5Sec k secs) offset)
  convertEntries k u.cfg ca ce secs.debugAddr u.addrBase (decide (u.lowPc ≠ 0)) evs

end Gimli.ConvLists
