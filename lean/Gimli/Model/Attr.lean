import Gimli.Model.Ints
/-!
# Model of attribute decoding: `src/read/unit.rs` (`parse_attribute`, `skip_attributes`,
`allow_section_offset`, `Attribute::value`, `AttributeValue::{udata,sdata,offset,exprloc,u8,u16}_value`)
and `src/read/abbrev.rs` (`get_attribute_size`, `AttributeSpecification`).

Conventions (GUIDE.md): a reader is the list of bytes that remain; every function mirrors the
Rust code path by path (same reads in the same order, same error at the same point).

* `usize`/`R::Offset` is 64 bits, so `R::Offset::from_u64` never fails (recorded as an
  assumption in `props/C03.json`); all other failures of the Rust code are modelled.
* `skip_bytes += len` in `skip_attributes` adds a `u8` per attribute specification; it cannot
  reach 2^64 for any list that fits in memory, so it is a plain `Nat` addition here.
* The `loop { … continue }` over `DW_FORM_indirect` takes fuel; `parseAttribute` and
  `skipAttributes` supply `input length + 1`, which always suffices
  (`Gimli.Props.C03.parse_total`, `skip_total`).

Reused by other models (`Model/Abbrev.lean`, `Model/Die.lean`, the unit writer and the filter):
`Form`, `Form.ofCode`, `Form.code`, `Spec`, `Encoding`, `Value`, `parseAttribute`,
`readAttributes`, `skipAttributes`, `getAttributeSize`, `normalise`.
-/
namespace Gimli.Attr

/-- `gimli::Encoding` together with the byte order of the reader -/
structure Encoding where
  endian : Endian
  /-- `u8` in Rust; any value can be constructed by a caller, only 1/2/4/8 come out of a header -/
  addressSize : Nat
  format : Format
  /-- `u16` -/
  version : Nat
  deriving DecidableEq, Repr, Inhabited

/-- The `DW_FORM_*` codes that `parse_attribute` / `get_attribute_size` know, plus "anything else".
`unknown c` stands for every code the two `match`es send to their `_` arm (this includes
`DW_FORM_null = 0` and the DWARF 1 `DW_FORM_ref = 2`). -/
inductive Form where
  | addr | block2 | block4 | data2 | data4 | data8 | string | block | block1 | data1 | flag
  | sdata | strp | udata | refAddr | ref1 | ref2 | ref4 | ref8 | refUdata | indirect
  | secOffset | exprloc | flagPresent | strx | addrx | refSup4 | strpSup | data16 | lineStrp
  | refSig8 | implicitConst | loclistx | rnglistx | refSup8
  | strx1 | strx2 | strx3 | strx4 | addrx1 | addrx2 | addrx3 | addrx4
  | gnuAddrIndex | gnuStrIndex | gnuRefAlt | gnuStrpAlt
  | unknown (code : Nat)
  deriving DecidableEq, Repr, Inhabited

/-- `constants::DwForm(code)` seen through the `match`es of the decoder -/
def Form.ofCode (c : Nat) : Form :=
  if c = 0x01 then .addr else if c = 0x03 then .block2 else if c = 0x04 then .block4
  else if c = 0x05 then .data2 else if c = 0x06 then .data4 else if c = 0x07 then .data8
  else if c = 0x08 then .string else if c = 0x09 then .block else if c = 0x0a then .block1
  else if c = 0x0b then .data1 else if c = 0x0c then .flag else if c = 0x0d then .sdata
  else if c = 0x0e then .strp else if c = 0x0f then .udata else if c = 0x10 then .refAddr
  else if c = 0x11 then .ref1 else if c = 0x12 then .ref2 else if c = 0x13 then .ref4
  else if c = 0x14 then .ref8 else if c = 0x15 then .refUdata else if c = 0x16 then .indirect
  else if c = 0x17 then .secOffset else if c = 0x18 then .exprloc else if c = 0x19 then .flagPresent
  else if c = 0x1a then .strx else if c = 0x1b then .addrx else if c = 0x1c then .refSup4
  else if c = 0x1d then .strpSup else if c = 0x1e then .data16 else if c = 0x1f then .lineStrp
  else if c = 0x20 then .refSig8 else if c = 0x21 then .implicitConst else if c = 0x22 then .loclistx
  else if c = 0x23 then .rnglistx else if c = 0x24 then .refSup8
  else if c = 0x25 then .strx1 else if c = 0x26 then .strx2 else if c = 0x27 then .strx3
  else if c = 0x28 then .strx4 else if c = 0x29 then .addrx1 else if c = 0x2a then .addrx2
  else if c = 0x2b then .addrx3 else if c = 0x2c then .addrx4
  else if c = 0x1f01 then .gnuAddrIndex else if c = 0x1f02 then .gnuStrIndex
  else if c = 0x1f20 then .gnuRefAlt else if c = 0x1f21 then .gnuStrpAlt
  else .unknown c

/-- the `DW_FORM_*` code of a form -/
def Form.code : Form → Nat
  | .addr => 0x01 | .block2 => 0x03 | .block4 => 0x04 | .data2 => 0x05 | .data4 => 0x06
  | .data8 => 0x07 | .string => 0x08 | .block => 0x09 | .block1 => 0x0a | .data1 => 0x0b
  | .flag => 0x0c | .sdata => 0x0d | .strp => 0x0e | .udata => 0x0f | .refAddr => 0x10
  | .ref1 => 0x11 | .ref2 => 0x12 | .ref4 => 0x13 | .ref8 => 0x14 | .refUdata => 0x15
  | .indirect => 0x16 | .secOffset => 0x17 | .exprloc => 0x18 | .flagPresent => 0x19
  | .strx => 0x1a | .addrx => 0x1b | .refSup4 => 0x1c | .strpSup => 0x1d | .data16 => 0x1e
  | .lineStrp => 0x1f | .refSig8 => 0x20 | .implicitConst => 0x21 | .loclistx => 0x22
  | .rnglistx => 0x23 | .refSup8 => 0x24 | .strx1 => 0x25 | .strx2 => 0x26 | .strx3 => 0x27
  | .strx4 => 0x28 | .addrx1 => 0x29 | .addrx2 => 0x2a | .addrx3 => 0x2b | .addrx4 => 0x2c
  | .gnuAddrIndex => 0x1f01 | .gnuStrIndex => 0x1f02 | .gnuRefAlt => 0x1f20
  | .gnuStrpAlt => 0x1f21 | .unknown c => c

/-- `AttributeSpecification`: name (`DW_AT_*` code), form, and the stored implicit constant
(`0` unless the form is `DW_FORM_implicit_const`, exactly as the Rust struct stores it). -/
structure Spec where
  name : Nat
  form : Form
  implicitConst : Int := 0
  deriving DecidableEq, Repr, Inhabited

/-- `AttributeSpecification::implicit_const_value` -/
def Spec.implicitConstValue (s : Spec) : Option Int :=
  if s.form = .implicitConst then some s.implicitConst else none

/-- the variants of `AttributeValue` -/
inductive Kind where
  | addr | block | data1 | data2 | data4 | data8 | data16 | sdata | udata | exprloc | flag
  | secOffset | debugAddrBase | debugAddrIndex | unitRef | debugInfoRef | debugInfoRefSup
  | debugLineRef | locationListsRef | debugLocListsBase | debugLocListsIndex | debugMacinfoRef
  | debugMacroRef | rangeListsRef | debugRngListsBase | debugRngListsIndex | debugTypesRef
  | debugStrRef | debugStrRefSup | debugStrOffsetsBase | debugStrOffsetsIndex | debugLineStrRef
  | string | encoding | decimalSign | endianity | accessibility | visibility | virtuality
  | language | addressClass | identifierCase | callingConvention | inline | ordering
  | fileIndex | dwoId
  deriving DecidableEq, Repr, Inhabited

/-- the Rust variant name -/
def Kind.name : Kind → String
  | .addr => "Addr" | .block => "Block" | .data1 => "Data1" | .data2 => "Data2"
  | .data4 => "Data4" | .data8 => "Data8" | .data16 => "Data16" | .sdata => "Sdata"
  | .udata => "Udata" | .exprloc => "Exprloc" | .flag => "Flag" | .secOffset => "SecOffset"
  | .debugAddrBase => "DebugAddrBase" | .debugAddrIndex => "DebugAddrIndex"
  | .unitRef => "UnitRef" | .debugInfoRef => "DebugInfoRef" | .debugInfoRefSup => "DebugInfoRefSup"
  | .debugLineRef => "DebugLineRef" | .locationListsRef => "LocationListsRef"
  | .debugLocListsBase => "DebugLocListsBase" | .debugLocListsIndex => "DebugLocListsIndex"
  | .debugMacinfoRef => "DebugMacinfoRef" | .debugMacroRef => "DebugMacroRef"
  | .rangeListsRef => "RangeListsRef" | .debugRngListsBase => "DebugRngListsBase"
  | .debugRngListsIndex => "DebugRngListsIndex" | .debugTypesRef => "DebugTypesRef"
  | .debugStrRef => "DebugStrRef" | .debugStrRefSup => "DebugStrRefSup"
  | .debugStrOffsetsBase => "DebugStrOffsetsBase" | .debugStrOffsetsIndex => "DebugStrOffsetsIndex"
  | .debugLineStrRef => "DebugLineStrRef" | .string => "String" | .encoding => "Encoding"
  | .decimalSign => "DecimalSign" | .endianity => "Endianity" | .accessibility => "Accessibility"
  | .visibility => "Visibility" | .virtuality => "Virtuality" | .language => "Language"
  | .addressClass => "AddressClass" | .identifierCase => "IdentifierCase"
  | .callingConvention => "CallingConvention" | .inline => "Inline" | .ordering => "Ordering"
  | .fileIndex => "FileIndex" | .dwoId => "DwoId"

/-- what an `AttributeValue` variant carries: an unsigned number (addresses, offsets, indices,
constants, signatures, enumeration codes), a signed number (`Sdata`), bytes (blocks, expressions,
inline strings — a zero-copy view in Rust, its contents here) or a flag -/
inductive Payload where
  | num (n : Nat)
  | int (i : Int)
  | bytes (b : Bytes)
  | flag (b : Bool)
  deriving DecidableEq, Repr, Inhabited

/-- an `AttributeValue` -/
structure Value where
  kind : Kind
  payload : Payload
  deriving DecidableEq, Repr, Inhabited

/-- the number a payload denotes, if it is numeric -/
def Payload.numeric : Payload → Option Int
  | .num n => some n
  | .int i => some i
  | _ => none

/-- the bytes a payload views, if any -/
def Payload.bytes? : Payload → Option Bytes
  | .bytes b => some b
  | _ => none

/-- the flag a payload carries, if any -/
def Payload.flag? : Payload → Option Bool
  | .flag b => some b
  | _ => none

/-! ## `get_attribute_size` (src/read/abbrev.rs) -/

/-- `get_attribute_size(form, encoding)`: the advertised fixed size of a form, `none` for
variably sized and unknown forms -/
def getAttributeSize (form : Form) (enc : Encoding) : Option Nat :=
  match form with
  | .addr => some enc.addressSize
  | .implicitConst | .flagPresent => some 0
  | .data1 | .flag | .strx1 | .ref1 | .addrx1 => some 1
  | .data2 | .ref2 | .addrx2 | .strx2 => some 2
  | .addrx3 | .strx3 => some 3
  | .data4 | .refSup4 | .ref4 | .strx4 | .addrx4 => some 4
  | .data8 | .ref8 | .refSig8 | .refSup8 => some 8
  | .data16 => some 16
  | .secOffset | .gnuRefAlt | .strp | .strpSup | .gnuStrpAlt | .lineStrp => some enc.format.wordSize
  | .refAddr => some (if enc.version = 2 then enc.addressSize else enc.format.wordSize)
  | .block | .block1 | .block2 | .block4 | .exprloc | .refUdata | .string | .sdata | .udata
  | .indirect => none
  | _ => none

/-! ## `parse_attribute` (src/read/unit.rs) -/

/-- `allow_section_offset(name, version)`: the attribute names whose `DW_FORM_data4/8` value may
be a section offset in DWARF 2/3. NB: only `DW_AT_data_member_location` looks at the version. -/
def allowSectionOffset (name version : Nat) : Bool :=
  name = 0x02 ∨ name = 0x10 ∨ name = 0x19 ∨ name = 0x2a ∨ name = 0x2c ∨ name = 0x40 ∨ name = 0x43
    ∨ name = 0x79 ∨ name = 0x46 ∨ name = 0x48 ∨ name = 0x4a ∨ name = 0x4d ∨ name = 0x55
    ∨ (name = 0x38 ∧ (version = 2 ∨ version = 3))

/-- a numeric value of variant `k` from a primitive read -/
def numV (k : Kind) (r : Out (Nat × Bytes)) : Out (Value × Bytes) := do
  let (v, rest) ← r
  pure (⟨k, .num v⟩, rest)

/-- a length read followed by `input.split(len)`; the value views the `len` bytes -/
def blockV (k : Kind) (r : Out (Nat × Bytes)) : Out (Value × Bytes) := do
  let (len, rest) ← r
  let (b, rest) ← Ints.take len rest
  pure (⟨k, .bytes b⟩, rest)

/-- `Reader::read_null_terminated_slice`: the bytes before the first 0, and what follows the 0 -/
def readCStr : Bytes → Out (Bytes × Bytes)
  | [] => .err .rUnexpectedEof
  | b :: rest =>
    if b = 0 then .ok ([], rest) else do
      let (s, r) ← readCStr rest
      pure (b :: s, r)

/-- one arm of the `match form` in `parse_attribute`, for every form except `DW_FORM_indirect`
(which is the loop in `parseLoop`; this function is never reached with it) -/
def parseDirect (enc : Encoding) (spec : Spec) (form : Form) (bs : Bytes) : Out (Value × Bytes) :=
  let e := enc.endian
  match form with
  | .addr => numV .addr (Ints.readAddress e enc.addressSize bs)
  | .block1 => blockV .block (Ints.readFixed e 1 bs)
  | .block2 => blockV .block (Ints.readFixed e 2 bs)
  | .block4 => blockV .block (Ints.readFixed e 4 bs)
  | .block => blockV .block (Leb.unsigned bs)
  | .data1 => numV .data1 (Ints.readFixed e 1 bs)
  | .data2 => numV .data2 (Ints.readFixed e 2 bs)
  | .data4 =>
    if enc.format = .dwarf32 ∧ allowSectionOffset spec.name enc.version
    then numV .secOffset (Ints.readWord e 64 .dwarf32 bs)
    else numV .data4 (Ints.readFixed e 4 bs)
  | .data8 =>
    if enc.format = .dwarf64 ∧ allowSectionOffset spec.name enc.version
    then numV .secOffset (Ints.readWord e 64 .dwarf64 bs)
    else numV .data8 (Ints.readFixed e 8 bs)
  | .data16 => numV .data16 (Ints.readFixed e 16 bs)
  | .udata => numV .udata (Leb.unsigned bs)
  | .sdata => do
    let (v, rest) ← Leb.signed bs
    pure (⟨.sdata, .int v⟩, rest)
  | .exprloc => blockV .exprloc (Leb.unsigned bs)
  | .flag => do
    let (v, rest) ← Ints.readFixed e 1 bs
    pure (⟨.flag, .flag (v != 0)⟩, rest)
  | .flagPresent => .ok (⟨.flag, .flag true⟩, bs)
  | .secOffset => numV .secOffset (Ints.readWord e 64 enc.format bs)
  | .ref1 => numV .unitRef (Ints.readFixed e 1 bs)
  | .ref2 => numV .unitRef (Ints.readFixed e 2 bs)
  | .ref4 => numV .unitRef (Ints.readFixed e 4 bs)
  | .ref8 => numV .unitRef (Ints.readFixed e 8 bs)
  | .refUdata => numV .unitRef (Leb.unsigned bs)
  | .refAddr =>
    if enc.version = 2 then numV .debugInfoRef (Ints.readSizedOffset e 64 enc.addressSize bs)
    else numV .debugInfoRef (Ints.readWord e 64 enc.format bs)
  | .refSig8 => numV .debugTypesRef (Ints.readFixed e 8 bs)
  | .refSup4 => numV .debugInfoRefSup (Ints.readFixed e 4 bs)
  | .refSup8 => numV .debugInfoRefSup (Ints.readFixed e 8 bs)
  | .gnuRefAlt => numV .debugInfoRefSup (Ints.readWord e 64 enc.format bs)
  | .string => do
    let (s, rest) ← readCStr bs
    pure (⟨.string, .bytes s⟩, rest)
  | .strp => numV .debugStrRef (Ints.readWord e 64 enc.format bs)
  | .strpSup | .gnuStrpAlt => numV .debugStrRefSup (Ints.readWord e 64 enc.format bs)
  | .lineStrp => numV .debugLineStrRef (Ints.readWord e 64 enc.format bs)
  | .implicitConst =>
    match spec.implicitConstValue with
    | some v => .ok (⟨.sdata, .int v⟩, bs)
    | none => .err .rInvalidImplicitConst
  | .strx | .gnuStrIndex => numV .debugStrOffsetsIndex (Leb.unsigned bs)
  | .strx1 => numV .debugStrOffsetsIndex (Ints.readFixed e 1 bs)
  | .strx2 => numV .debugStrOffsetsIndex (Ints.readFixed e 2 bs)
  | .strx3 => numV .debugStrOffsetsIndex (Ints.readUint e 3 bs)
  | .strx4 => numV .debugStrOffsetsIndex (Ints.readFixed e 4 bs)
  | .addrx | .gnuAddrIndex => numV .debugAddrIndex (Leb.unsigned bs)
  | .addrx1 => numV .debugAddrIndex (Ints.readFixed e 1 bs)
  | .addrx2 => numV .debugAddrIndex (Ints.readFixed e 2 bs)
  | .addrx3 => numV .debugAddrIndex (Ints.readUint e 3 bs)
  | .addrx4 => numV .debugAddrIndex (Ints.readFixed e 4 bs)
  | .loclistx => numV .debugLocListsIndex (Leb.unsigned bs)
  | .rnglistx => numV .debugRngListsIndex (Leb.unsigned bs)
  | .indirect => .err .rUnknownForm
  | .unknown _ => .err .rUnknownForm

/-- the `loop` of `parse_attribute`: `DW_FORM_indirect` reads the real form as a ULEB128 `u16`
and goes round again; every other form is decoded by its arm. -/
def parseLoop (enc : Encoding) (spec : Spec) : Nat → Form → Bytes → Out (Value × Bytes)
  | 0, _, _ => .diverge
  | fuel + 1, form, bs =>
    match form with
    | .indirect => do
      let (c, rest) ← Leb.u16 bs
      parseLoop enc spec fuel (Form.ofCode c) rest
    | f => parseDirect enc spec f bs

/-- `parse_attribute(input, encoding, spec)`: the raw value and the remaining input -/
def parseAttribute (enc : Encoding) (spec : Spec) (bs : Bytes) : Out (Value × Bytes) :=
  parseLoop enc spec (bs.length + 1) spec.form bs

/-- `EntriesRaw::read_attributes`: all attributes of an abbreviation, in order -/
def readAttributes (enc : Encoding) : List Spec → Bytes → Out (List Value × Bytes)
  | [], bs => .ok ([], bs)
  | s :: ss, bs => do
    let (v, rest) ← parseAttribute enc s bs
    let (vs, rest) ← readAttributes enc ss rest
    pure (v :: vs, rest)

/-! ## `skip_attributes` (src/read/unit.rs), as of the `fix:` commit 9bbfb01: fixed sizes are
accumulated in `skip_bytes`, everything whose length comes from the input is skipped at once -/

/-- `Reader::skip(n)` -/
def skipN (n : Nat) (bs : Bytes) : Out Bytes :=
  if n ≤ bs.length then .ok (bs.drop n) else .err .rUnexpectedEof

/-- `if skip_bytes != 0 { input.skip(skip_bytes)?; skip_bytes = 0 }` -/
def flush (pending : Nat) (bs : Bytes) : Out Bytes :=
  if pending ≠ 0 then skipN pending bs else .ok bs

/-- a length read followed by `input.skip(len)` -/
def skipBlock (r : Out (Nat × Bytes)) : Out Bytes := do
  let (len, rest) ← r
  skipN len rest

/-- the inner `match form` of `skip_attributes` for the variably sized forms other than
`DW_FORM_indirect` -/
def skipVar (enc : Encoding) (form : Form) (bs : Bytes) : Out Bytes :=
  let e := enc.endian
  match form with
  | .block1 => skipBlock (Ints.readFixed e 1 bs)
  | .block2 => skipBlock (Ints.readFixed e 2 bs)
  | .block4 => skipBlock (Ints.readFixed e 4 bs)
  | .block | .exprloc => skipBlock (Leb.unsigned bs)
  | .string => do
    let (_, rest) ← readCStr bs
    pure rest
  | .udata | .sdata | .refUdata | .strx | .gnuStrIndex | .addrx | .gnuAddrIndex | .loclistx
  | .rnglistx => Leb.skip bs
  | _ => .err .rUnknownForm

/-- the body of `for spec in specs { loop { … } }` for one specification: returns the new
`skip_bytes` and the input -/
def skipOne (enc : Encoding) : Nat → Form → (pending : Nat) → Bytes → Out (Nat × Bytes)
  | 0, _, _, _ => .diverge
  | fuel + 1, form, pending, bs =>
    match getAttributeSize form enc with
    | some len => .ok (pending + len, bs)
    | none => do
      let bs ← flush pending bs
      match form with
      | .indirect => do
        let (c, rest) ← Leb.u16 bs
        skipOne enc fuel (Form.ofCode c) 0 rest
      | f => do
        let rest ← skipVar enc f bs
        pure (0, rest)

/-- `skip_attributes` from a given value of `skip_bytes` -/
def skipLoop (enc : Encoding) : List Spec → (pending : Nat) → Bytes → Out Bytes
  | [], pending, bs => flush pending bs
  | s :: ss, pending, bs => do
    let (pending, bs) ← skipOne enc (bs.length + 1) s.form pending bs
    skipLoop enc ss pending bs

/-- `skip_attributes(input, encoding, specs)`: the remaining input -/
def skipAttributes (enc : Encoding) (specs : List Spec) (bs : Bytes) : Out Bytes :=
  skipLoop enc specs 0 bs

/-! ## `AttributeValue::*_value` and `Attribute::value` -/

/-- `AttributeValue::udata_value` -/
def Value.udataValue (v : Value) : Option Nat :=
  match v.kind, v.payload with
  | .data1, .num n | .data2, .num n | .data4, .num n | .data8, .num n | .udata, .num n => some n
  | .sdata, .int i => if i < 0 then none else some i.toNat
  | _, _ => none

/-- `AttributeValue::sdata_value` (`as i8/i16/i32/i64` reinterpretation of the data forms) -/
def Value.sdataValue (v : Value) : Option Int :=
  match v.kind, v.payload with
  | .data1, .num n => some (Ints.toSigned 1 n)
  | .data2, .num n => some (Ints.toSigned 2 n)
  | .data4, .num n => some (Ints.toSigned 4 n)
  | .data8, .num n => some (Ints.toSigned 8 n)
  | .sdata, .int i => some i
  | .udata, .num n => if n > 2 ^ 63 - 1 then none else some n
  | _, _ => none

/-- `AttributeValue::u8_value` -/
def Value.u8Value (v : Value) : Option Nat :=
  v.udataValue.bind fun n => if n < 2 ^ 8 then some n else none

/-- `AttributeValue::u16_value` -/
def Value.u16Value (v : Value) : Option Nat :=
  v.udataValue.bind fun n => if n < 2 ^ 16 then some n else none

/-- `AttributeValue::offset_value` -/
def Value.offsetValue (v : Value) : Option Nat :=
  match v.kind, v.payload with
  | .secOffset, .num n => some n
  | _, _ => none

/-- `AttributeValue::exprloc_value` -/
def Value.exprlocValue (v : Value) : Option Bytes :=
  match v.kind, v.payload with
  | .block, .bytes b => some b
  | .exprloc, .bytes b => some b
  | _, _ => none

/-- the class-conversion macros of `Attribute::value` that do something -/
inductive Rule where
  /-- `constant!(u8_value, K, _)` -/
  | constU8 (k : Kind)
  /-- `constant!(u16_value, K, _)` -/
  | constU16 (k : Kind)
  /-- `constant!(udata_value, K)` -/
  | constUdata (k : Kind)
  /-- `exprloc!()` -/
  | exprloc
  /-- `lineptr!()`, `loclistptr!()`, … : `offset_value()` re-labelled as `K` -/
  | offset (k : Kind)
  /-- `dwoid!()` -/
  | dwoid
  deriving DecidableEq, Repr

/-- one macro invocation: `some v'` when it `return`s -/
def Rule.apply (r : Rule) (v : Value) : Option Value :=
  match r with
  | .constU8 k => v.u8Value.map fun n => ⟨k, .num n⟩
  | .constU16 k => v.u16Value.map fun n => ⟨k, .num n⟩
  | .constUdata k => v.udataValue.map fun n => ⟨k, .num n⟩
  | .exprloc => v.exprlocValue.map fun b => ⟨.exprloc, .bytes b⟩
  | .offset k => v.offsetValue.map fun n => ⟨k, .num n⟩
  | .dwoid => v.udataValue.map fun n => ⟨.dwoId, .num n⟩

/-- the `match self.name` of `Attribute::value`: for each `DW_AT_*` code the macros that are
invoked, in order (the no-op macros `address! block! flag! reference! string!` are left out) -/
def rules (name : Nat) : List Rule :=
  let loc : List Rule := [.exprloc, .offset .locationListsRef]
  let cst : List Rule := [.constUdata .udata, .exprloc]
  if name = 0x02 then loc                                  -- DW_AT_location
  else if name = 0x09 then [.constU8 .ordering]            -- DW_AT_ordering
  else if name = 0x0b ∨ name = 0x0c ∨ name = 0x0d then cst -- byte_size, bit_offset, bit_size
  else if name = 0x10 then [.offset .debugLineRef]         -- stmt_list
  else if name = 0x12 then [.constUdata .udata]            -- high_pc
  else if name = 0x13 then [.constU16 .language]           -- language
  else if name = 0x17 then [.constU8 .visibility]          -- visibility
  else if name = 0x19 then loc                             -- string_length
  else if name = 0x20 then [.constU8 .inline]              -- inline
  else if name = 0x22 then [.exprloc]                      -- lower_bound
  else if name = 0x2a then loc                             -- return_addr
  else if name = 0x2c then [.offset .rangeListsRef]        -- start_scope
  else if name = 0x2e then cst                             -- bit_stride
  else if name = 0x2f then [.exprloc]                      -- upper_bound
  else if name = 0x32 then [.constU8 .accessibility]       -- accessibility
  else if name = 0x33 then [.constUdata .addressClass]     -- address_class
  else if name = 0x36 then [.constU8 .callingConvention]   -- calling_convention
  else if name = 0x37 then [.exprloc]                      -- count
  else if name = 0x38 then [.constUdata .udata, .exprloc, .offset .locationListsRef] -- data_member_location
  else if name = 0x39 then [.constUdata .udata]            -- decl_column
  else if name = 0x3a then [.constUdata .fileIndex]        -- decl_file
  else if name = 0x3b then [.constUdata .udata]            -- decl_line
  else if name = 0x3e then [.constU8 .encoding]            -- encoding
  else if name = 0x40 then loc                             -- frame_base
  else if name = 0x42 then [.constU8 .identifierCase]      -- identifier_case
  else if name = 0x43 then [.offset .debugMacinfoRef]      -- macro_info
  else if name = 0x46 then loc                             -- segment
  else if name = 0x48 then loc                             -- static_link
  else if name = 0x4a then loc                             -- use_location
  else if name = 0x4c then [.constU8 .virtuality]          -- virtuality
  else if name = 0x4d then loc                             -- vtable_elem_location
  else if name = 0x4e ∨ name = 0x4f ∨ name = 0x50 then [.exprloc] -- allocated, associated, data_location
  else if name = 0x51 then cst                             -- byte_stride
  else if name = 0x55 then [.offset .rangeListsRef]        -- ranges
  else if name = 0x57 then [.constUdata .udata]            -- call_column
  else if name = 0x58 then [.constUdata .fileIndex]        -- call_file
  else if name = 0x59 then [.constUdata .udata]            -- call_line
  else if name = 0x5e then [.constU8 .decimalSign]         -- decimal_sign
  else if name = 0x65 then [.constU8 .endianity]           -- endianity
  else if name = 0x71 then [.exprloc]                      -- rank
  else if name = 0x72 then [.offset .debugStrOffsetsBase]  -- str_offsets_base
  else if name = 0x73 ∨ name = 0x2133 then [.offset .debugAddrBase]     -- addr_base, GNU_addr_base
  else if name = 0x74 ∨ name = 0x2132 then [.offset .debugRngListsBase] -- rnglists_base, GNU_ranges_base
  else if name = 0x79 then [.offset .debugMacroRef]        -- macros
  else if name = 0x7e ∨ name = 0x7f ∨ name = 0x83 ∨ name = 0x84 ∨ name = 0x85 ∨ name = 0x86
    then [.exprloc]                                        -- call_value … call_data_value
  else if name = 0x8c then [.offset .debugLocListsBase]    -- loclists_base
  else if name = 0x2131 then [.dwoid]                      -- GNU_dwo_id
  else []

/-- `Attribute::value`: the first macro that returns decides, otherwise the raw value -/
def normalise (name : Nat) (v : Value) : Value :=
  ((rules name).findSome? (·.apply v)).getD v

end Gimli.Attr
