import Gimli.Model.WLine
/-!
# Model of `write::ConvertLineProgram` (`mod convert` of `src/write/line.rs`) — all registers and
the header / file tables — and of the line-program part of `write::Dwarf::from`

Complements `Model/ConvLine.lean` (the address dimension only). Mirrors, path by path:

* `Dwarf::attr_line_string`, `DebugStr::get_str`, `DebugLineStr::get_str`     → `attrLineString`
* `ConvertLineProgram::{convert_string, convert_file}`, `LineString::new`       → `convertString`, `convertFile`
* `ConvertLineProgram::new` (working directory / comp name fallbacks, `InvalidLineBase`,
  directory and file mappings, the `file_has_*` flags)                          → `convNew`
* `ConvertLineProgram::{read_row, convert_row, address_offset}` and the loop of `convert` → `readRow`, `convertRow`, `convLoop`
* `ConvertUnit::convert_file_index` (`DW_AT_decl_file`-style attributes)          → `convertFileIndex`
* `Unit::line_program_in_use`                                                   → `programWritten`

over C04's reader types (`Gimli.Line.{Header, Instr, Row, execute, reset}`) on the input side and
the writer Model `Gimli.WLine` (`Prog`, `addFile`, `addDirectory`, `generateRow`, …) on the
output side. The instruction stream is given decoded (`Line.decodePrefix`: the instructions before
the first parse error, and that error).

`usize` is 64 bits. `convert_address` is the identity (`|a| Some(Address::Constant(a))`).
-/
namespace Gimli.ConvLineRows
open Gimli Gimli.Line Gimli.WLine

/-- `ConvertError` (the variants the line-program conversion can produce) -/
inductive CErr where
  | read (e : Err)
  | write (e : Err)
  | invalidAddress
  | missingLineEndSequence
  | missingCompilationName
  | missingCompilationDirectory
  | invalidFileIndex
  | invalidDirectoryIndex
  | invalidLineBase
  | unsupportedLineInstruction
  deriving DecidableEq, Repr

def CErr.name : CErr → String
  | .read e => "Read:" ++ e.name
  | .write e => "Write:" ++ e.name
  | .invalidAddress => "InvalidAddress"
  | .missingLineEndSequence => "MissingLineEndSequence"
  | .missingCompilationName => "MissingCompilationName"
  | .missingCompilationDirectory => "MissingCompilationDirectory"
  | .invalidFileIndex => "InvalidFileIndex"
  | .invalidDirectoryIndex => "InvalidDirectoryIndex"
  | .invalidLineBase => "InvalidLineBase"
  | .unsupportedLineInstruction => "UnsupportedLineInstruction"

/-- outcome of a conversion step: a value, a `ConvertError`, or a panic -/
inductive CRes (α : Type) where
  | ok (a : α)
  | err (e : CErr)
  | panic (why : String)
  deriving Repr

namespace CRes
variable {α β : Type}

@[inline] def bind (x : CRes α) (f : α → CRes β) : CRes β :=
  match x with
  | ok a => f a
  | err e => err e
  | panic w => panic w

instance : Monad CRes where
  pure := ok
  bind := bind

@[simp] theorem bind_ok (a : α) (f : α → CRes β) : (ok a >>= f) = f a := rfl
@[simp] theorem bind_err (e : CErr) (f : α → CRes β) : (err e >>= f) = err e := rfl
@[simp] theorem bind_panic (w : String) (f : α → CRes β) : (panic w >>= f) = panic w := rfl
@[simp] theorem pure_eq (a : α) : (pure a : CRes α) = ok a := rfl

/-- never a panic -/
def Normal : CRes α → Prop
  | panic _ => False
  | _ => True

end CRes

/-- a reader result inside the conversion: `?` on a `read::Error` -/
def ofRead {α : Type} : Out α → CRes α
  | .ok a => .ok a
  | .err e => .err (.read e)
  | .panic w => .panic w
  | .diverge => .panic "diverge"

/-- a writer-Model result (`add_file`, `generate_row`, … only panic or succeed; `write` can fail) -/
def ofWrite {α : Type} : Out α → CRes α
  | .ok a => .ok a
  | .err e => .err (.write e)
  | .panic w => .panic w
  | .diverge => .panic "diverge"

/-- the two string sections of the input -/
structure Strs where
  debugStr : Bytes
  debugLineStr : Bytes
  deriving Repr

/-- `DebugStr::get_str` / `DebugLineStr::get_str`: skip to the offset, read up to the NUL -/
def getStr (sec : Bytes) (off : Nat) : Out Bytes :=
  if off ≤ sec.length then
    match readCStr (sec.drop off) with
    | .ok (s, _) => .ok s
    | .err e => .err e
    | .panic w => .panic w
    | .diverge => .diverge
  else .err .rUnexpectedEof

/-- `Dwarf::attr_line_string` (no supplementary file is loaded) -/
def attrLineString (strs : Strs) : AttrVal → Out Bytes
  | .string b => .ok b
  | .strp off => getStr strs.debugStr off
  | .lineStrp off => getStr strs.debugLineStr off
  | _ => .err .rExpectedStringAttributeValue

/-- `ConvertLineProgram::convert_string`: resolve, then `LineString::new` (inline for versions
≤ 4, `.debug_line_str` for version 5) -/
def convertString (strs : Strs) (version : Nat) (tabs : Tabs) (a : AttrVal) : CRes (Tabs × LineStr) := do
  let r ← ofRead (attrLineString strs a)
  ofWrite (LineStr.make tabs (if version ≤ 4 then .string else .lineStrp) r)

/-- the conversion state: the program being built, the string tables, the two index mappings and
the reader-side registers of `ConvertLineProgram` -/
structure CSt where
  prog : Prog
  tabs : Tabs
  files : List Nat
  dirs : List Nat
  fromRow : Row
  fromAddress : Nat
  inSeq : Bool
  deriving Repr

/-- `ConvertLineProgram::convert_file` followed by `program.add_file` and `files.push` -/
def convertFile (strs : Strs) (st : CSt) (f : FileEntry) : CRes CSt := do
  let version := st.prog.enc.version
  let (tabs, name) ← convertString strs version st.tabs f.path
  -- only `DW_LNE_define_file` can have an empty name for these versions, and it cannot be written
  if name.form = .string ∧ name.val.isEmpty ∧ version ≤ 4 then .err .unsupportedLineInstruction else
  if f.dirIndex ≥ st.dirs.length then .err .invalidDirectoryIndex else
  let dir := st.dirs.getD f.dirIndex 0
  let (tabs, source) ← (match f.source with
    | some s => do
      let (tabs, x) ← convertString strs version tabs s
      pure (tabs, some x)
    | none => pure (tabs, none) : CRes (Tabs × Option LineStr))
  let info : FileInfo := { timestamp := f.timestamp, size := f.size, md5 := f.md5, source }
  let (prog, id) ← ofWrite (addFile st.prog name dir (some info))
  pure { st with prog, tabs, files := st.files ++ [id] }

def convertFiles (strs : Strs) : CSt → List FileEntry → CRes CSt
  | st, [] => .ok st
  | st, f :: fs => do
    let st ← convertFile strs st f
    convertFiles strs st fs

/-- the `for from_attr in from_header.include_directories()` loop -/
def convertDirs (strs : Strs) : CSt → List AttrVal → CRes CSt
  | st, [] => .ok st
  | st, d :: ds => do
    let (tabs, s) ← convertString strs st.prog.enc.version st.tabs d
    let (prog, id) ← ofWrite (addDirectory st.prog s)
    convertDirs strs { st with prog, tabs, dirs := st.dirs ++ [id] } ds

/-- the working directory of `ConvertLineProgram::new`: directory 0 of the source header, or — for
versions ≤ 4, where it is not emitted — an empty string -/
def workingDir (strs : Strs) (hd : Header) (tabs : Tabs) : CRes (Tabs × LineStr) :=
  match hd.directory 0 with
  | some d => convertString strs hd.p.version tabs d
  | none =>
    if hd.p.version ≤ 4 then pure (tabs, { form := .string, val := [] })
    else .err .missingCompilationDirectory

/-- the source directory and source file of `ConvertLineProgram::new` (no skeleton unit): file 0 of
the source header -/
def sourceFile (strs : Strs) (hd : Header) (tabs : Tabs) : CRes (Tabs × Option LineStr × LineStr) :=
  match hd.file 0 with
  | some f => do
    let (tabs, sd) ← (
      if f.dirIndex ≠ 0 then
        match hd.directory f.dirIndex with
        | some d => do
          let (tabs, x) ← convertString strs hd.p.version tabs d
          pure (tabs, some x)
        | none => .err .invalidDirectoryIndex
      else pure (tabs, none) : CRes (Tabs × Option LineStr))
    let (tabs, sf) ← convertString strs hd.p.version tabs f.path
    pure (tabs, sd, sf)
  | none =>
    if hd.p.version ≤ 4 then pure (tabs, none, { form := .string, val := [] })
    else .err .missingCompilationName

/-- the encoding `ConvertLineProgram::new` hands to `LineProgram::new`: the source header's -/
def encOf (p : Params) : Enc :=
  { version := p.version, minInstLen := p.minInstLen, maxOps := p.maxOps, defaultIsStmt := p.defaultIsStmt,
    lineBase := p.lineBase, lineRange := p.lineRange }

/-- the `file_has_*` flags of the source header -/
def withFlags (hd : Header) (st : CSt) : CSt :=
  let has (ct : Nat) : Bool := hd.fileFormat.any (fun x => x.1 == ct)
  { st with prog := { st.prog with hasTimestamp := decide (hd.p.version ≤ 4) || has 3,
                                   hasSize := decide (hd.p.version ≤ 4) || has 4,
                                   hasMd5 := has 5, hasSource := has 0x2001 } }

/-- `ConvertLineProgram::new` with `encoding = None`, `line_encoding = None`, no skeleton unit
(`from_comp_name = None`) -/
def convNew (m : Mode) (strs : Strs) (hd : Header) (tabs : Tabs) : CRes CSt := do
  let version := hd.p.version
  let (tabs, wd) ← workingDir strs hd tabs
  let (tabs, sd, sf) ← sourceFile strs hd tabs
  if hd.p.lineBase > 0 ∨ hd.p.lineBase + (hd.p.lineRange : Int) ≤ 0 then .err .invalidLineBase else
  let prog ← ofWrite (Prog.new m hd.p.format hd.p.addrSize (encOf hd.p) wd sd sf none)
  let st : CSt := { prog, tabs, files := if version ≤ 4 then [0] else [],
                    dirs := if version ≤ 4 then [0] else [],
                    fromRow := Row.new hd.p, fromAddress := 0, inSeq := false }
  let st ← convertDirs strs st hd.dirs
  convertFiles strs (withFlags hd st) hd.files

/-- `ConvertLineProgram::convert_row`; its first step is `address_offset()`: an offset that is not a
multiple of the minimum instruction length (which `DW_LNS_fixed_advance_pc` can produce) cannot be
converted (`UnsupportedLineInstruction`; `read_row` does the same for the end of a sequence) -/
def convertRow (st : CSt) : CRes WRow :=
  let file := st.fromRow.file
  if st.fromRow.address % st.prog.enc.minInstLen ≠ 0 then .err .unsupportedLineInstruction
  else if file ≥ st.files.length then .err .invalidFileIndex
  else if file = 0 ∧ st.prog.enc.version ≤ 4 then .err .invalidFileIndex
  else .ok { addressOffset := st.fromRow.address, opIndex := st.fromRow.opIndex,
             file := st.files.getD file 0, line := st.fromRow.line, column := st.fromRow.column,
             discriminator := st.fromRow.discriminator, isStmt := st.fromRow.isStmt,
             basicBlock := st.fromRow.basicBlock, prologueEnd := st.fromRow.prologueEnd,
             epilogueBegin := st.fromRow.epilogueBegin, isa := st.fromRow.isa }

/-- what one row-producing `read_row` hands to the caller (an optional `SetAddress` first) -/
inductive RowEv where
  | row (address : Option Nat) (r : WRow)
  | endSeq (address : Option Nat) (offset : Nat)
  deriving Repr

/-- the `while let Some(instruction) = …` loop of `read_row`; `tomb` and `address` are the local
`tombstone` and the field `address`. Returns the event (or `none` at the end of the input), the
state and the instructions that remain. -/
def readRowLoop (strs : Strs) (h : Params) : (tomb : Bool) → (address : Option Nat) → CSt → List Instr →
    CRes (Option RowEv × CSt × List Instr)
  | _, _, st, [] => .ok (none, st, [])
  | tomb, address, st, ins :: rest =>
    match ins with
    | .setAddress val =>
      let fa := if tomb then st.fromAddress else (st.fromAddress + st.fromRow.address) % 2 ^ 64
      let tomb' := decide (val < fa) || decide (val ≥ minTombstone h.addrSize)
      if tomb' then
        readRowLoop strs h true address
          { st with fromAddress := fa, fromRow := { st.fromRow with tombstone := true } } rest
      else
        readRowLoop strs h false (some val)
          { st with fromAddress := val,
                    fromRow := { st.fromRow with tombstone := false, address := 0, opIndex := 0 } } rest
    | .defineFile f =>
      match convertFile strs st f with
      | .ok st => readRowLoop strs h tomb address st rest
      | .err e => .err e
      | .panic w => .panic w
    | _ =>
      match execute h st.fromRow ins with
      | (_, .err e) => .err (.read e)
      | (row, .noEmit) => readRowLoop strs h tomb address { st with fromRow := row } rest
      | (row, .emit) =>
        if tomb && !(row.endSequence && st.inSeq) then
          if row.endSequence then
            readRowLoop strs h false none { st with fromRow := reset h row, fromAddress := 0 } rest
          else readRowLoop strs h tomb address { st with fromRow := reset h row } rest
        else if row.endSequence then
          if row.address % h.minInstLen ≠ 0 then .err .unsupportedLineInstruction
          else .ok (some (.endSeq address row.address), { st with fromRow := row, inSeq := false }, rest)
        else
          let st := { st with fromRow := row, inSeq := true }
          match convertRow st with
          | .ok r => .ok (some (.row address r), st, rest)
          | .err e => .err e
          | .panic w => .panic w

/-- `ConvertLineProgram::read_row` from the `ReadRow` state (the `SetAddress` / `ConvertRow` /
`EndSequence` states only deliver the second half of a `RowEv`) -/
def readRow (strs : Strs) (h : Params) (st : CSt) (is : List Instr) :
    CRes (Option RowEv × CSt × List Instr) :=
  let st := { st with fromAddress := if st.fromRow.endSequence then 0 else st.fromAddress,
                      fromRow := reset h st.fromRow }
  readRowLoop strs h false none st is

/-- `self.set_address(..)`, `self.generate_row(row)`, `self.end_sequence(length)` -/
def applyEv (m : Mode) (st : CSt) : RowEv → CRes CSt
  | .row address r => do
    let prog := match address with
      | some a => st.prog.setAddress (some a)
      | none => st.prog
    let prog ← ofWrite (({ prog with row := r } : Prog).generateRow m)
    pure { st with prog }
  | .endSeq address off => do
    let prog := match address with
      | some a => st.prog.setAddress (some a)
      | none => st.prog
    let prog ← ofWrite (prog.endSequence m off)
    pure { st with prog }

/-- the loop of `ConvertLineProgram::convert`; every `read_row` that returns consumes at least one
instruction, so the list length is enough fuel -/
def convLoop (m : Mode) (strs : Strs) (h : Params) : Nat → CSt → List Instr → CRes CSt
  | 0, st, _ => .ok st
  | fuel + 1, st, is =>
    match readRow strs h st is with
    | .ok (none, st, _) => .ok st
    | .ok (some ev, st, rest) =>
      match applyEv m st ev with
      | .ok st => convLoop m strs h fuel st rest
      | .err e => .err e
      | .panic w => .panic w
    | .err e => .err e
    | .panic w => .panic w

/-- `ConvertLineProgram::new(..)?.convert(..)`: the converted program and the file mapping.
`is`/`perr` are the decoded instructions and the parse error that ends them, if any. -/
def convertProgram (m : Mode) (strs : Strs) (hd : Header) (tabs : Tabs) (is : List Instr)
    (perr : Option Err) : CRes CSt := do
  let st ← convNew m strs hd tabs
  let st ← convLoop m strs hd.p (is.length + 1) st is
  match perr with
  | some e => .err (.read e)
  | none => if st.prog.inSequence then .err .missingLineEndSequence else pure st

/-- `ConvertUnit::convert_file_index` for a `DW_AT_decl_file`-style attribute of the unit -/
def convertFileIndex (version : Nat) (files : List Nat) (index : Nat) : CRes (Option Nat) :=
  if index = 0 ∧ version ≤ 4 then .ok none
  else match files[index]? with
    | some id => .ok (some id)
    | none => .err .invalidFileIndex

/-- `Unit::line_program_in_use`: the program is written iff it has instructions or a DIE refers
to one of its files -/
def programWritten (p : Prog) (declIds : List (Option Nat)) : Bool :=
  !p.instrs.isEmpty || declIds.any Option.isSome

end Gimli.ConvLineRows
