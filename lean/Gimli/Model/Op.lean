import Gimli.Model.Ints
/-!
# Model of `Operation::parse` and `OperationIter` (`src/read/op.rs`)

`Operation` mirrors `gimli::read::Operation` constructor by constructor. Reader-valued fields
(`data`, `expression`, `value`) are the bytes of that sub-reader; offsets (`UnitOffset`,
`DebugInfoOffset`, `DebugAddrIndex`) are plain naturals; `Register` is its `u16` number.

`parse` mirrors the Rust `match` on the opcode byte arm by arm (same order of reads, same error at
the same point). Offsets are `usize` (64 bits on the target), so `R::Offset::from_u64` never fails.
This file is also the decode side for the expression *writer* property (C15).
-/
namespace Gimli.Op

/-- `gimli::Encoding` (the three fields `parse` looks at) -/
structure Encoding where
  addressSize : Nat
  format : Format
  version : Nat
  deriving DecidableEq, Repr, Inhabited

/-- `gimli::read::DieReference` -/
inductive DieRef where
  | unitRef (offset : Nat)
  | debugInfoRef (offset : Nat)
  deriving DecidableEq, Repr, Inhabited

/-- `gimli::read::Operation` -/
inductive Operation where
  | deref (baseType : Nat) (size : Nat) (space : Bool)
  | drop
  | pick (index : Nat)
  | swap
  | rot
  | abs | and | div | minus | mod | mul | neg | not | or | plus
  | plusConstant (value : Nat)
  | shl | shr | shra | xor
  | bra (target : Int)
  | eq | ge | gt | le | lt | ne
  | skip (target : Int)
  | unsignedConstant (value : Nat)
  | signedConstant (value : Int)
  | register (register : Nat)
  | registerOffset (register : Nat) (offset : Int) (baseType : Nat)
  | frameOffset (offset : Int)
  | nop
  | pushObjectAddress
  | call (offset : DieRef)
  | variableValue (offset : Nat)
  | tls
  | callFrameCFA
  | piece (sizeInBits : Nat) (bitOffset : Option Nat)
  | implicitValue (data : Bytes)
  | stackValue
  | implicitPointer (value : Nat) (byteOffset : Int)
  | entryValue (expression : Bytes)
  | parameterRef (offset : Nat)
  | address (address : Nat)
  | addressIndex (index : Nat)
  | constantIndex (index : Nat)
  | typedLiteral (baseType : Nat) (value : Bytes)
  | convert (baseType : Nat)
  | reinterpret (baseType : Nat)
  | uninitialized
  | wasmLocal (index : Nat)
  | wasmGlobal (index : Nat)
  | wasmStack (index : Nat)
  deriving DecidableEq, Repr, Inhabited

/-! ## operand readers (thin wrappers over C09's primitives) -/

/-- `read_u8/u16/u32/u64` -/
@[inline] def rdU (e : Endian) (n : Nat) (bs : Bytes) : Out (Nat × Bytes) := Ints.readFixed e n bs

/-- `read_i8/i16/i32/i64`: the same bytes read as two's complement -/
def rdI (e : Endian) (n : Nat) (bs : Bytes) : Out (Int × Bytes) := do
  let (v, rest) ← Ints.readFixed e n bs
  pure (Ints.toSigned n v, rest)

/-- `read_uleb128().and_then(Register::from_u64)`: `Register` is a `u16` -/
def rdRegister (bs : Bytes) : Out (Nat × Bytes) := do
  let (v, rest) ← Leb.unsigned bs
  if v < 2 ^ 16 then pure (v, rest) else .err .rUnsupportedRegister

/-- `Reader::split(len)` -/
@[inline] def split (len : Nat) (bs : Bytes) : Out (Bytes × Bytes) := Ints.take len bs

/-- `read_offset(format)` with 64-bit `usize` offsets -/
@[inline] def rdOffset (e : Endian) (f : Format) (bs : Bytes) : Out (Nat × Bytes) := Ints.readWord e 64 f bs

/-- the operands of one operation, after the opcode byte `opc` has been read -/
def parseOperands (e : Endian) (enc : Encoding) (opc : Nat) (bs : Bytes) : Out (Operation × Bytes) :=
  if 0x30 ≤ opc ∧ opc ≤ 0x4f then .ok (.unsignedConstant (opc - 0x30), bs)        -- DW_OP_lit0..31
  else if 0x50 ≤ opc ∧ opc ≤ 0x6f then .ok (.register (opc - 0x50), bs)            -- DW_OP_reg0..31
  else if 0x70 ≤ opc ∧ opc ≤ 0x8f then do                                           -- DW_OP_breg0..31
    let (v, bs) ← Leb.signed bs
    pure (.registerOffset (opc - 0x70) v 0, bs)
  else
  match opc with
  | 0x03 => do let (a, bs) ← Ints.readAddress e enc.addressSize bs; pure (.address a, bs)
  | 0x06 => .ok (.deref 0 enc.addressSize false, bs)
  | 0x08 => do let (v, bs) ← rdU e 1 bs; pure (.unsignedConstant v, bs)
  | 0x09 => do let (v, bs) ← rdI e 1 bs; pure (.signedConstant v, bs)
  | 0x0a => do let (v, bs) ← rdU e 2 bs; pure (.unsignedConstant v, bs)
  | 0x0b => do let (v, bs) ← rdI e 2 bs; pure (.signedConstant v, bs)
  | 0x0c => do let (v, bs) ← rdU e 4 bs; pure (.unsignedConstant v, bs)
  | 0x0d => do let (v, bs) ← rdI e 4 bs; pure (.signedConstant v, bs)
  | 0x0e => do let (v, bs) ← rdU e 8 bs; pure (.unsignedConstant v, bs)
  | 0x0f => do let (v, bs) ← rdI e 8 bs; pure (.signedConstant v, bs)
  | 0x10 => do let (v, bs) ← Leb.unsigned bs; pure (.unsignedConstant v, bs)
  | 0x11 => do let (v, bs) ← Leb.signed bs; pure (.signedConstant v, bs)
  | 0x12 => .ok (.pick 0, bs)
  | 0x13 => .ok (.drop, bs)
  | 0x14 => .ok (.pick 1, bs)
  | 0x15 => do let (v, bs) ← rdU e 1 bs; pure (.pick v, bs)
  | 0x16 => .ok (.swap, bs)
  | 0x17 => .ok (.rot, bs)
  | 0x18 => .ok (.deref 0 enc.addressSize true, bs)
  | 0x19 => .ok (.abs, bs)
  | 0x1a => .ok (.and, bs)
  | 0x1b => .ok (.div, bs)
  | 0x1c => .ok (.minus, bs)
  | 0x1d => .ok (.mod, bs)
  | 0x1e => .ok (.mul, bs)
  | 0x1f => .ok (.neg, bs)
  | 0x20 => .ok (.not, bs)
  | 0x21 => .ok (.or, bs)
  | 0x22 => .ok (.plus, bs)
  | 0x23 => do let (v, bs) ← Leb.unsigned bs; pure (.plusConstant v, bs)
  | 0x24 => .ok (.shl, bs)
  | 0x25 => .ok (.shr, bs)
  | 0x26 => .ok (.shra, bs)
  | 0x27 => .ok (.xor, bs)
  | 0x28 => do let (t, bs) ← rdI e 2 bs; pure (.bra t, bs)
  | 0x29 => .ok (.eq, bs)
  | 0x2a => .ok (.ge, bs)
  | 0x2b => .ok (.gt, bs)
  | 0x2c => .ok (.le, bs)
  | 0x2d => .ok (.lt, bs)
  | 0x2e => .ok (.ne, bs)
  | 0x2f => do let (t, bs) ← rdI e 2 bs; pure (.skip t, bs)
  | 0x90 => do let (r, bs) ← rdRegister bs; pure (.register r, bs)
  | 0x91 => do let (v, bs) ← Leb.signed bs; pure (.frameOffset v, bs)
  | 0x92 => do
    let (r, bs) ← rdRegister bs
    let (o, bs) ← Leb.signed bs
    pure (.registerOffset r o 0, bs)
  | 0x93 => do
    let (size, bs) ← Leb.unsigned bs
    -- `size.checked_mul(8).ok_or(Error::InvalidPiece)` (the `fix:` for F1)
    if size * 8 < 2 ^ 64 then pure (.piece (size * 8) none, bs) else .err .rInvalidPiece
  | 0x94 => do let (s, bs) ← rdU e 1 bs; pure (.deref 0 s false, bs)
  | 0x95 => do let (s, bs) ← rdU e 1 bs; pure (.deref 0 s true, bs)
  | 0x96 => .ok (.nop, bs)
  | 0x97 => .ok (.pushObjectAddress, bs)
  | 0x98 => do let (v, bs) ← rdU e 2 bs; pure (.call (.unitRef v), bs)
  | 0x99 => do let (v, bs) ← rdU e 4 bs; pure (.call (.unitRef v), bs)
  | 0x9a => do let (v, bs) ← rdOffset e enc.format bs; pure (.call (.debugInfoRef v), bs)
  | 0xfd => do let (v, bs) ← rdOffset e enc.format bs; pure (.variableValue v, bs)
  | 0x9b | 0xe0 => .ok (.tls, bs)
  | 0x9c => .ok (.callFrameCFA, bs)
  | 0x9d => do
    let (size, bs) ← Leb.unsigned bs
    let (off, bs) ← Leb.unsigned bs
    pure (.piece size (some off), bs)
  | 0x9e => do
    let (len, bs) ← Leb.unsigned bs
    let (data, bs) ← split len bs
    pure (.implicitValue data, bs)
  | 0x9f => .ok (.stackValue, bs)
  | 0xa0 | 0xf2 => do
    let (value, bs) ←
      if enc.version = 2 then Ints.readAddress e enc.addressSize bs else rdOffset e enc.format bs
    let (off, bs) ← Leb.signed bs
    pure (.implicitPointer value off, bs)
  | 0xa1 | 0xfb => do let (i, bs) ← Leb.unsigned bs; pure (.addressIndex i, bs)
  | 0xa2 | 0xfc => do let (i, bs) ← Leb.unsigned bs; pure (.constantIndex i, bs)
  | 0xa3 | 0xf3 => do
    let (len, bs) ← Leb.unsigned bs
    let (expr, bs) ← split len bs
    pure (.entryValue expr, bs)
  | 0xfa => do let (v, bs) ← rdU e 4 bs; pure (.parameterRef v, bs)
  | 0xa4 | 0xf4 => do
    let (bt, bs) ← Leb.unsigned bs
    let (len, bs) ← rdU e 1 bs
    let (value, bs) ← split len bs
    pure (.typedLiteral bt value, bs)
  | 0xa5 | 0xf5 => do
    let (r, bs) ← rdRegister bs
    let (bt, bs) ← Leb.unsigned bs
    pure (.registerOffset r 0 bt, bs)
  | 0xa6 | 0xf6 => do
    let (s, bs) ← rdU e 1 bs
    let (bt, bs) ← Leb.unsigned bs
    pure (.deref bt s false, bs)
  | 0xa7 => do
    let (s, bs) ← rdU e 1 bs
    let (bt, bs) ← Leb.unsigned bs
    pure (.deref bt s true, bs)
  | 0xa8 | 0xf7 => do let (bt, bs) ← Leb.unsigned bs; pure (.convert bt, bs)
  | 0xa9 | 0xf9 => do let (bt, bs) ← Leb.unsigned bs; pure (.reinterpret bt, bs)
  | 0xf0 => .ok (.uninitialized, bs)
  | 0xed => do
    let (k, bs) ← rdU e 1 bs
    match k with
    | 0 => do let (i, bs) ← Ints.readUlebU32 bs; pure (.wasmLocal i, bs)
    | 1 => do let (i, bs) ← Ints.readUlebU32 bs; pure (.wasmGlobal i, bs)
    | 2 => do let (i, bs) ← Ints.readUlebU32 bs; pure (.wasmStack i, bs)
    | 3 => do let (i, bs) ← rdU e 4 bs; pure (.wasmGlobal i, bs)
    | _ => .err .rInvalidExpression
  | _ => .err .rInvalidExpression

/-- `Operation::parse(bytes, encoding)`: the operation and the bytes that remain -/
def parse (e : Endian) (enc : Encoding) (bs : Bytes) : Out (Operation × Bytes) :=
  match bs with
  | [] => .err .rUnexpectedEof
  | b :: rest => parseOperands e enc b.toNat rest

/-- `OperationIter::next`: `none` at the end; on error the iterator empties itself
(the returned iterator state is the remaining input) -/
def iterNext (e : Endian) (enc : Encoding) (input : Bytes) : Out (Option Operation) × Bytes :=
  match input with
  | [] => (.ok none, [])
  | _ =>
    match parse e enc input with
    | .ok (op, rest) => (.ok (some op), rest)
    | .err er => (.err er, [])
    | .panic w => (.panic w, [])
    | .diverge => (.diverge, [])

/-- all operations of an expression with the offset at which each ends (`OperationIter` driven to
the end); an error ends the list (and is returned) -/
def iterAll (e : Endian) (enc : Encoding) (len : Nat) : Nat → Bytes → List (Operation × Nat) × Option Err
  | 0, _ => ([], none)
  | fuel + 1, input =>
    match input with
    | [] => ([], none)
    | _ =>
      match parse e enc input with
      | .ok (op, rest) =>
        let (ops, er) := iterAll e enc len fuel rest
        ((op, len - rest.length) :: ops, er)
      | .err er => ([], some er)
      | _ => ([], some .other)

/-! ## canonical text -/

def optS : Option Nat → String
  | none => "-"
  | some n => toString n

/-- one token per operation: `name(field,field,…)` with decimal numbers and hex bytes -/
def Operation.render : Operation → String
  | .deref bt s sp => s!"deref({bt},{s},{if sp then 1 else 0})"
  | .drop => "drop" | .pick i => s!"pick({i})" | .swap => "swap" | .rot => "rot"
  | .abs => "abs" | .and => "and" | .div => "div" | .minus => "minus" | .mod => "mod" | .mul => "mul"
  | .neg => "neg" | .not => "not" | .or => "or" | .plus => "plus"
  | .plusConstant v => s!"plus_uconst({v})"
  | .shl => "shl" | .shr => "shr" | .shra => "shra" | .xor => "xor"
  | .bra t => s!"bra({t})"
  | .eq => "eq" | .ge => "ge" | .gt => "gt" | .le => "le" | .lt => "lt" | .ne => "ne"
  | .skip t => s!"skip({t})"
  | .unsignedConstant v => s!"uconst({v})"
  | .signedConstant v => s!"sconst({v})"
  | .register r => s!"reg({r})"
  | .registerOffset r o bt => s!"breg({r},{o},{bt})"
  | .frameOffset o => s!"fbreg({o})"
  | .nop => "nop"
  | .pushObjectAddress => "push_object_address"
  | .call (.unitRef o) => s!"call_unit({o})"
  | .call (.debugInfoRef o) => s!"call_info({o})"
  | .variableValue o => s!"variable_value({o})"
  | .tls => "tls"
  | .callFrameCFA => "cfa"
  | .piece s o => s!"piece({s},{optS o})"
  | .implicitValue d => s!"implicit_value({toHex d})"
  | .stackValue => "stack_value"
  | .implicitPointer v o => s!"implicit_pointer({v},{o})"
  | .entryValue x => s!"entry_value({toHex x})"
  | .parameterRef o => s!"parameter_ref({o})"
  | .address a => s!"addr({a})"
  | .addressIndex i => s!"addrx({i})"
  | .constantIndex i => s!"constx({i})"
  | .typedLiteral bt v => s!"const_type({bt},{toHex v})"
  | .convert bt => s!"convert({bt})"
  | .reinterpret bt => s!"reinterpret({bt})"
  | .uninitialized => "uninit"
  | .wasmLocal i => s!"wasm_local({i})"
  | .wasmGlobal i => s!"wasm_global({i})"
  | .wasmStack i => s!"wasm_stack({i})"

end Gimli.Op
