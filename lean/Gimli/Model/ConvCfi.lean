import Gimli.Prim.Basic
/-!
# Model of the arithmetic of `write::FrameTable::from` and of the CFI writer
(`src/write/cfi.rs`, HEAD of /repo, i.e. with the `fix:` commits for checked conversions)

Reader side meaning (src/read/cfi.rs `UnwindTable::evaluate`): a factored operand `f` under data
alignment factor `daf` means the offset `f * daf` (wrapping i64 multiplication); an advance
`delta` under code alignment factor `caf` moves the location by `delta * caf`.
-/
namespace Gimli.ConvCfi

def i64Min : Int := -(2 : Int) ^ 63
def i64Max : Int := 2 ^ 63 - 1
def inI64 (x : Int) : Prop := i64Min ≤ x ∧ x ≤ i64Max
def inI32 (x : Int) : Prop := -(2 : Int) ^ 31 ≤ x ∧ x < 2 ^ 31
instance (x : Int) : Decidable (inI64 x) := by unfold inI64; infer_instance
instance (x : Int) : Decidable (inI32 x) := by unfold inI32; infer_instance

/-- `narrow::<u64, u8>` -/
def narrowU8 (v : Nat) : Out Nat := if v < 256 then .ok v else .err .wValueTooLarge
/-- `narrow::<i64, i8>` -/
def narrowI8 (v : Int) : Out Int := if -128 ≤ v ∧ v < 128 then .ok v else .err .wValueTooLarge
/-- `narrow::<u64, u32>` -/
def narrowU32 (v : Nat) : Out Nat := if v < 2 ^ 32 then .ok v else .err .wValueTooLarge
/-- `narrow::<i64, i32>` -/
def narrowI32 (v : Int) : Out Int := if inI32 v then .ok v else .err .wValueTooLarge

/-- the closure `data_offset` of `CallFrameInstruction::from`: `checked_mul` then narrow to i32 -/
def dataOffset (daf f : Int) : Out Int :=
  if inI64 (f * daf) then narrowI32 (f * daf) else .err .wValueTooLarge

/-- `AdvanceLoc`: `offset + delta * caf` with the factor narrowed to u32 and checked arithmetic -/
def advance (caf : Nat) (offset delta : Nat) : Out Nat := do
  let factor ← narrowU32 caf
  if delta * factor < 2 ^ 32 ∧ offset + delta * factor < 2 ^ 32 then .ok (offset + delta * factor)
  else .err .wValueTooLarge

/-- `factored_data_offset(offset: i32, factor: i8)` of the writer: `checked_div`, exactness test.
Rust's `/` on integers truncates toward zero: `Int.tdiv`. -/
def factoredDataOffset (offset factor : Int) : Out Int :=
  if factor = 0 ∨ (offset = -(2 : Int) ^ 31 ∧ factor = -1) then .err .wInvalidFrameDataOffset
  else if offset ≠ (Int.tdiv offset factor) * factor then .err .wInvalidFrameDataOffset
  else .ok (Int.tdiv offset factor)

/-- `factored_code_delta(prev_offset, offset, factor: u8)` -/
def factoredCodeDelta (prev offset factor : Nat) : Out Nat :=
  if offset < prev then .err .wInvalidFrameCodeOffset
  else if factor = 0 then .err .wInvalidFrameCodeOffset
  else if offset - prev ≠ (offset - prev) / factor * factor then .err .wInvalidFrameCodeOffset
  else .ok ((offset - prev) / factor)

end Gimli.ConvCfi
