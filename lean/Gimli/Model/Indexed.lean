import Gimli.Model.Names
/-!
# Model of `DebugStrOffsets::get_str_offset` (`src/read/str.rs`), `DebugAddr::get_address`
(`src/read/addr.rs`) and of the string/address form dispatch `Dwarf::attr_string`,
`Dwarf::attr_address` (`src/read/dwarf.rs`).
-/
namespace Gimli.Indexed
open Gimli Gimli.Ints
open Gimli.Names (skipTo getStr)

/-- `DebugStrOffsets::get_str_offset(format, base, index)`; `index` is a `usize`, the product
is `checked_mul` in `u64` (HEAD: `fix: overflow in indexed offset and address table lookups`) -/
def getStrOffset (e : Endian) (f : Format) (sec : Bytes) (base index : Nat) : Out Nat := do
  let r ← skipTo sec base
  if index * f.wordSize ≥ 2 ^ 64 then .err .rUnsupportedOffset else do
  let r ← skipTo r (index * f.wordSize)
  let (v, _) ← readWord e 64 f r
  pure v

/-- `DebugAddr::get_address(address_size, base, index)` -/
def getAddress (e : Endian) (addressSize : Nat) (sec : Bytes) (base index : Nat) : Out Nat := do
  let r ← skipTo sec base
  if index * addressSize ≥ 2 ^ 64 then .err .rUnsupportedOffset else do
  let r ← skipTo r (index * addressSize)
  let (v, _) ← readAddress e addressSize r
  pure v

/-- the `AttributeValue` variants the two dispatchers distinguish -/
inductive AttrVal where
  | string (s : Bytes)
  | debugStrRef (off : Nat)
  | debugStrRefSup (off : Nat)
  | debugLineStrRef (off : Nat)
  | debugStrOffsetsIndex (index : Nat)
  | addr (a : Nat)
  | debugAddrIndex (index : Nat)
  | other
  deriving Repr, DecidableEq

/-- the sections and unit parameters the dispatchers use -/
structure Ctx where
  endian : Endian
  format : Format
  addressSize : Nat
  strOffsetsBase : Nat
  addrBase : Nat
  debugStr : Bytes
  debugLineStr : Bytes
  debugStrOffsets : Bytes
  debugAddr : Bytes
  supDebugStr : Option Bytes

/-- `Dwarf::attr_string` -/
def attrString (c : Ctx) : AttrVal → Out Bytes
  | .string s => .ok s
  | .debugStrRef off => getStr c.debugStr off
  | .debugStrRefSup off =>
    match c.supDebugStr with
    | some s => getStr s off
    | none => .err .rExpectedStringAttributeValue
  | .debugLineStrRef off => getStr c.debugLineStr off
  | .debugStrOffsetsIndex index => do
    let off ← getStrOffset c.endian c.format c.debugStrOffsets c.strOffsetsBase index
    getStr c.debugStr off
  | _ => .err .rExpectedStringAttributeValue

/-- `Dwarf::attr_address` -/
def attrAddress (c : Ctx) : AttrVal → Out (Option Nat)
  | .addr a => .ok (some a)
  | .debugAddrIndex index => (getAddress c.endian c.addressSize c.debugAddr c.addrBase index).map some
  | _ => .ok none

end Gimli.Indexed
