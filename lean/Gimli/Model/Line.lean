import Gimli.Model.Ints
/-!
# Model of `src/read/line.rs` (the reader side of `.debug_line`)

Mirrors, path by path:

* `LineInstruction::parse`            → `parseInstr`
* `LineRow::{new, reset, apply_line_advance, apply_operation_advance, adjust_opcode,
  exec_special_opcode, execute}`      → `Row.new`, `reset`, `applyLineAdvance`,
                                         `applyOperationAdvance`, `execSpecial`, `execute`
* `ReaderAddress::{add_sized, ones_sized, min_tombstone}` → `addSized`, `onesSized`, `minTombstone`
* the loop of `LineRows::next_row`, called until it returns `Ok(None)` → `runLoop` / `run`
  (every value a caller sees: rows *and* errors, because an `execute` error does not end the
  iteration — only a parse error empties the input)
* `IncompleteLineProgram::sequences` + `LineInstructions::remove_trailing` → `seqLoop` / `sequences`
* `CompleteLineProgram::resume_from` + rows → `resume`
* `LineProgramHeader::parse`, `FileEntryFormat::parse`, `parse_directory_v5`, `parse_file_v5`,
  the line variant of `parse_attribute`, `FileEntry::parse` → `parseHeader` and friends
* `LineProgramHeader::{file, directory}` → `Header.file`, `Header.directory`

Machine integers are `Nat` with explicit `% 2^64` where the Rust code uses `Wrapping<u64>`.
`usize` is 64 bits (so `R::Offset::from_u64` never fails). The address size is one of 1, 2, 4, 8
(it comes from a unit header or from `read_address_size`, both of which validate it).
-/
namespace Gimli.Line
open Gimli

/-- `constants::DW_FORM_*` → `AttributeValue` variants produced by the line variant of
`parse_attribute` -/
inductive AttrVal where
  | block (b : Bytes)
  | data1 (n : Nat)
  | data2 (n : Nat)
  | data4 (n : Nat)
  | data8 (n : Nat)
  | udata (n : Nat)
  | sdata (i : Int)
  | flag (b : Bool)
  | secOffset (n : Nat)
  | string (b : Bytes)
  | strp (n : Nat)
  | strpSup (n : Nat)
  | lineStrp (n : Nat)
  | strx (n : Nat)
  deriving DecidableEq, Repr

/-- `FileEntry` -/
structure FileEntry where
  path : AttrVal
  dirIndex : Nat
  timestamp : Nat
  size : Nat
  md5 : Bytes
  source : Option AttrVal
  deriving DecidableEq, Repr

/-- what `LineRow::execute` and `LineInstruction::parse` need from `LineProgramHeader`
(`encoding`, `line_encoding`, `opcode_base`, `standard_opcode_lengths`) plus the reader's
endianity -/
structure Params where
  endian : Endian
  format : Format
  version : Nat
  addrSize : Nat
  minInstLen : Nat
  maxOps : Nat
  defaultIsStmt : Bool
  lineBase : Int
  lineRange : Nat
  opcodeBase : Nat
  stdLens : Bytes
  deriving DecidableEq, Repr

/-- what `LineProgramHeader::parse` guarantees about the parameters (see
`Props.C04.parseHeader_valid`), with the address size restricted to the supported ones -/
def Params.Valid (h : Params) : Prop :=
  2 ≤ h.version ∧ h.version ≤ 5 ∧
  (h.addrSize = 1 ∨ h.addrSize = 2 ∨ h.addrSize = 4 ∨ h.addrSize = 8) ∧
  1 ≤ h.minInstLen ∧ h.minInstLen ≤ 255 ∧ 1 ≤ h.maxOps ∧ h.maxOps ≤ 255 ∧
  -128 ≤ h.lineBase ∧ h.lineBase ≤ 127 ∧ 1 ≤ h.lineRange ∧ h.lineRange ≤ 255 ∧
  1 ≤ h.opcodeBase ∧ h.opcodeBase ≤ 255 ∧ h.stdLens.length = h.opcodeBase - 1 ∧
  (h.version ≤ 3 → h.maxOps = 1)

instance (h : Params) : Decidable h.Valid := by unfold Params.Valid; infer_instance

/-- `LineInstruction` -/
inductive Instr where
  | special (opcode : Nat)
  | copy
  | advancePc (n : Nat)
  | advanceLine (i : Int)
  | setFile (n : Nat)
  | setColumn (n : Nat)
  | negateStatement
  | setBasicBlock
  | constAddPc
  | fixedAddPc (n : Nat)
  | setPrologueEnd
  | setEpilogueBegin
  | setIsa (n : Nat)
  | unknownStandard0 (opcode : Nat)
  | unknownStandard1 (opcode : Nat) (arg : Nat)
  | unknownStandardN (opcode : Nat) (args : Bytes)
  | endSequence
  | setAddress (a : Nat)
  | defineFile (f : FileEntry)
  | setDiscriminator (n : Nat)
  | unknownExtended (opcode : Nat) (data : Bytes)
  deriving DecidableEq, Repr

/-! ## instruction decoding -/

/-- `Reader::read_null_terminated_slice`: (bytes before the first NUL, bytes after it) -/
def readCStr : Bytes → Out (Bytes × Bytes)
  | [] => .err .rUnexpectedEof
  | b :: rest =>
    if b = 0 then .ok ([], rest)
    else match readCStr rest with
      | .ok (s, r) => .ok (b :: s, r)
      | .err e => .err e
      | .panic w => .panic w
      | .diverge => .diverge

/-- `FileEntry::parse` (versions 2–4) -/
def parseFileEntryV4 (path : Bytes) (bs : Bytes) : Out (FileEntry × Bytes) := do
  let (dirIndex, bs) ← Leb.unsigned bs
  let (timestamp, bs) ← Leb.unsigned bs
  let (size, bs) ← Leb.unsigned bs
  pure ({ path := .string path, dirIndex, timestamp, size,
          md5 := List.replicate 16 0, source := none }, bs)

/-- the `for _ in 0..num_args { input.read_uleb128()?; }` loop of the unknown-standard-opcode arm -/
def skipUlebs : Nat → Bytes → Out Bytes
  | 0, bs => .ok bs
  | n + 1, bs =>
    match Leb.unsigned bs with
    | .ok (_, rest) => skipUlebs n rest
    | .err e => .err e
    | .panic w => .panic w
    | .diverge => .diverge

/-- the extended-opcode arm of `LineInstruction::parse`, after `input.split(length)`:
`ext` is `instr_rest`. Whatever is left of `ext` after the operand is dropped. -/
def parseExtended (h : Params) (ext : Bytes) : Out Instr :=
  match ext with
  | [] => .err .rUnexpectedEof
  | sub :: ext =>
    let sub := sub.toNat
    if sub = 1 then .ok .endSequence
    else if sub = 2 then do
      let (a, _) ← Ints.readAddress h.endian h.addrSize ext
      pure (.setAddress a)
    else if sub = 3 then
      if h.version ≤ 4 then do
        let (path, ext) ← readCStr ext
        let (f, _) ← parseFileEntryV4 path ext
        pure (.defineFile f)
      else .ok (.unknownExtended 3 ext)
    else if sub = 4 then do
      let (d, _) ← Leb.unsigned ext
      pure (.setDiscriminator d)
    else .ok (.unknownExtended sub ext)

/-- `result.map(|v| Instruction(v))` on a reader result: the value of a successful read becomes
the instruction's operand, the rest of the input is passed on -/
def mapRead {α β : Type} (g : α → β) : Out (α × Bytes) → Out (β × Bytes)
  | .ok (v, rest) => .ok (g v, rest)
  | .err e => .err e
  | .panic w => .panic w
  | .diverge => .diverge

/-- the standard-opcode arm (`0 < opcode < opcode_base`) -/
def parseStandard (h : Params) (opcode : Nat) (input : Bytes) : Out (Instr × Bytes) :=
  if opcode = 1 then .ok (.copy, input)
  else if opcode = 2 then mapRead .advancePc (Leb.unsigned input)
  else if opcode = 3 then mapRead .advanceLine (Leb.signed input)
  else if opcode = 4 then mapRead .setFile (Leb.unsigned input)
  else if opcode = 5 then mapRead .setColumn (Leb.unsigned input)
  else if opcode = 6 then .ok (.negateStatement, input)
  else if opcode = 7 then .ok (.setBasicBlock, input)
  else if opcode = 8 then .ok (.constAddPc, input)
  else if opcode = 9 then mapRead .fixedAddPc (Ints.readFixed h.endian 2 input)
  else if opcode = 10 then .ok (.setPrologueEnd, input)
  else if opcode = 11 then .ok (.setEpilogueBegin, input)
  else if opcode = 12 then mapRead .setIsa (Leb.unsigned input)
  else
    -- `opcode_lengths.skip(opcode - 1)?; opcode_lengths.read_u8()?`
    match h.stdLens.drop (opcode - 1) with
    | [] => .err .rUnexpectedEof
    | n :: _ =>
      let numArgs := n.toNat
      if numArgs = 0 then .ok (.unknownStandard0 opcode, input)
      else if numArgs = 1 then mapRead (.unknownStandard1 opcode) (Leb.unsigned input)
      else
        -- `args = input.clone(); for _ in 0..num_args { input.read_uleb128()? }; args.truncate(..)`
        match skipUlebs numArgs input with
        | .ok rest => .ok (.unknownStandardN opcode (input.take (input.length - rest.length)), rest)
        | .err e => .err e
        | .panic w => .panic w
        | .diverge => .diverge

/-- `LineInstruction::parse` -/
def parseInstr (h : Params) (input : Bytes) : Out (Instr × Bytes) :=
  match input with
  | [] => .err .rUnexpectedEof
  | opb :: input =>
    let opcode := opb.toNat
    if opcode = 0 then
      -- `length = read_uleb128()?; instr_rest = input.split(length)?`
      match Leb.unsigned input with
      | .ok (length, input) =>
        match Ints.take length input with
        | .ok (ext, input) =>
          match parseExtended h ext with
          | .ok i => .ok (i, input)
          | .err e => .err e
          | .panic w => .panic w
          | .diverge => .diverge
        | .err e => .err e
        | .panic w => .panic w
        | .diverge => .diverge
      | .err e => .err e
      | .panic w => .panic w
      | .diverge => .diverge
    else if opcode ≥ h.opcodeBase then .ok (.special opcode, input)
    else parseStandard h opcode input

/-! ## the state machine registers -/

/-- `LineRow` -/
structure Row where
  tombstone : Bool
  address : Nat
  opIndex : Nat
  file : Nat
  line : Nat
  column : Nat
  isStmt : Bool
  basicBlock : Bool
  endSequence : Bool
  prologueEnd : Bool
  epilogueBegin : Bool
  isa : Nat
  discriminator : Nat
  deriving DecidableEq, Repr

/-- `LineRow::new` -/
def Row.new (h : Params) : Row :=
  { tombstone := false, address := 0, opIndex := 0, file := 1, line := 1, column := 0,
    isStmt := h.defaultIsStmt, basicBlock := false, endSequence := false, prologueEnd := false,
    epilogueBegin := false, isa := 0, discriminator := 0 }

/-- `LineRow::reset` -/
def reset (h : Params) (row : Row) : Row :=
  if row.endSequence then Row.new h
  else { row with discriminator := 0, basicBlock := false, prologueEnd := false,
                  epilogueBegin := false }

/-- `u64::ones_sized(size)` = `!0 >> (64 - size * 8)` for `size` in 1..8 -/
def onesSized (size : Nat) : Nat := 2 ^ (8 * size) - 1

/-- `u64::add_sized`: checked add, then `address & !mask != 0` is an overflow -/
def addSized (address length size : Nat) : Option Nat :=
  if address + length < 2 ^ 64 then
    if address + length ≤ onesSized size then some (address + length) else none
  else none

/-- `u64::min_tombstone(size)` = `0.wrapping_add_sized(-2i64 as u64, size)` -/
def minTombstone (size : Nat) : Nat := (2 ^ 64 - 2) % 2 ^ (8 * size)

/-- `LineRow::apply_line_advance` (as fixed: `unsigned_abs`) -/
def applyLineAdvance (row : Row) (inc : Int) : Row :=
  if inc < 0 then
    let decrement := inc.natAbs
    if decrement ≤ row.line then { row with line := row.line - decrement }
    else { row with line := 0 }
  else { row with line := (row.line + inc.toNat) % 2 ^ 64 }

/-- the arithmetic of `LineRow::apply_operation_advance` on `Wrapping<u64>`:
(new `op_index`, `address_advance`) -/
def operationPointer (h : Params) (opIndex adv : Nat) : Nat × Nat :=
  if h.maxOps = 1 then (0, (h.minInstLen * adv) % 2 ^ 64)
  else
    let withAdvance := (opIndex + adv) % 2 ^ 64
    (withAdvance % h.maxOps, (h.minInstLen * (withAdvance / h.maxOps)) % 2 ^ 64)

/-- `LineRow::apply_operation_advance`. The registers are updated in the Rust order, so on
`AddressOverflow` the already-written `op_index` stays (the iteration can go on after it). -/
def applyOperationAdvance (h : Params) (row : Row) (adv : Nat) : Row × Option Err :=
  if row.tombstone then (row, none)
  else
    let op := operationPointer h row.opIndex adv
    match addSized row.address op.2 h.addrSize with
    | some a => ({ row with opIndex := op.1, address := a }, none)
    | none => ({ row with opIndex := op.1 }, some .rAddressOverflow)

/-- `LineRow::adjust_opcode` (`u8` subtraction; never underflows on the paths that reach it) -/
def adjustOpcode (h : Params) (opcode : Nat) : Nat := opcode - h.opcodeBase

/-- `LineRow::exec_special_opcode` -/
def execSpecial (h : Params) (row : Row) (opcode : Nat) : Row × Option Err :=
  let adjusted := adjustOpcode h opcode
  let lineAdvance := adjusted % h.lineRange
  let operationAdvance := adjusted / h.lineRange
  let row := applyLineAdvance row (h.lineBase + (lineAdvance : Int))
  applyOperationAdvance h row operationAdvance

/-- result of `LineRow::execute`: `Ok(true)`, `Ok(false)`, `Err(e)` -/
inductive Exec where
  | emit
  | noEmit
  | err (e : Err)
  deriving DecidableEq, Repr

def Exec.ofAdv : Option Err → Exec → Exec
  | some e, _ => .err e
  | none, x => x

/-- `LineRow::execute` (the file table side effect of `DefineFile` is `definedFiles`) -/
def execute (h : Params) (row : Row) : Instr → Row × Exec
  | .special opcode =>
    let (row, e) := execSpecial h row opcode
    (row, Exec.ofAdv e .emit)
  | .copy => (row, .emit)
  | .advancePc n =>
    let (row, e) := applyOperationAdvance h row n
    (row, Exec.ofAdv e .noEmit)
  | .advanceLine i => (applyLineAdvance row i, .noEmit)
  | .setFile n => ({ row with file := n }, .noEmit)
  | .setColumn n => ({ row with column := n }, .noEmit)
  | .negateStatement => ({ row with isStmt := !row.isStmt }, .noEmit)
  | .setBasicBlock => ({ row with basicBlock := true }, .noEmit)
  | .constAddPc =>
    let adjusted := adjustOpcode h 255
    let (row, e) := applyOperationAdvance h row (adjusted / h.lineRange)
    (row, Exec.ofAdv e .noEmit)
  | .fixedAddPc n =>
    if row.tombstone then (row, .noEmit)
    else match addSized row.address n h.addrSize with
      | some a => ({ row with address := a, opIndex := 0 }, .noEmit)
      | none => (row, .err .rAddressOverflow)
  | .setPrologueEnd => ({ row with prologueEnd := true }, .noEmit)
  | .setEpilogueBegin => ({ row with epilogueBegin := true }, .noEmit)
  | .setIsa n => ({ row with isa := n }, .noEmit)
  | .endSequence => ({ row with endSequence := true }, .emit)
  | .setAddress a =>
    let tombstone := decide (a < row.address) || decide (a ≥ minTombstone h.addrSize)
    if tombstone then ({ row with tombstone := true }, .noEmit)
    else ({ row with tombstone := false, address := a, opIndex := 0 }, .noEmit)
  | .defineFile _ => (row, .noEmit)
  | .setDiscriminator n => ({ row with discriminator := n }, .noEmit)
  | .unknownStandard0 _ => (row, .noEmit)
  | .unknownStandard1 _ _ => (row, .noEmit)
  | .unknownStandardN _ _ => (row, .noEmit)
  | .unknownExtended _ _ => (row, .noEmit)

/-! ## running a program -/

/-- one step of the observable behaviour of `LineRows::next_row` called until `Ok(None)`:
`row`/`err` are the values the caller receives; `hidden` is a row that `next_row` computed and
swallowed because it was tombstoned (kept in the trace so that theorems can talk about it, dropped
by `run`); `stuck` never occurs (`Props.C04.run_total`): fuel exhaustion / a panic in the decoder -/
inductive Ev where
  | row (r : Row)
  | err (e : Err)
  | hidden (r : Row)
  | stuck
  deriving DecidableEq, Repr

def Ev.visible : Ev → Bool
  | .hidden _ => false
  | _ => true

/-- the test in `LineRows::next_row` that decides whether a computed row is swallowed (as fixed):
`self.row.tombstone && !(self.row.end_sequence && self.in_sequence)` — tombstoned rows are
skipped, but a sequence that has already returned rows still gets its end row -/
def skipRow (row : Row) (inSeq : Bool) : Bool :=
  row.tombstone && !(row.endSequence && inSeq)

/-- `LineRows::next_row` called until it returns `Ok(None)`, all results in order.
`row` is the register file *after* the `reset` that opens each `next_row` call, `inSeq` is
`self.in_sequence` ("a row has been returned for the current sequence").
* parse error: `Err(e)`, the input is emptied, so the next call returns `Ok(None)`;
* `execute` error: `Err(e)`, the next call resets and goes on with the following instruction;
* `Ok(true)` with a row to skip (`skipRow`): reset and loop, nothing is returned (`hidden`);
* `Ok(true)` otherwise: `in_sequence = !end_sequence`, the row is returned, the next call resets. -/
def traceLoop (h : Params) : Nat → Row → Bool → Bytes → List Ev
  | 0, _, _, _ => [.stuck]
  | fuel + 1, row, inSeq, input =>
    if input.isEmpty then []
    else match parseInstr h input with
      | .err e => [.err e]
      | .panic _ => [.stuck]
      | .diverge => [.stuck]
      | .ok (ins, rest) =>
        match execute h row ins with
        | (row, .err e) => .err e :: traceLoop h fuel (reset h row) inSeq rest
        | (row, .noEmit) => traceLoop h fuel row inSeq rest
        | (row, .emit) =>
          if skipRow row inSeq then .hidden row :: traceLoop h fuel (reset h row) inSeq rest
          else .row row :: traceLoop h fuel (reset h row) (!row.endSequence) rest

/-- the trace of a whole program from the initial registers -/
def trace (h : Params) (program : Bytes) : List Ev :=
  traceLoop h (program.length + 1) (reset h (Row.new h)) false program

/-- `LineRows::new(program)` (or `resume`) followed by `next_row` until `Ok(None)`: what the
caller sees -/
def run (h : Params) (program : Bytes) : List Ev :=
  (trace h program).filter Ev.visible

/-! ### the same, call by call (the API as the caller uses it; `Props.C04.next_row_iteration`
shows that it produces exactly `run`) -/

/-- result of one `LineRows::next_row` call -/
inductive Next where
  | row (r : Row)      -- `Ok(Some((header, &row)))`
  | none               -- `Ok(None)`
  | err (e : Err)      -- `Err(e)`
  | stuck
  deriving DecidableEq, Repr

/-- the `loop` inside `LineRows::next_row`; returns the result and the new `(self.row,
self.in_sequence, self.instructions.input)` -/
def nextRowLoop (h : Params) : Nat → Row → Bool → Bytes → Next × Row × Bool × Bytes
  | 0, row, inSeq, input => (.stuck, row, inSeq, input)
  | fuel + 1, row, inSeq, input =>
    if input.isEmpty then (.none, row, inSeq, input)
    else match parseInstr h input with
      | .err e => (.err e, row, inSeq, [])                 -- `self.input.empty()`
      | .panic _ => (.stuck, row, inSeq, input)
      | .diverge => (.stuck, row, inSeq, input)
      | .ok (ins, rest) =>
        match execute h row ins with
        | (row, .err e) => (.err e, row, inSeq, rest)
        | (row, .noEmit) => nextRowLoop h fuel row inSeq rest
        | (row, .emit) =>
          if skipRow row inSeq then nextRowLoop h fuel (reset h row) inSeq rest
          else (.row row, row, !row.endSequence, rest)

/-- `LineRows::next_row`: `self.row.reset(header)`, then the loop -/
def nextRow (h : Params) (row : Row) (inSeq : Bool) (input : Bytes) : Next × Row × Bool × Bytes :=
  nextRowLoop h (input.length + 1) (reset h row) inSeq input

/-- the caller's loop: `next_row()` until `Ok(None)`, everything it returned -/
def collect (h : Params) : Nat → Row → Bool → Bytes → List Ev
  | 0, _, _, _ => [.stuck]
  | fuel + 1, row, inSeq, input =>
    match nextRow h row inSeq input with
    | (.none, _, _, _) => []
    | (.stuck, _, _, _) => [.stuck]
    | (.row r, row, inSeq, input) => .row r :: collect h fuel row inSeq input
    | (.err e, row, inSeq, input) => .err e :: collect h fuel row inSeq input

/-- `LineInstructions::next_instruction` until `Ok(None)` (`header.instructions()`); the first
error ends the iteration (the input is emptied) -/
def decodeAll (h : Params) : Nat → Bytes → Out (List Instr)
  | 0, _ => .diverge
  | fuel + 1, input =>
    if input.isEmpty then .ok []
    else match parseInstr h input with
      | .ok (ins, rest) =>
        match decodeAll h fuel rest with
        | .ok is => .ok (ins :: is)
        | .err e => .err e
        | .panic w => .panic w
        | .diverge => .diverge
      | .err e => .err e
      | .panic w => .panic w
      | .diverge => .diverge

/-- the instructions decoded before the first error, and that error if any -/
def decodePrefix (h : Params) : Nat → Bytes → List Instr × Option Err
  | 0, _ => ([], none)
  | fuel + 1, input =>
    if input.isEmpty then ([], none)
    else match parseInstr h input with
      | .ok (ins, rest) =>
        let (is, e) := decodePrefix h fuel rest
        (ins :: is, e)
      | .err e => ([], some e)
      | _ => ([], none)

/-- files appended to the header's table by `DefineFile` while `run` executes
(`IncompleteLineProgram::add_file`) -/
def definedFiles (h : Params) : Nat → Bytes → List FileEntry
  | 0, _ => []
  | fuel + 1, input =>
    if input.isEmpty then []
    else match parseInstr h input with
      | .ok (.defineFile f, rest) => f :: definedFiles h fuel rest
      | .ok (_, rest) => definedFiles h fuel rest
      | _ => []

/-! ## sequences -/

/-- `LineSequence`: `instructions` is the byte range of the sequence -/
structure Seq where
  start : Nat
  «end» : Nat
  instructions : Bytes
  deriving DecidableEq, Repr

/-- the loop of `IncompleteLineProgram::sequences`, fused with `next_row`'s loop.
`inSeq` is `rows.in_sequence`, `seqInput` is `instructions` (the reader at the start of the
current sequence), `startAddr` is `sequence_start_addr`. Any error ends the whole call (`?`). -/
def seqLoop (h : Params) : Nat → Row → Bool → Bytes → Bytes → Option Nat → List Seq → Out (List Seq)
  | 0, _, _, _, _, _, _ => .diverge
  | fuel + 1, row, inSeq, input, seqInput, startAddr, acc =>
    if input.isEmpty then .ok acc.reverse
    else match parseInstr h input with
      | .err e => .err e
      | .panic w => .panic w
      | .diverge => .diverge
      | .ok (ins, rest) =>
        match execute h row ins with
        | (_, .err e) => .err e
        | (row, .noEmit) => seqLoop h fuel row inSeq rest seqInput startAddr acc
        | (row, .emit) =>
          if skipRow row inSeq then seqLoop h fuel (reset h row) inSeq rest seqInput startAddr acc
          else if row.endSequence then
            -- `instructions.remove_trailing(&rows.instructions)`
            -- `start: sequence_start_addr.unwrap_or(sequence_end_addr)` (as fixed)
            let s : Seq := { start := startAddr.getD row.address, «end» := row.address,
                             instructions := seqInput.take (seqInput.length - rest.length) }
            seqLoop h fuel (reset h row) false rest rest none (s :: acc)
          else
            let startAddr := match startAddr with
              | none => some row.address
              | some a => some a
            seqLoop h fuel (reset h row) true rest seqInput startAddr acc

/-- `IncompleteLineProgram::sequences` -/
def sequences (h : Params) (program : Bytes) : Out (List Seq) :=
  seqLoop h (program.length + 1) (reset h (Row.new h)) false program program none []

/-- `CompleteLineProgram::resume_from(sequence)` followed by `next_row` until `Ok(None)` -/
def resume (h : Params) (s : Seq) : List Ev := run h s.instructions

/-! ## header -/

/-- the line variant of `parse_attribute` (`form` is the `DW_FORM_*` number) -/
def parseAttribute (e : Endian) (format : Format) (form : Nat) (bs : Bytes) : Out (AttrVal × Bytes) :=
  if form = 0x0a then do          -- block1
    let (len, bs) ← Ints.readFixed e 1 bs
    let (b, bs) ← Ints.take len bs
    pure (.block b, bs)
  else if form = 0x03 then do     -- block2
    let (len, bs) ← Ints.readFixed e 2 bs
    let (b, bs) ← Ints.take len bs
    pure (.block b, bs)
  else if form = 0x04 then do     -- block4
    let (len, bs) ← Ints.readFixed e 4 bs
    let (b, bs) ← Ints.take len bs
    pure (.block b, bs)
  else if form = 0x09 then do     -- block
    let (len, bs) ← Leb.unsigned bs
    let (b, bs) ← Ints.take len bs
    pure (.block b, bs)
  else if form = 0x0b then do     -- data1
    let (v, bs) ← Ints.readFixed e 1 bs
    pure (.data1 v, bs)
  else if form = 0x05 then do     -- data2
    let (v, bs) ← Ints.readFixed e 2 bs
    pure (.data2 v, bs)
  else if form = 0x06 then do     -- data4
    let (v, bs) ← Ints.readFixed e 4 bs
    pure (.data4 v, bs)
  else if form = 0x07 then do     -- data8
    let (v, bs) ← Ints.readFixed e 8 bs
    pure (.data8 v, bs)
  else if form = 0x1e then do     -- data16
    let (b, bs) ← Ints.take 16 bs
    pure (.block b, bs)
  else if form = 0x0f then do     -- udata
    let (v, bs) ← Leb.unsigned bs
    pure (.udata v, bs)
  else if form = 0x0d then do     -- sdata
    let (v, bs) ← Leb.signed bs
    pure (.sdata v, bs)
  else if form = 0x0c then do     -- flag
    let (v, bs) ← Ints.readFixed e 1 bs
    pure (.flag (v != 0), bs)
  else if form = 0x17 then do     -- sec_offset
    let (v, bs) ← Ints.readWord e 64 format bs
    pure (.secOffset v, bs)
  else if form = 0x08 then do     -- string
    let (s, bs) ← readCStr bs
    pure (.string s, bs)
  else if form = 0x0e then do     -- strp
    let (v, bs) ← Ints.readWord e 64 format bs
    pure (.strp v, bs)
  else if form = 0x1d ∨ form = 0x1f21 then do   -- strp_sup, GNU_strp_alt
    let (v, bs) ← Ints.readWord e 64 format bs
    pure (.strpSup v, bs)
  else if form = 0x1f then do     -- line_strp
    let (v, bs) ← Ints.readWord e 64 format bs
    pure (.lineStrp v, bs)
  else if form = 0x1a ∨ form = 0x1f02 then do   -- strx, GNU_str_index
    let (v, bs) ← Leb.unsigned bs
    pure (.strx v, bs)
  else if form = 0x25 then do     -- strx1
    let (v, bs) ← Ints.readFixed e 1 bs
    pure (.strx v, bs)
  else if form = 0x26 then do     -- strx2
    let (v, bs) ← Ints.readFixed e 2 bs
    pure (.strx v, bs)
  else if form = 0x27 then do     -- strx3
    let (v, bs) ← Ints.readUint e 3 bs
    pure (.strx v, bs)
  else if form = 0x28 then do     -- strx4
    let (v, bs) ← Ints.readFixed e 4 bs
    pure (.strx v, bs)
  else .err .rUnknownForm

/-- `AttributeValue::udata_value` on the variants the line variant can produce -/
def AttrVal.udataValue : AttrVal → Option Nat
  | .data1 n => some n
  | .data2 n => some n
  | .data4 n => some n
  | .data8 n => some n
  | .udata n => some n
  | .sdata i => if i < 0 then none else some i.toNat
  | _ => none

/-- `FileEntryFormat`: (content type, form) -/
abbrev EntryFormat := Nat × Nat

/-- the loop of `FileEntryFormat::parse`; returns the formats and the number of `DW_LNCT_path` -/
def parseFormatLoop : Nat → Bytes → Out ((List EntryFormat × Nat) × Bytes)
  | 0, bs => .ok (([], 0), bs)
  | n + 1, bs => do
    let (ct, bs) ← Leb.unsigned bs
    let ct := if ct > 0xffff then 0xffff else ct
    let (form, bs) ← Leb.u16 bs
    let ((fs, paths), bs) ← parseFormatLoop n bs
    pure (((ct, form) :: fs, (if ct = 1 then 1 else 0) + paths), bs)

/-- `FileEntryFormat::parse` -/
def parseEntryFormat (bs : Bytes) : Out (List EntryFormat × Bytes) := do
  let (count, bs) ← Ints.readFixed .little 1 bs
  let ((fs, paths), bs) ← parseFormatLoop count bs
  if paths ≠ 1 then .err .rMissingFileEntryFormatPath else pure (fs, bs)

/-- `parse_directory_v5`: the last `DW_LNCT_path` value wins (there is exactly one) -/
def parseDirectoryV5 (e : Endian) (format : Format) :
    List EntryFormat → Option AttrVal → Bytes → Out (Option AttrVal × Bytes)
  | [], path, bs => .ok (path, bs)
  | (ct, form) :: fs, path, bs => do
    let (v, bs) ← parseAttribute e format form bs
    parseDirectoryV5 e format fs (if ct = 1 then some v else path) bs

/-- partially filled `FileEntry` of `parse_file_v5` -/
structure FileAcc where
  path : Option AttrVal := none
  dirIndex : Nat := 0
  timestamp : Nat := 0
  size : Nat := 0
  md5 : Bytes := List.replicate 16 0
  source : Option AttrVal := none

/-- the `match format.content_type { … }` of `parse_file_v5`: what one field does to the entry -/
def FileAcc.update (acc : FileAcc) (ct : Nat) (v : AttrVal) : FileAcc :=
  if ct = 1 then { acc with path := some v }
  else if ct = 2 then (match v.udataValue with | some n => { acc with dirIndex := n } | none => acc)
  else if ct = 3 then (match v.udataValue with | some n => { acc with timestamp := n } | none => acc)
  else if ct = 4 then (match v.udataValue with | some n => { acc with size := n } | none => acc)
  else if ct = 5 then
    (match v with
     | .block b => if b.length = 16 then { acc with md5 := b } else acc
     | _ => acc)
  else if ct = 0x2001 then { acc with source := some v }
  else acc

/-- `parse_file_v5` -/
def parseFileV5 (e : Endian) (format : Format) :
    List EntryFormat → FileAcc → Bytes → Out (FileAcc × Bytes)
  | [], acc, bs => .ok (acc, bs)
  | (ct, form) :: fs, acc, bs => do
    let (v, bs) ← parseAttribute e format form bs
    parseFileV5 e format fs (acc.update ct v) bs

/-- `for _ in 0..count { include_directories.push(parse_directory_v5(..)?) }` -/
def parseDirsV5 (e : Endian) (format : Format) (fmt : List EntryFormat) :
    Nat → Bytes → Out (List AttrVal × Bytes)
  | 0, bs => .ok ([], bs)
  | n + 1, bs => do
    let (p, bs) ← parseDirectoryV5 e format fmt none bs
    match p with
    | none => .panic "called `Option::unwrap()` on a `None` value"
    | some d =>
      let (ds, bs) ← parseDirsV5 e format fmt n bs
      pure (d :: ds, bs)

def parseFilesV5 (e : Endian) (format : Format) (fmt : List EntryFormat) :
    Nat → Bytes → Out (List FileEntry × Bytes)
  | 0, bs => .ok ([], bs)
  | n + 1, bs => do
    let (a, bs) ← parseFileV5 e format fmt {} bs
    match a.path with
    | none => .panic "called `Option::unwrap()` on a `None` value"
    | some p =>
      let f : FileEntry := { path := p, dirIndex := a.dirIndex, timestamp := a.timestamp,
                             size := a.size, md5 := a.md5, source := a.source }
      let (fs, bs) ← parseFilesV5 e format fmt n bs
      pure (f :: fs, bs)

/-- the `include_directories` loop for versions 2–4 (structural in the remaining bytes) -/
def parseDirsV4 : Nat → Bytes → Out (List AttrVal × Bytes)
  | 0, _ => .diverge
  | fuel + 1, bs => do
    let (d, bs) ← readCStr bs
    if d.isEmpty then pure ([], bs)
    else do
      let (ds, bs) ← parseDirsV4 fuel bs
      pure (.string d :: ds, bs)

/-- the `file_names` loop for versions 2–4 -/
def parseFilesV4 : Nat → Bytes → Out (List FileEntry × Bytes)
  | 0, _ => .diverge
  | fuel + 1, bs => do
    let (p, bs) ← readCStr bs
    if p.isEmpty then pure ([], bs)
    else do
      let (f, bs) ← parseFileEntryV4 p bs
      let (fs, bs) ← parseFilesV4 fuel bs
      pure (f :: fs, bs)

/-- `LineProgramHeader` -/
structure Header where
  p : Params
  unitLength : Nat
  headerLength : Nat
  dirFormat : List EntryFormat
  dirs : List AttrVal
  fileFormat : List EntryFormat
  files : List FileEntry
  program : Bytes
  compDir : Option Bytes
  compFile : Option FileEntry
  deriving DecidableEq, Repr

/-- `i8` reinterpretation of a byte -/
def toI8 (n : Nat) : Int := if n < 128 then n else (n : Int) - 256

/-- `LineProgramHeader::parse` (input already positioned at the header) -/
def parseHeader (e : Endian) (addressSize : Nat) (compDir compName : Option Bytes) (input : Bytes) :
    Out Header := do
  let ((unitLength, format), input) ← Ints.readInitialLength e 64 input
  let (rest, _) ← Ints.take unitLength input
  let (version, rest) ← Ints.readFixed e 2 rest
  if version < 2 ∨ version > 5 then .err .rUnknownVersion else
  let (addressSize, rest) ← (if version ≥ 5 then do
      let (a, rest) ← Ints.readAddressSize rest
      let (seg, rest) ← Ints.readFixed e 1 rest
      if seg ≠ 0 then .err .rUnsupportedSegmentSize else pure (a, rest)
    else pure (addressSize, rest) : Out (Nat × Bytes))
  let (headerLength, rest) ← Ints.readWord e 64 format rest
  let (rest, programBuf) ← Ints.take headerLength rest
  let (minInstLen, rest) ← Ints.readFixed e 1 rest
  if minInstLen = 0 then .err .rMinimumInstructionLengthZero else
  let (maxOps, rest) ← (if version ≥ 4 then Ints.readFixed e 1 rest else pure (1, rest) : Out (Nat × Bytes))
  if maxOps = 0 then .err .rMaximumOperationsPerInstructionZero else
  let (stmt, rest) ← Ints.readFixed e 1 rest
  let (lineBase, rest) ← Ints.readFixed e 1 rest
  let (lineRange, rest) ← Ints.readFixed e 1 rest
  if lineRange = 0 then .err .rLineRangeZero else
  let (opcodeBase, rest) ← Ints.readFixed e 1 rest
  if opcodeBase = 0 then .err .rOpcodeBaseZero else
  let (stdLens, rest) ← Ints.take (opcodeBase - 1) rest
  let p : Params := { endian := e, format, version, addrSize := addressSize, minInstLen, maxOps,
                      defaultIsStmt := stmt != 0, lineBase := toI8 lineBase, lineRange, opcodeBase,
                      stdLens }
  if version ≤ 4 then do
    let (dirs, rest) ← parseDirsV4 (rest.length + 1) rest
    let compFile : Option FileEntry := compName.map fun n =>
      { path := .string n, dirIndex := 0, timestamp := 0, size := 0,
        md5 := List.replicate 16 0, source := none }
    let (files, _) ← parseFilesV4 (rest.length + 1) rest
    pure { p, unitLength, headerLength, dirFormat := [], dirs, fileFormat := [], files,
           program := programBuf, compDir, compFile }
  else do
    let (dirFormat, rest) ← parseEntryFormat rest
    let (count, rest) ← Leb.unsigned rest
    let (dirs, rest) ← parseDirsV5 e format dirFormat count rest
    let (fileFormat, rest) ← parseEntryFormat rest
    let (count, rest) ← Leb.unsigned rest
    let (files, _) ← parseFilesV5 e format fileFormat count rest
    pure { p, unitLength, headerLength, dirFormat, dirs, fileFormat, files,
           program := programBuf, compDir := none, compFile := none }

/-- `DebugLine::program(offset, address_size, comp_dir, comp_name)` -/
def program (e : Endian) (section_ : Bytes) (offset addressSize : Nat) (compDir compName : Option Bytes) :
    Out Header :=
  if offset ≤ section_.length then parseHeader e addressSize compDir compName (section_.drop offset)
  else .err .rUnexpectedEof

/-- `LineProgramHeader::file` -/
def Header.file (h : Header) (file : Nat) : Option FileEntry :=
  if h.p.version ≤ 4 then
    if file = 0 then h.compFile else h.files[file - 1]?
  else h.files[file]?

/-- `LineProgramHeader::directory` -/
def Header.directory (h : Header) (dir : Nat) : Option AttrVal :=
  if h.p.version ≤ 4 then
    if dir = 0 then h.compDir.map .string else h.dirs[dir - 1]?
  else h.dirs[dir]?

end Gimli.Line
