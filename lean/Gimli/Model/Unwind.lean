import Gimli.Model.Cfi
/-!
# Model of the unwind machine (`src/read/cfi.rs`, `src/read/util.rs`)

`UnwindContext` / `UnwindTable` / `UnwindTableRow` / `RegisterRuleMap` / `ArrayVec`, as coded:

* a row is `start_address, end_address, saved_args_size, cfa, registers`;
* `RegisterRuleMap` is an association vector in insertion order with capacity `N`
  (`ArrayVec<S::Rules>`): `set` overwrites the first entry with that register or pushes
  (`TooManyRegisterRules` when full), `clear` deletes with `swap_remove`;
* the context is a stack of rows with capacity `R` (`ArrayVec<S::Stack>`), `initial_rule`
  (the 0/1-rule shortcut: `Some(None)`, `Some(Some(rule))`, or `None` = "the initial rules are the
  row saved at `stack[0]`") and `is_initialized`;
* `UnwindTable::next_row` / `evaluate` run over the decoded instructions.

The stack is kept **top first**: `stack.head` is `stack.last()` of the `ArrayVec`, and `stack[0]`
(the saved initial row) is the last element of the list.  Capacities are `Option Nat`
(`none` = a growable `Vec` storage).

No Mathlib import (the driver links this file).
-/
namespace Gimli.Unwind
open Gimli.Cfi

/-- capacity of an `ArrayVec` storage: `some n` for `[T; n]` / `Box<[T; n]>`, `none` for `Vec<T>` -/
abbrev Cap := Option Nat

/-- `try_push` / `try_insert` succeed on a vector of length `len` -/
def Cap.hasRoom (c : Cap) (len : Nat) : Bool :=
  match c with
  | none => true
  | some n => len < n

/-- wrap an integer to `i64` (two's complement) -/
def wrapI64 (x : Int) : Int := (x + 2 ^ 63) % 2 ^ 64 - 2 ^ 63

/-- `RegisterRule<T>` -/
inductive Rule where
  | undefined
  | sameValue
  | offset (n : Int)
  | valOffset (n : Int)
  | register (r : Reg)
  | expression (e : Bytes)
  | valExpression (e : Bytes)
  | architectural
  | constant (v : Nat)
  deriving DecidableEq, Repr, Inhabited

/-- `CfaRule<T>` -/
inductive CfaRule where
  | registerAndOffset (register : Reg) (offset : Int)
  | expression (e : Bytes)
  deriving DecidableEq, Repr, Inhabited

/-- the `ArrayVec<S::Rules>` of a `RegisterRuleMap`, in index order -/
abbrev Rules := List (Reg × Rule)

namespace Rules

/-- `RegisterRuleMap::get` -/
def get (m : Rules) (r : Reg) : Option Rule :=
  match m with
  | [] => none
  | (k, v) :: t => if k = r then some v else get t r

/-- the `for` loop of `RegisterRuleMap::set`: overwrite the first entry for `r` -/
def replaceFirst (m : Rules) (r : Reg) (rule : Rule) : Option Rules :=
  match m with
  | [] => none
  | (k, v) :: t =>
    if k = r then some ((k, rule) :: t)
    else match replaceFirst t r rule with
      | some t' => some ((k, v) :: t')
      | none => none

/-- `RegisterRuleMap::set` -/
def set (N : Cap) (m : Rules) (r : Reg) (rule : Rule) : Out Rules :=
  match replaceFirst m r rule with
  | some m' => .ok m'
  | none => if N.hasRoom m.length then .ok (m ++ [(r, rule)]) else .err .rTooManyRegisterRules

/-- index of the first entry for `r` (`iter().enumerate().find(..)`) -/
def indexOf (m : Rules) (r : Reg) : Option Nat :=
  match m with
  | [] => none
  | (k, _) :: t => if k = r then some 0 else (indexOf t r).map (· + 1)

/-- `ArrayVec::swap_remove(idx)`: swap with the last element, then `pop` -/
def swapRemove (m : Rules) (idx : Nat) : Rules :=
  match m.getLast? with
  | none => m
  | some last => (List.set m idx last).dropLast

/-- `RegisterRuleMap::clear` -/
def clear (m : Rules) (r : Reg) : Rules :=
  match indexOf m r with
  | some idx => swapRemove m idx
  | none => m

/-- `impl PartialEq for RegisterRuleMap` -/
def eq (a b : Rules) : Bool :=
  a.all (fun kv => decide (some kv.2 = get b kv.1)) && b.all (fun kv => decide (some kv.2 = get a kv.1))

end Rules

/-- `UnwindTableRow<T, S>` -/
structure Row where
  startAddress : Nat := 0
  endAddress : Nat := 0
  savedArgsSize : Nat := 0
  cfa : CfaRule := .registerAndOffset 0 0
  rules : Rules := []
  deriving DecidableEq, Repr, Inhabited

/-- `UnwindContext<T, S>`; `stack` is top first -/
structure Ctx where
  stack : List Row
  initialRule : Option (Option (Reg × Rule))
  isInitialized : Bool
  deriving Repr, Inhabited

/-- unwinding configuration: what `UnwindTable::new_for_cie/new_for_fde` copy out of the CIE, plus
the storage capacities and the arithmetic mode -/
structure Cfg where
  mode : Mode := .release
  /-- `code_alignment_factor` (`u64`) -/
  codeAlign : Nat
  /-- `data_alignment_factor` (`i64`) -/
  dataAlign : Int
  addressSize : Nat
  /-- capacity of `S::Stack` -/
  R : Cap := some 4
  /-- capacity of `S::Rules` -/
  N : Cap := some 192
  deriving Repr, Inhabited

/-- `UnwindContext::new_in` / `reset`: `stack.clear(); stack.try_push(default).unwrap()` -/
def reset (R : Cap) : Out Ctx :=
  if R.hasRoom 0 then .ok { stack := [{}], initialRule := none, isInitialized := false }
  else .panic "called `Result::unwrap()` on an `Err` value: CapacityFull"

/-- `row_mut()` followed by a field update (`stack.last_mut().unwrap()`) -/
def Ctx.modifyTop (c : Ctx) (f : Row → Row) : Out Ctx :=
  match c.stack with
  | [] => .panic "called `Option::unwrap()` on a `None` value"
  | top :: below => .ok { c with stack := f top :: below }

/-- `row()` -/
def Ctx.top (c : Ctx) : Out Row :=
  match c.stack with
  | [] => .panic "called `Option::unwrap()` on a `None` value"
  | top :: _ => .ok top

/-- `set_register_rule` -/
def Ctx.setRule (N : Cap) (c : Ctx) (r : Reg) (rule : Rule) : Out Ctx :=
  match c.stack with
  | [] => .panic "called `Option::unwrap()` on a `None` value"
  | top :: below => do
    let rules ← Rules.set N top.rules r rule
    pure { c with stack := { top with rules := rules } :: below }

/-- `clear_register_rule` -/
def Ctx.clearRule (c : Ctx) (r : Reg) : Out Ctx :=
  c.modifyTop (fun top => { top with rules := Rules.clear top.rules r })

/-- `get_initial_rule`: `none` while the CIE's initial instructions are being evaluated,
`some none` for the default rule -/
def Ctx.getInitialRule (c : Ctx) (r : Reg) : Out (Option (Option Rule)) :=
  if !c.isInitialized then .ok none
  else match c.initialRule with
    | none =>
      -- `self.stack[0]`
      match c.stack.getLast? with
      | some row => .ok (some (Rules.get row.rules r))
      | none => .panic "index out of bounds: the len is 0 but the index is 0"
    | some (some (r', rule)) => if r' = r then .ok (some (some rule)) else .ok (some none)
    | some none => .ok (some none)

/-- `save_initial_rules` -/
def saveInitialRules (R : Cap) (c : Ctx) : Out Ctx :=
  match c.stack with
  | [] => .panic "called `Option::unwrap()` on a `None` value"
  | top :: _ =>
    match top.rules with
    | [] => .ok { c with initialRule := some none, isInitialized := true }
    | [rule] => .ok { c with initialRule := some (some rule), isInitialized := true }
    | _ =>
      -- `self.stack.try_insert(0, rules)`
      if R.hasRoom c.stack.length then
        .ok { stack := c.stack ++ [top], initialRule := none, isInitialized := true }
      else .err .rStackFull

/-- `push_row` -/
def Ctx.pushRow (R : Cap) (c : Ctx) : Out Ctx :=
  match c.stack with
  | [] => .panic "called `Option::unwrap()` on a `None` value"
  | top :: below =>
    if R.hasRoom c.stack.length then .ok { c with stack := top :: top :: below }
    else .err .rStackFull

/-- `pop_row` -/
def Ctx.popRow (c : Ctx) : Out Ctx :=
  let minSize := if c.isInitialized ∧ c.initialRule.isNone then 2 else 1
  if c.stack.length ≤ minSize then .err .rPopWithEmptyStack
  else .ok { c with stack := c.stack.tail }

/-- `AArch64::RA_SIGN_STATE` -/
def raSignState : Reg := 34

/-- `u64 as i64` -/
def u64AsI64 (n : Nat) : Int := wrapI64 n

/-- `UnwindTable::evaluate`: the new context and `some next_start_address` iff the row is complete
(`Ok(true)`).  The current row's `end_address` is set in that case. -/
def evaluate (g : Cfg) (c : Ctx) (i : Instr) : Out (Ctx × Option Nat) :=
  let setRule (r : Reg) (rule : Rule) : Out (Ctx × Option Nat) := do
    let c ← c.setRule g.N r rule
    pure (c, none)
  match i with
  | .setLoc address => do
    let top ← c.top
    if address < top.startAddress then .err .rInvalidCfiSetLoc
    else do
      let c ← c.modifyTop (fun t => { t with endAddress := address })
      pure (c, some address)
  | .advanceLoc delta => do
    let top ← c.top
    let d := (delta * g.codeAlign) % 2 ^ 64
    let next ← addSized g.mode top.startAddress d g.addressSize
    let c ← c.modifyTop (fun t => { t with endAddress := next })
    pure (c, some next)
  | .defCfa register offset => do
    let c ← c.modifyTop (fun t => { t with cfa := .registerAndOffset register (u64AsI64 offset) })
    pure (c, none)
  | .defCfaSf register fo => do
    let c ← c.modifyTop (fun t => { t with cfa := .registerAndOffset register (wrapI64 (fo * g.dataAlign)) })
    pure (c, none)
  | .defCfaRegister register => do
    let top ← c.top
    match top.cfa with
    | .registerAndOffset _ off => do
      let c ← c.modifyTop (fun t => { t with cfa := .registerAndOffset register off })
      pure (c, none)
    | .expression _ => .err .rCfiInstructionInInvalidContext
  | .defCfaOffset offset => do
    let top ← c.top
    match top.cfa with
    | .registerAndOffset reg _ => do
      let c ← c.modifyTop (fun t => { t with cfa := .registerAndOffset reg (u64AsI64 offset) })
      pure (c, none)
    | .expression _ => .err .rCfiInstructionInInvalidContext
  | .defCfaOffsetSf fo => do
    let top ← c.top
    match top.cfa with
    | .registerAndOffset reg _ => do
      let c ← c.modifyTop (fun t => { t with cfa := .registerAndOffset reg (wrapI64 (fo * g.dataAlign)) })
      pure (c, none)
    | .expression _ => .err .rCfiInstructionInInvalidContext
  | .defCfaExpression e => do
    let c ← c.modifyTop (fun t => { t with cfa := .expression e })
    pure (c, none)
  | .undefined r => setRule r .undefined
  | .sameValue r => setRule r .sameValue
  | .offset r fo => setRule r (.offset (wrapI64 (u64AsI64 fo * g.dataAlign)))
  | .offsetExtendedSf r fo => setRule r (.offset (wrapI64 (fo * g.dataAlign)))
  | .valOffset r fo => setRule r (.valOffset (wrapI64 (u64AsI64 fo * g.dataAlign)))
  | .valOffsetSf r fo => setRule r (.valOffset (wrapI64 (fo * g.dataAlign)))
  | .register d s => setRule d (.register s)
  | .expression r e => setRule r (.expression e)
  | .valExpression r e => setRule r (.valExpression e)
  | .restore r => do
    match ← c.getInitialRule r with
    | none => .err .rCfiInstructionInInvalidContext
    | some none => do
      let c ← c.clearRule r
      pure (c, none)
    | some (some rule) => setRule r rule
  | .rememberState => do
    let c ← c.pushRow g.R
    pure (c, none)
  | .restoreState => do
    let top ← c.top
    let c ← c.popRow
    let c ← c.modifyTop (fun t => { t with startAddress := top.startAddress })
    pure (c, none)
  | .argsSize size => do
    let c ← c.modifyTop (fun t => { t with savedArgsSize := size })
    pure (c, none)
  | .negateRaState => do
    let top ← c.top
    match Rules.get top.rules raSignState with
    | none => setRule raSignState (.constant (0 ^^^ 1))
    | some (.constant v) => setRule raSignState (.constant (v ^^^ 1))
    | some _ => .err .rCfiInstructionInInvalidContext
  | .nop => .ok (c, none)

/-- result of driving an `UnwindTable` with `next_row` until `Ok(None)` or the first `Err`:
the rows returned, then how it ended (`ok ctx` = `Ok(None)`, with the context left behind) -/
abbrev Run (β : Type) := List Row × Out β

/-- continue with `f` if `o` is a value; otherwise end with no (further) rows and `o`'s failure -/
def Run.bind {α β : Type} (o : Out α) (f : α → Run β) : Run β :=
  match o with
  | .ok a => f a
  | .err e => ([], .err e)
  | .panic w => ([], .panic w)
  | .diverge => ([], .diverge)

/-- `UnwindTable::next_row` called repeatedly.  `c`'s current row already has
`start_address = next_start_address` (done by `runTable` and after every completed row).
`tail` is how instruction decoding ends after `is` (`decodeAll`). -/
def rowsLoop (g : Cfg) (lastEnd : Nat) : List Instr → Out Unit → Ctx → Run Ctx
  | [], tail, c =>
    -- `Ok(None)` from the iterator: the last row
    Run.bind tail fun _ =>
    Run.bind (c.modifyTop (fun t => { t with endAddress := lastEnd })) fun c' =>
    Run.bind c'.top fun row => ([row], .ok c')
  | i :: is, tail, c =>
    Run.bind (evaluate g c i) fun (c', done) =>
    match done with
    | none => rowsLoop g lastEnd is tail c'
    | some next =>
      -- `Ok(Some(self.ctx.row()))`, and the next call starts with `set_start_address`
      Run.bind c'.top fun row =>
      Run.bind (c'.modifyTop (fun t => { t with startAddress := next })) fun c'' =>
      let r := rowsLoop g lastEnd is tail c''
      (row :: r.1, r.2)

/-- an `UnwindTable` (for a CIE: `start = lastEnd = 0`) driven to the end -/
def runTable (g : Cfg) (start lastEnd : Nat) (is : List Instr) (tail : Out Unit) (c : Ctx) : Run Ctx :=
  Run.bind (c.modifyTop (fun t => { t with startAddress := start })) fun c' =>
  rowsLoop g lastEnd is tail c'

/-- `FrameDescriptionEntry::end_address` -/
def fdeEndAddress (g : Cfg) (initial len : Nat) : Out Nat :=
  wrappingAddSized g.mode initial len g.addressSize

/-- `UnwindContext::initialize`: reset, all rows of the CIE's initial instructions (discarded),
`save_initial_rules` -/
def initializeCtx (g : Cfg) (cie : List Instr) (cieTail : Out Unit) : Out Ctx := do
  let c0 ← reset g.R
  let c1 ← (runTable g 0 0 cie cieTail c0).2
  saveInitialRules g.R c1

/-- `UnwindContext::new_in()`, `UnwindTable::new(section, bases, ctx, fde)` (which runs
`ctx.initialize` = `initializeCtx`), then `next_row` until `Ok(None)` or the first error.  Result: the rows of the
FDE's table that were returned, and `ok ()` or the error. -/
def unwind (g : Cfg) (cie : List Instr) (cieTail : Out Unit) (fde : List Instr) (fdeTail : Out Unit)
    (initial len : Nat) : Run Unit :=
  Run.bind (initializeCtx g cie cieTail) fun c2 =>
  Run.bind (fdeEndAddress g initial len) fun lastEnd =>
  let r := runTable g initial lastEnd fde fdeTail c2
  (r.1, r.2.map (fun _ => ()))

/-- the whole pipeline on instruction *bytes*: both streams are decoded by
`CallFrameInstructionIter` (`decodeAll`; `ciePos`/`fdePos` are their offsets in the section) and
unwound; decoding errors surface where `next_row` reaches them.  This is the function the
driver's `cfi-unwind` op executes. -/
def unwindBytes (g : Cfg) (cieCfg fdeCfg : DecodeCfg) (ciePos fdePos : Nat) (cieBytes fdeBytes : Bytes)
    (initial len : Nat) : Run Unit :=
  let c := decodeAll cieCfg ciePos cieBytes
  let f := decodeAll fdeCfg fdePos fdeBytes
  unwind g c.1 c.2 f.1 f.2 initial len

end Gimli.Unwind
