import Gimli.Model.ConvCfi
import Gimli.Model.CfiEntry
import Gimli.Model.Cfi
import Gimli.Model.WCfi
/-!
# Model of the read → write conversion of frame tables (`src/write/cfi.rs`, `mod convert`)

`FrameTable::from`, `CommonInformationEntry::from`, `FrameDescriptionEntry::from`,
`CallFrameInstruction::from`, path by path and in the order of the Rust code (so that the *first*
error is the same one):

* the input is what gimli's reader makes of a section: C05's Model of the entries iterator and of
  CIE / FDE parsing (`Gimli.CfiEntry`), C06's Model of the instruction iterator (`Gimli.Cfi`);
* the output is the writer-side table of C14's Model (`Gimli.WCfi.Table`), which
  `WCfi.tableWrite` serialises;
* the arithmetic (`narrow`, `data_offset`, the running code offset) is `Gimli.ConvCfi`;
* expressions go through the abstract parameter `convertExpr` (`Expression::from` followed by the
  expression writer is C12-expr's / C15's subject): the bytes of the read expression ↦ the bytes the
  converted expression is written as, or an error; addresses go through `convertAddr`
  (`convert_address`, `None` = `ConvertError::InvalidAddress`).

`ConvertError` is `CErr` (`Read(e)` / `Write(e)` carry the error names of `Gimli.Err`).

No Mathlib import (the driver links this file).
-/
namespace Gimli.ConvFrame
open Gimli Gimli.Cfi Gimli.WCfi Gimli.ConvCfi

/-- `gimli::write::ConvertError`, as far as frame tables produce it -/
inductive CErr where
  | read (e : Err)
  | write (e : Err)
  | invalidAddress
  | unsupportedCfiInstruction
  /-- what the abstract expression converter may report besides the above -/
  | other (name : String)
  deriving DecidableEq, Repr, Inhabited

def CErr.name : CErr → String
  | .read e => "Read." ++ e.name
  | .write e => "Write." ++ (e.name.drop 2).toString
  | .invalidAddress => "InvalidAddress"
  | .unsupportedCfiInstruction => "UnsupportedCfiInstruction"
  | .other n => n

/-- outcome of a conversion function: a value, a `ConvertError`, or (reader Model only, outside the
supported address sizes) a panic / fuel exhaustion -/
inductive CRes (α : Type) where
  | ok (a : α)
  | fail (e : CErr)
  | panic (why : String)
  | diverge
  deriving Repr

namespace CRes
variable {α β : Type}

@[inline] def bind (x : CRes α) (f : α → CRes β) : CRes β :=
  match x with
  | ok a => f a
  | fail e => fail e
  | panic w => panic w
  | diverge => diverge

instance : Monad CRes where
  pure := ok
  bind := bind

@[simp] theorem bind_ok (a : α) (f : α → CRes β) : (ok a >>= f) = f a := rfl
@[simp] theorem bind_fail (e : CErr) (f : α → CRes β) : (fail e >>= f) = fail e := rfl
@[simp] theorem bind_panic (w : String) (f : α → CRes β) : (panic w >>= f) = panic w := rfl
@[simp] theorem bind_diverge (f : α → CRes β) : ((diverge : CRes α) >>= f) = diverge := rfl
@[simp] theorem pure_eq (a : α) : (pure a : CRes α) = ok a := rfl

/-- `?` on a reader result inside a function returning `ConvertResult` (`From<read::Error>`) -/
def ofRead : Out α → CRes α
  | .ok a => ok a
  | .err e => fail (.read e)
  | .panic w => panic w
  | .diverge => diverge

/-- a writer-side / `narrow` result: `ConvertError::Write(e)` -/
def ofWrite : Out α → CRes α
  | .ok a => ok a
  | .err e => fail (.write e)
  | .panic w => panic w
  | .diverge => diverge

/-- a value, or a `ConvertError` — never a panic, never out of fuel -/
def Normal : CRes α → Prop
  | ok _ => True
  | fail _ => True
  | panic _ => False
  | diverge => False

end CRes

/-- what `CallFrameInstruction::from` reads from its environment -/
structure Env where
  /-- `from_cie.code_alignment_factor()` (`u64`) -/
  caf : Nat
  /-- `from_cie.data_alignment_factor()` (`i64`) -/
  daf : Int
  /-- bytes of a read expression ↦ bytes of the converted expression as written
  (`expression.get(frame)?` + `Expression::from`) -/
  convertExpr : Bytes → CRes Bytes

/-- `narrow::<u64, i64>` -/
def narrowU64I64 (v : Nat) : Out Int := if v < 2 ^ 63 then .ok (v : Int) else .err .wValueTooLarge

/-- `data_offset(narrow(factored_offset)?)?` for the unsigned factored operands of
`DW_CFA_offset(_extended)` / `DW_CFA_val_offset` -/
def dataOffsetU (daf : Int) (f : Nat) : Out Int := do
  let f ← narrowU64I64 f
  dataOffset daf f

/-- `CallFrameInstruction::from(from_instruction, from_cie, …, &mut offset)`: the writer instruction
(or `None` for `AdvanceLoc` / `Nop`) and the new value of `*offset` -/
def convertInstr (env : Env) (offset : Nat) : Instr → CRes (Option WInstr × Nat)
  | .setLoc _ => .fail .unsupportedCfiInstruction
  | .advanceLoc delta => do
    let o ← CRes.ofWrite (advance env.caf offset delta)
    pure (none, o)
  | .defCfa r o => do
    let v ← CRes.ofWrite (narrowI32 (o : Int))
    pure (some (.cfa r v), offset)
  | .defCfaSf r f => do
    let v ← CRes.ofWrite (dataOffset env.daf f)
    pure (some (.cfa r v), offset)
  | .defCfaRegister r => pure (some (.cfaRegister r), offset)
  | .defCfaOffset o => do
    let v ← CRes.ofWrite (narrowI32 (o : Int))
    pure (some (.cfaOffset v), offset)
  | .defCfaOffsetSf f => do
    let v ← CRes.ofWrite (dataOffset env.daf f)
    pure (some (.cfaOffset v), offset)
  | .defCfaExpression ex => do
    let ex' ← env.convertExpr ex
    pure (some (.cfaExpression ex'), offset)
  | .undefined r => pure (some (.undefined r), offset)
  | .sameValue r => pure (some (.sameValue r), offset)
  | .offset r f => do
    let v ← CRes.ofWrite (dataOffsetU env.daf f)
    pure (some (.offset r v), offset)
  | .offsetExtendedSf r f => do
    let v ← CRes.ofWrite (dataOffset env.daf f)
    pure (some (.offset r v), offset)
  | .valOffset r f => do
    let v ← CRes.ofWrite (dataOffsetU env.daf f)
    pure (some (.valOffset r v), offset)
  | .valOffsetSf r f => do
    let v ← CRes.ofWrite (dataOffset env.daf f)
    pure (some (.valOffset r v), offset)
  | .register d s => pure (some (.register d s), offset)
  | .expression r ex => do
    let ex' ← env.convertExpr ex
    pure (some (.expression r ex'), offset)
  | .valExpression r ex => do
    let ex' ← env.convertExpr ex
    pure (some (.valExpression r ex'), offset)
  | .restore r => pure (some (.restore r), offset)
  | .rememberState => pure (some .rememberState, offset)
  | .restoreState => pure (some .restoreState, offset)
  | .argsSize n => do
    let v ← CRes.ofWrite (narrowU32 n)
    pure (some (.argsSize v), offset)
  | .negateRaState => pure (some .negateRaState, offset)
  | .nop => pure (none, offset)

/-- the `while let Some(from_instruction) = from_instructions.next()?` loops over instructions that
decode: every instruction produced is pushed with the value `*offset` has after it -/
def convertProg (env : Env) : Nat → List Instr → CRes (List (Nat × WInstr) × Nat)
  | offset, [] => pure ([], offset)
  | offset, i :: is => do
    let (w, offset') ← convertInstr env offset i
    let (rest, last) ← convertProg env offset' is
    match w with
    | some wi => pure ((offset', wi) :: rest, last)
    | none => pure (rest, last)

/-- the same loop on the outcome of the instruction iterator (`Cfi.decodeAll`): a decode error
surfaces (as `Read`) after the instructions before it have been converted -/
def convertStream (env : Env) (decoded : List Instr × Out Unit) : CRes (List (Nat × WInstr)) := do
  let (ws, _) ← convertProg env 0 decoded.1
  let _ ← CRes.ofRead decoded.2
  pure ws

/-- what the conversion of a section reads from its caller and its reader -/
structure Ctx where
  /-- reader configuration: section kind, byte order, `set_address_size`, arithmetic mode -/
  cfg : CfiEntry.Cfg
  vendor : Vendor := .default
  /-- `convert_address` -/
  convertAddr : Nat → Option Addr
  /-- see `Env.convertExpr` -/
  convertExpr : Bytes → CRes Bytes

/-- `read::BaseAddresses::default().set_eh_frame(0)` -/
def bases : CfiEntry.Bases := { ehFrame := { sect := some 0 } }

/-- `from_cie.instructions(frame, bases)` / `from_fde.instructions(frame, bases)` driven to the end -/
def decodeInstrs (cx : Ctx) (asz : Nat) (addressEncoding : Option Nat) (r : CfiEntry.Rd) : List Instr × Out Unit :=
  decodeAll { mode := cx.cfg.m, endian := cx.cfg.e, addressEncoding := addressEncoding,
              params := { addressSize := asz, sectionBase := some 0 }, vendor := cx.vendor } r.off r.bs

/-- `convert_address(p).ok_or(ConvertError::InvalidAddress)` -/
def convAddr (cx : Ctx) (a : Nat) : CRes Addr :=
  match cx.convertAddr a with
  | some x => .ok x
  | none => .fail .invalidAddress

/-- `CommonInformationEntry::from` -/
def convertCie (cx : Ctx) (cie : CfiEntry.Cie) : CRes WCie := do
  let caf ← CRes.ofWrite (narrowU8 cie.caf)
  let daf ← CRes.ofWrite (narrowI8 cie.daf)
  let personality ← (match cie.aug.bind (·.personality) with
    | some (enc, p) => do
      let a ← convAddr cx p.pointer
      pure (some (enc, a))
    | none => pure none : CRes (Option (Nat × Addr)))
  let env : Env := { caf := cie.caf, daf := cie.daf, convertExpr := cx.convertExpr }
  let ws ← convertStream env (decodeInstrs cx cie.asz none cie.instr)
  pure { format := cie.format, version := cie.version, addressSize := cie.asz,
         codeAlign := caf, dataAlign := daf, raReg := UInt16.ofNat cie.rar,
         personality := personality,
         lsdaEncoding := cie.aug.bind (·.lsda),
         fdeAddressEncoding := (cie.aug.bind (·.fdeEnc)).getD 0,
         signalTrampoline := (cie.aug.map (·.signal)).getD false,
         instructions := ws.map (·.2) }

/-- `FrameDescriptionEntry::from` -/
def convertFde (cx : Ctx) (fde : CfiEntry.Fde) : CRes WFde := do
  let address ← convAddr cx fde.initial
  let length ← CRes.ofWrite (narrowU32 fde.range)
  let lsda ← (match fde.lsda with
    | some p => do
      let a ← convAddr cx p.pointer
      pure (some a)
    | none => pure none : CRes (Option Addr))
  let env : Env := { caf := fde.cie.caf, daf := fde.cie.daf, convertExpr := cx.convertExpr }
  let ws ← convertStream env (decodeInstrs cx fde.cie.asz (fde.cie.aug.bind (·.fdeEnc)) fde.instr)
  pure { address := address, length := length, lsda := lsda, instructions := ws }

/-- `cie_ids.entry(from_cie.offset())` -/
def lookupId (off : Nat) : List (Nat × Nat) → Option Nat
  | [] => none
  | (k, v) :: rest => if k = off then some v else lookupId off rest

/-- the body of the `while let Some(entry) = entries.next()?` loop of `FrameTable::from` over the
entries that parse; `ids` is `cie_ids` (input CIE offset ↦ `CieId`) -/
def convertEntries (cx : Ctx) (sec : Bytes) : List CfiEntry.Entry → Table → List (Nat × Nat) → CRes Table
  | [], t, _ => pure t
  | .cie _ :: rest, t, ids => convertEntries cx sec rest t ids
  | .fde p :: rest, t, ids => do
    let fde ← CRes.ofRead (CfiEntry.parseRest cx.cfg bases sec p)
    let (t, ids, id) ← (match lookupId fde.cie.offset ids with
      | some id => pure (t, ids, id)
      | none => do
        let c ← convertCie cx fde.cie
        let r := t.addCie c
        pure (r.1, (fde.cie.offset, r.2) :: ids, r.2) : CRes (Table × List (Nat × Nat) × Nat))
    let f ← convertFde cx fde
    convertEntries cx sec rest (t.addFde id f) ids

/-- `FrameTable::from(frame, convert_address)` on the section bytes -/
def convertTable (cx : Ctx) (sec : Bytes) : CRes Table := do
  let es := CfiEntry.entriesOf cx.cfg bases sec
  let t ← convertEntries cx sec es.1 {} []
  let _ ← CRes.ofRead es.2
  pure t

/-- conversion followed by `write_debug_frame` / `write_eh_frame` into an empty section (the
request `c12-cfi`): the output bytes, or which stage failed with which error -/
inductive Outcome where
  | bytes (bs : Bytes)
  | convertFailed (e : CErr)
  | writeFailed (e : Err)
  | panic (w : String)
  | diverge
  deriving Repr

def convertAndWrite (cx : Ctx) (sec : Bytes) : Outcome :=
  match convertTable cx sec with
  | .fail e => .convertFailed e
  | .panic w => .panic w
  | .diverge => .diverge
  | .ok t =>
    match tableWrite cx.cfg.m cx.cfg.e cx.cfg.eh t with
    | .ok bs => .bytes bs
    | .err e => .writeFailed e
    | .panic w => .panic w
    | .diverge => .diverge

end Gimli.ConvFrame
