import Gimli.Model.Index
/-!
# Model of the section-loader wiring (`src/read/dwarf.rs`, `src/read/mod.rs`, `src/common.rs`)

In the Rust code the wiring is done by type inference: `Section::load(f)` calls `f(Self::id())`,
and which `Self` is meant follows from the type of the struct field being initialised.  The
Model therefore is three finite tables that mirror the code:

* `SectionId.name` — `SectionId::name()` (`src/common.rs`);
* `dwarfSectionsFields` — the struct literal of `DwarfSections::load`, in order: field name and
  the `id()` of the field's section type (`impl Section for DebugAbbrev { fn id() … }` etc.);
* `dwarfSlots` — `Dwarf::from_sections` / `DwarfSections::borrow`: which `DwarfSections` field
  each slot of `Dwarf` (incl. the two halves of `locations` and `ranges`) is filled from, with
  the `id()` of the slot's type;
* `packageFields` — the struct literal of `DwarfPackageSections::load`.

Also the `.dwp` → `Dwarf` assembly of `DwarfPackage::sections`.
-/
namespace Gimli.Loader
open Gimli

/-- `gimli::SectionId` -/
inductive SectionId where
  | DebugAbbrev | DebugAddr | DebugAranges | DebugCuIndex | DebugFrame | EhFrame | EhFrameHdr
  | DebugInfo | DebugLine | DebugLineStr | DebugLoc | DebugLocLists | DebugMacinfo | DebugMacro
  | DebugNames | DebugPubNames | DebugPubTypes | DebugRanges | DebugRngLists | DebugStr
  | DebugStrOffsets | DebugTuIndex | DebugTypes
  deriving DecidableEq, Repr, Inhabited

/-- `SectionId::name` -/
def SectionId.name : SectionId → String
  | .DebugAbbrev => ".debug_abbrev"
  | .DebugAddr => ".debug_addr"
  | .DebugAranges => ".debug_aranges"
  | .DebugCuIndex => ".debug_cu_index"
  | .DebugFrame => ".debug_frame"
  | .EhFrame => ".eh_frame"
  | .EhFrameHdr => ".eh_frame_hdr"
  | .DebugInfo => ".debug_info"
  | .DebugLine => ".debug_line"
  | .DebugLineStr => ".debug_line_str"
  | .DebugLoc => ".debug_loc"
  | .DebugLocLists => ".debug_loclists"
  | .DebugMacinfo => ".debug_macinfo"
  | .DebugMacro => ".debug_macro"
  | .DebugNames => ".debug_names"
  | .DebugPubNames => ".debug_pubnames"
  | .DebugPubTypes => ".debug_pubtypes"
  | .DebugRanges => ".debug_ranges"
  | .DebugRngLists => ".debug_rnglists"
  | .DebugStr => ".debug_str"
  | .DebugStrOffsets => ".debug_str_offsets"
  | .DebugTuIndex => ".debug_tu_index"
  | .DebugTypes => ".debug_types"

/-- every `SectionId` -/
def SectionId.all : List SectionId :=
  [ .DebugAbbrev, .DebugAddr, .DebugAranges, .DebugCuIndex, .DebugFrame, .EhFrame, .EhFrameHdr,
    .DebugInfo, .DebugLine, .DebugLineStr, .DebugLoc, .DebugLocLists, .DebugMacinfo, .DebugMacro,
    .DebugNames, .DebugPubNames, .DebugPubTypes, .DebugRanges, .DebugRngLists, .DebugStr,
    .DebugStrOffsets, .DebugTuIndex, .DebugTypes ]

/-- `DwarfSections::load`: the fields in the order of the struct literal, each with the `id()`
of its section type -/
def dwarfSectionsFields : List (String × SectionId) :=
  [ ("debug_abbrev", .DebugAbbrev), ("debug_addr", .DebugAddr), ("debug_aranges", .DebugAranges),
    ("debug_info", .DebugInfo), ("debug_line", .DebugLine), ("debug_line_str", .DebugLineStr),
    ("debug_macinfo", .DebugMacinfo), ("debug_macro", .DebugMacro), ("debug_names", .DebugNames),
    ("debug_str", .DebugStr), ("debug_str_offsets", .DebugStrOffsets), ("debug_types", .DebugTypes),
    ("debug_loc", .DebugLoc), ("debug_loclists", .DebugLocLists), ("debug_ranges", .DebugRanges),
    ("debug_rnglists", .DebugRngLists) ]

/-- `DwarfPackageSections::load` -/
def packageFields : List (String × SectionId) :=
  [ ("cu_index", .DebugCuIndex), ("tu_index", .DebugTuIndex), ("debug_abbrev", .DebugAbbrev),
    ("debug_info", .DebugInfo), ("debug_line", .DebugLine), ("debug_macinfo", .DebugMacinfo),
    ("debug_macro", .DebugMacro), ("debug_str", .DebugStr), ("debug_str_offsets", .DebugStrOffsets),
    ("debug_loc", .DebugLoc), ("debug_loclists", .DebugLocLists), ("debug_rnglists", .DebugRngLists),
    ("debug_types", .DebugTypes) ]

/-- `Section::load` over a field table: the loader is called once per field, in order, with the
field type's id; each field stores what that call returned -/
def load {α : Type} (fields : List (String × SectionId)) (loader : SectionId → α) : List (String × α) :=
  fields.map fun (f, id) => (f, loader id)

/-- the order in which the loader is called -/
def callOrder (fields : List (String × SectionId)) : List SectionId := fields.map (·.2)

/-- `Dwarf::from_sections` (and, field for field, `DwarfSections::borrow`): slot of `Dwarf`,
the `id()` of the slot's section type, the `DwarfSections` field it is moved from -/
def dwarfSlots : List (String × SectionId × String) :=
  [ ("debug_abbrev", .DebugAbbrev, "debug_abbrev"), ("debug_addr", .DebugAddr, "debug_addr"),
    ("debug_aranges", .DebugAranges, "debug_aranges"), ("debug_info", .DebugInfo, "debug_info"),
    ("debug_line", .DebugLine, "debug_line"), ("debug_line_str", .DebugLineStr, "debug_line_str"),
    ("debug_macinfo", .DebugMacinfo, "debug_macinfo"), ("debug_macro", .DebugMacro, "debug_macro"),
    ("debug_names", .DebugNames, "debug_names"), ("debug_str", .DebugStr, "debug_str"),
    ("debug_str_offsets", .DebugStrOffsets, "debug_str_offsets"),
    ("debug_types", .DebugTypes, "debug_types"),
    ("locations.debug_loc", .DebugLoc, "debug_loc"),
    ("locations.debug_loclists", .DebugLocLists, "debug_loclists"),
    ("ranges.debug_ranges", .DebugRanges, "debug_ranges"),
    ("ranges.debug_rnglists", .DebugRngLists, "debug_rnglists") ]

/-- `Dwarf::load`: slot ↦ what the loader returned for …  (`none` cannot happen, see
`Props.C17.loader_wiring`) -/
def dwarfLoad {α : Type} (loader : SectionId → α) : List (String × Option α) :=
  let secs := load dwarfSectionsFields loader
  dwarfSlots.map fun (slot, _, src) => (slot, (secs.find? (·.1 = src)).map (·.2))

/-- the sections `Dwarf::lookup_offset_id` consults, in order, with the id each reports -/
def lookupOrder : List (String × SectionId) :=
  [ ("debug_abbrev", .DebugAbbrev), ("debug_addr", .DebugAddr), ("debug_aranges", .DebugAranges),
    ("debug_info", .DebugInfo), ("debug_line", .DebugLine), ("debug_line_str", .DebugLineStr),
    ("debug_str", .DebugStr), ("debug_str_offsets", .DebugStrOffsets), ("debug_types", .DebugTypes),
    ("locations.debug_loc", .DebugLoc), ("locations.debug_loclists", .DebugLocLists),
    ("ranges.debug_ranges", .DebugRanges), ("ranges.debug_rnglists", .DebugRngLists) ]

/-- `Dwarf::lookup_offset_id` for the marker of section `m` after `Dwarf::load` with distinct
markers: the id reported by the first consulted slot that holds `m`'s data -/
def lookupMarker (m : SectionId) : Option SectionId :=
  let loaded := dwarfLoad (fun id => id)
  (lookupOrder.find? fun (slot, _) =>
    match loaded.find? (·.1 = slot) with
    | some (_, some d) => d = m
    | _ => false).map (·.2)

/-! ## `DwarfPackage::sections`: the `Dwarf` handed out for one unit of a `.dwp` -/

/-- where each slot of the unit's `Dwarf` comes from -/
inductive Source where
  /-- `self.<section>.dwp_range(offset, size)` with the contribution of that index column kind -/
  | slice (k : Index.SecKind)
  /-- `self.debug_str.clone()` -/
  | packageStr
  /-- `parent.debug_addr.clone()` / `parent.ranges.debug_ranges().clone()` -/
  | parent (slot : String)
  /-- `self.empty.clone()` -/
  | empty
  deriving DecidableEq, Repr

def packageUnitSlots : List (String × Source) :=
  [ ("debug_abbrev", .slice .abbrev), ("debug_addr", .parent "debug_addr"), ("debug_aranges", .empty),
    ("debug_info", .slice .info), ("debug_line", .slice .line), ("debug_line_str", .empty),
    ("debug_macinfo", .slice .macinfo), ("debug_macro", .slice .macro), ("debug_names", .empty),
    ("debug_str", .packageStr), ("debug_str_offsets", .slice .strOffsets),
    ("debug_types", .slice .types), ("locations.debug_loc", .slice .loc),
    ("locations.debug_loclists", .slice .loclists), ("ranges.debug_ranges", .parent "ranges.debug_ranges"),
    ("ranges.debug_rnglists", .slice .rnglists) ]

end Gimli.Loader
