import Gimli.Model.Ints
/-!
# Model of the `Reader` implementations (C10)

`src/read/endian_slice.rs` (`EndianSlice`), `src/read/endian_reader.rs`
(`EndianReader` / `SubRange`, i.e. `EndianRcSlice`, `EndianArcSlice`, any `CloneStableDeref`
buffer), `src/read/relocate.rs` (`RelocateReader`) and the default methods of
`src/read/reader.rs`.

* A reader is a **cursor** `Cur = (sec, off, len)` into the section bytes `sec`: the window
  `sec[off .. off+len]`.  For `SubRange` this makes the `unsafe` pointer arithmetic explicit:
  `ptr = sec.as_ptr() + off`, `slice::from_raw_parts(ptr, len)` is in bounds iff
  `off + len ≤ sec.length` (`Cur.Inv`), `ptr.add(n)` is `off + n`.
* `empty()` keeps the reader's position in both concrete readers: `&self.slice[..0]` resp.
  `truncate(0)` (before the fix of C10-1 `EndianSlice::empty` assigned the static `&[]`).
* `&mut self` methods are state transformers `M σ α = σ → Out α × σ`: the reader state after the
  call is returned also when the call fails (Rust's `?` leaves the partially advanced reader).
* `Impl σ` is the abstract interface (the required methods of `trait Reader` plus the three
  methods `RelocateReader` overrides); `sliceImpl`, `sharedImpl`, `relocImpl I rel` are the
  three kinds.  Default trait methods are written once over `Impl` (namespace `Dflt`).
* `Op`/`step`/`runHist`: histories of reader operations over a table of readers, producing the
  observation trace the correspondence check compares with the real readers.
-/
namespace Gimli.Rd

/-! ## cursors -/

structure Cur where
  sec : Bytes
  off : Nat
  len : Nat
  deriving Repr, DecidableEq, Inhabited

namespace Cur

/-- the window stays inside the allocation: the safety condition of every
`slice::from_raw_parts(ptr, len)` / `ptr.add(n)` in `SubRange` -/
def Inv (c : Cur) : Prop := c.off + c.len ≤ c.sec.length

instance (c : Cur) : Decidable c.Inv := by unfold Inv; infer_instance

/-- the bytes the reader sees: `sec[off .. off+len]` -/
def bytes (c : Cur) : Bytes := (c.sec.drop c.off).take c.len

/-- a reader over a whole section -/
def ofSec (sec : Bytes) : Cur := { sec := sec, off := 0, len := sec.length }

end Cur

/-- what a trace shows of a reader: where its window is (never the bytes of the section) -/
structure View where
  off : Nat
  len : Nat
  deriving Repr, DecidableEq, Inhabited

def Cur.toView (c : Cur) : View := { off := c.off, len := c.len }

/-- a `ReaderOffsetId`: an address inside the section, as a section offset -/
inductive Addr where
  | inSec (off : Nat)
  deriving Repr, DecidableEq, Inhabited

/-! ## `&mut self` methods -/

abbrev M (σ α : Type) := σ → Out α × σ

namespace M
variable {σ α β : Type}

@[inline] def pure (a : α) : M σ α := fun s => (.ok a, s)

@[inline] def bind (x : M σ α) (f : α → M σ β) : M σ β := fun s =>
  match x s with
  | (.ok a, s') => f a s'
  | (.err e, s') => (.err e, s')
  | (.panic w, s') => (.panic w, s')
  | (.diverge, s') => (.diverge, s')

@[inline] def fail (e : Err) : M σ α := fun s => (.err e, s)

@[inline] def liftOut (o : Out α) : M σ α := fun s => (o, s)

@[inline] def map (f : α → β) (x : M σ α) : M σ β := bind x (fun a => pure (f a))

end M

/-- a relocation function: `Relocate::{relocate_address, relocate_offset}(offset, value)` -/
structure Rel where
  addr : Nat → Nat → Out Nat
  offs : Nat → Nat → Out Nat

/-- the identity relocation -/
def Rel.id : Rel := { addr := fun _ v => .ok v, offs := fun _ v => .ok v }

/-! ## the abstract reader interface -/

/-- the required methods of `trait Reader` -/
structure Core (σ : Type) where
  /-- where the reader's window is (observation only; not a trait method) -/
  view : σ → Cur
  len : σ → Nat
  empty : σ → σ
  truncate : Nat → M σ Unit
  /-- `self.offset_from(base)` -/
  offsetFrom : Mode → σ → σ → Out Nat
  offsetId : σ → Addr
  lookupOffsetId : σ → Addr → Option Nat
  find : σ → UInt8 → Out Nat
  skip : Nat → M σ Unit
  split : Nat → M σ σ
  toSlice : σ → Out Bytes
  /-- `to_string`, given the UTF-8 validity predicate -/
  toStr : (Bytes → Bool) → σ → Out Bytes
  /-- `to_string_lossy`, given validity and the lossy conversion; `true` = `Cow::Borrowed` -/
  toLossy : (Bytes → Bool) → (Bytes → Bytes) → σ → Out (Bool × Bytes)
  readSlice : Nat → M σ Bytes

/-- a reader kind: the required methods plus the three default methods that `RelocateReader`
overrides -/
structure Impl (σ : Type) extends Core σ where
  readAddress : Mode → Endian → Nat → M σ Nat
  readOffset : Mode → Endian → Format → M σ Nat
  readSizedOffset : Mode → Endian → Nat → M σ Nat

/-! ## default methods of `trait Reader` (written once, over the interface) -/

namespace Dflt
variable {σ : Type}

/-- `read_u8_array::<[u8; n]>` followed by `endian.read_uN`: `read_u8/u16/u32/u64/u128` -/
def readFixed (I : Core σ) (e : Endian) (n : Nat) : M σ Nat :=
  M.bind (I.readSlice n) fun a => M.pure (Ints.fromBytes e a)

/-- `read_i8/i16/i32/i64` -/
def readSigned (I : Core σ) (e : Endian) (n : Nat) : M σ Int :=
  M.bind (I.readSlice n) fun a => M.pure (Ints.toSigned n (Ints.fromBytes e a))

/-- `read_uint(n)`: `&mut buf[..n]` on `[0; 8]` panics for `n > 8` -/
def readUint (I : Core σ) (e : Endian) (n : Nat) : M σ Nat :=
  if n > 8 then M.liftOut (.panic "range end index out of range for slice of length 8")
  else
    M.bind (I.readSlice n) fun a =>
      M.pure (Ints.fromBytes e (match e with
        | .big => List.replicate (8 - n) 0 ++ a
        | .little => a ++ List.replicate (8 - n) 0))

/-- `read_null_terminated_slice`: `find(0)?`, `split(idx)?`, `skip(1)?` -/
def readNts (I : Core σ) : M σ σ := fun s =>
  M.bind (M.liftOut (I.find s 0)) (fun idx =>
    M.bind (I.split idx) fun v =>
      M.bind (I.skip 1) fun _ => M.pure v) s

/-- default `read_address` -/
def readAddress (I : Core σ) (e : Endian) (size : Nat) : M σ Nat :=
  if size = 1 ∨ size = 2 ∨ size = 4 ∨ size = 8 then readFixed I e size
  else M.fail .rUnsupportedAddressSize

/-- default `read_word` (= `read_length`, default `read_offset`); `usize` is 64 bits -/
def readWord (I : Core σ) (e : Endian) (f : Format) : M σ Nat :=
  match f with
  | .dwarf32 => readFixed I e 4
  | .dwarf64 => M.bind (readFixed I e 8) fun v => M.liftOut (Ints.offsetFromU64 64 v)

/-- default `read_sized_offset` -/
def readSizedOffset (I : Core σ) (e : Endian) (size : Nat) : M σ Nat :=
  if size = 1 ∨ size = 2 ∨ size = 4 ∨ size = 8 then
    M.bind (readFixed I e size) fun v => M.liftOut (Ints.offsetFromU64 64 v)
  else M.fail .rUnsupportedOffsetSize

/-- `read_initial_length` -/
def readInitialLength (I : Core σ) (e : Endian) : M σ (Nat × Format) :=
  M.bind (readFixed I e 4) fun v =>
    if v < 0xffff_fff0 then M.pure (v, .dwarf32)
    else if v = 0xffff_ffff then
      M.bind (readFixed I e 8) fun v =>
        M.bind (M.liftOut (Ints.offsetFromU64 64 v)) fun v => M.pure (v, .dwarf64)
    else M.fail .rUnknownReservedLength

/-- `read_address_size` -/
def readAddressSize (I : Core σ) : M σ Nat :=
  M.bind (readFixed I .little 1) fun b =>
    if b = 1 ∨ b = 2 ∨ b = 4 ∨ b = 8 then M.pure b else M.fail .rUnsupportedAddressSize

/-- Run one of the byte-list decoders of C09 (`Gimli.Leb.*`, which mirror the `read_u8` loops of
`src/leb128.rs`) on the reader's window and advance the reader by what the loop consumed; when
the loop fails it has consumed `adv window err` bytes. -/
def via {α : Type} (I : Core σ) (f : Bytes → Out (α × Bytes)) (adv : Bytes → Err → Nat) : M σ α :=
  fun s =>
    match I.toSlice s with
    | .ok bs =>
      (match f bs with
       | .ok (v, rest) => (.ok v, (I.skip (bs.length - rest.length) s).2)
       | .err e => (.err e, (I.skip (min (adv bs e) bs.length) s).2)
       | .panic w => (.panic w, s)
       | .diverge => (.diverge, s))
    | .err e => (.err e, s)
    | .panic w => (.panic w, s)
    | .diverge => (.diverge, s)

/-- bytes consumed by a failing LEB128 loop: everything if the input ran out, otherwise up to and
including the offending byte (the 10th; the 3rd for the 16-bit reader) -/
def lebAdv (limit : Nat) (bs : Bytes) (e : Err) : Nat :=
  if e = .rUnexpectedEof then bs.length else limit

def readUleb (I : Core σ) : M σ Nat := via I Leb.unsigned (lebAdv 10)
def readSleb (I : Core σ) : M σ Int := via I Leb.signed (lebAdv 10)
def readUleb16 (I : Core σ) : M σ Nat := via I Leb.u16 (lebAdv 3)
def skipLeb (I : Core σ) : M σ Unit :=
  via I (fun bs => (Leb.skip bs).map (fun rest => ((), rest))) (lebAdv 0)
/-- `read_uleb128_u32`: the whole number is consumed before the narrowing check -/
def readUleb32 (I : Core σ) : M σ Nat :=
  M.bind (readUleb I) fun v => if v < 2 ^ 32 then M.pure v else M.fail .rBadUnsignedLeb128

end Dflt

/-! ## `SubRange` (`src/read/endian_reader.rs`): the unsafe island, as (offset, length) arithmetic -/

namespace SubRange

/-- `SubRange::new(bytes)`: `ptr = bytes.as_ptr()`, `len = bytes.len()` -/
def new (sec : Bytes) : Cur := Cur.ofSec sec

/-- `bytes()`: `unsafe { slice::from_raw_parts(self.ptr, self.len) }` — in bounds iff `c.Inv` -/
def bytes (c : Cur) : Bytes := c.bytes

/-- `truncate`: `assert!(len <= self.len); self.len = len` -/
def truncate (c : Cur) (len : Nat) : Out Cur :=
  if len ≤ c.len then .ok { c with len := len } else .panic "assertion failed: len <= self.len"

/-- `skip`: `assert!(len <= self.len); self.ptr = unsafe { self.ptr.add(len) }; self.len -= len` -/
def skip (c : Cur) (len : Nat) : Out Cur :=
  if len ≤ c.len then .ok { c with off := c.off + len, len := c.len - len }
  else .panic "assertion failed: len <= self.len"

/-- `read_slice(len) -> Option<&[u8]>`: `from_raw_parts(self.ptr, len)` then `skip(len)` -/
def readSlice (c : Cur) (len : Nat) : Out (Option (Bytes × Cur)) :=
  if c.len < len then .ok none
  else
    match skip c len with
    | .ok c' => .ok (some ((c.sec.drop c.off).take len, c'))
    | .err e => .err e
    | .panic w => .panic w
    | .diverge => .diverge

end SubRange

/-- turn the outcome of a `SubRange` mutation into a `&mut self` result (a failed `assert!`
unwinds and leaves the reader as it was) -/
def commit (c : Cur) (o : Out Cur) : Out Unit × Cur :=
  match o with
  | .ok c' => (.ok (), c')
  | .err e => (.err e, c)
  | .panic w => (.panic w, c)
  | .diverge => (.diverge, c)

/-- `offset_from` of both concrete readers:
`debug_assert!(base_ptr <= ptr); debug_assert!(ptr + len <= base_ptr + base.len); ptr - base_ptr` -/
def ptrOffsetFrom (m : Mode) (self base : Cur) : Out Nat :=
  match m with
  | .debug =>
    if ¬ base.off ≤ self.off then .panic "assertion failed: base_ptr <= ptr"
    else if ¬ self.off + self.len ≤ base.off + base.len then
      .panic "assertion failed: ptr + self.bytes().len() <= base_ptr + base.bytes().len()"
    else .ok (self.off - base.off)
  | .release =>
    if base.off ≤ self.off then .ok (self.off - base.off)
    else .ok (2 ^ 64 - (base.off - self.off))

/-- `lookup_offset_id` of both concrete readers -/
def ptrLookup (c : Cur) (id : Addr) : Option Nat :=
  match id with
  | .inSec n => if c.off ≤ n ∧ n ≤ c.off + c.len then some (n - c.off) else none

/-- `bytes.iter().position(|x| *x == byte)` -/
def position (bs : Bytes) (b : UInt8) : Option Nat := bs.findIdx? (· == b)

/-! ## `EndianReader<Endian, T>` — `EndianRcSlice`, `EndianArcSlice`, custom buffers -/

namespace Shared

def len (c : Cur) : Nat := c.len

/-- `empty`: `self.range.truncate(0)` -/
def empty (c : Cur) : Cur :=
  match SubRange.truncate c 0 with
  | .ok c' => c'
  | _ => c

def truncate (len : Nat) : M Cur Unit := fun c =>
  if c.len < len then (.err .rUnexpectedEof, c) else commit c (SubRange.truncate c len)

def offsetFrom (m : Mode) (self base : Cur) : Out Nat := ptrOffsetFrom m self base

def offsetId (c : Cur) : Addr := .inSec c.off

def lookupOffsetId (c : Cur) (id : Addr) : Option Nat := ptrLookup c id

def find (c : Cur) (b : UInt8) : Out Nat :=
  match position (SubRange.bytes c) b with
  | some i => .ok i
  | none => .err .rUnexpectedEof

def skip (len : Nat) : M Cur Unit := fun c =>
  if c.len < len then (.err .rUnexpectedEof, c) else commit c (SubRange.skip c len)

/-- `split`: `let mut r = self.clone(); r.range.truncate(len); self.range.skip(len); Ok(r)` -/
def split (len : Nat) : M Cur Cur := fun c =>
  if c.len < len then (.err .rUnexpectedEof, c)
  else
    match SubRange.truncate c len, SubRange.skip c len with
    | .ok r, .ok c' => (.ok r, c')
    | .panic w, _ => (.panic w, c)
    | _, .panic w => (.panic w, c)
    | _, _ => (.diverge, c)

def toSlice (c : Cur) : Out Bytes := .ok (SubRange.bytes c)

def toStr (valid : Bytes → Bool) (c : Cur) : Out Bytes :=
  if valid (SubRange.bytes c) then .ok (SubRange.bytes c) else .err .rBadUtf8

def toLossy (valid : Bytes → Bool) (lossy : Bytes → Bytes) (c : Cur) : Out (Bool × Bytes) :=
  if valid (SubRange.bytes c) then .ok (true, SubRange.bytes c)
  else .ok (false, lossy (SubRange.bytes c))

def readSlice (n : Nat) : M Cur Bytes := fun c =>
  match SubRange.readSlice c n with
  | .ok (some (bs, c')) => (.ok bs, c')
  | .ok none => (.err .rUnexpectedEof, c)
  | .err e => (.err e, c)
  | .panic w => (.panic w, c)
  | .diverge => (.diverge, c)

end Shared

def sharedCore : Core Cur where
  view := fun c => c
  len := Shared.len
  empty := Shared.empty
  truncate := Shared.truncate
  offsetFrom := Shared.offsetFrom
  offsetId := Shared.offsetId
  lookupOffsetId := Shared.lookupOffsetId
  find := Shared.find
  skip := Shared.skip
  split := Shared.split
  toSlice := Shared.toSlice
  toStr := Shared.toStr
  toLossy := Shared.toLossy
  readSlice := Shared.readSlice

/-- a kind that overrides nothing -/
def Core.withDefaults {σ : Type} (C : Core σ) : Impl σ :=
  { C with
    readAddress := fun _ e n => Dflt.readAddress C e n
    readOffset := fun _ e f => Dflt.readWord C e f
    readSizedOffset := fun _ e n => Dflt.readSizedOffset C e n }

def sharedImpl : Impl Cur := sharedCore.withDefaults

/-! ## `EndianSlice<'input, Endian>` -/

namespace Slice

def len (c : Cur) : Nat := c.len

/-- `empty`: `self.slice = &self.slice[..0]` — keeps the position -/
def empty (c : Cur) : Cur := { c with len := 0 }

/-- `truncate`: `self.slice = &self.slice[..len]` -/
def truncate (len : Nat) : M Cur Unit := fun c =>
  if c.len < len then (.err .rUnexpectedEof, c) else (.ok (), { c with len := len })

/-- inherent `offset_from` -/
def offsetFrom (m : Mode) (self base : Cur) : Out Nat := ptrOffsetFrom m self base

def offsetId (c : Cur) : Addr := .inSec c.off

def lookupOffsetId (c : Cur) (id : Addr) : Option Nat := ptrLookup c id

def find (c : Cur) (b : UInt8) : Out Nat :=
  match position c.bytes b with
  | some i => .ok i
  | none => .err .rUnexpectedEof

/-- `skip`: `self.slice = &self.slice[len..]` -/
def skip (len : Nat) : M Cur Unit := fun c =>
  if c.len < len then (.err .rUnexpectedEof, c)
  else (.ok (), { c with off := c.off + len, len := c.len - len })

/-- inherent `read_slice(len) -> Result<&'input [u8]>`:
`val = &self.slice[..len]; self.slice = &self.slice[len..]` -/
def readSliceRaw (len : Nat) : M Cur Cur := fun c =>
  if c.len < len then (.err .rUnexpectedEof, c)
  else (.ok { c with len := len }, { c with off := c.off + len, len := c.len - len })

/-- `split`: `EndianSlice::new(self.read_slice(len)?, self.endian)` -/
def split (len : Nat) : M Cur Cur := readSliceRaw len

def toSlice (c : Cur) : Out Bytes := .ok c.bytes

def toStr (valid : Bytes → Bool) (c : Cur) : Out Bytes :=
  if valid c.bytes then .ok c.bytes else .err .rBadUtf8

def toLossy (valid : Bytes → Bool) (lossy : Bytes → Bytes) (c : Cur) : Out (Bool × Bytes) :=
  if valid c.bytes then .ok (true, c.bytes) else .ok (false, lossy c.bytes)

/-- `Reader::read_slice(buf)`: `buf.copy_from_slice(self.read_slice(buf.len())?)` -/
def readSlice (n : Nat) : M Cur Bytes := M.bind (readSliceRaw n) fun v => M.pure v.bytes

end Slice

def sliceCore : Core Cur where
  view := fun c => c
  len := Slice.len
  empty := Slice.empty
  truncate := Slice.truncate
  offsetFrom := Slice.offsetFrom
  offsetId := Slice.offsetId
  lookupOffsetId := Slice.lookupOffsetId
  find := Slice.find
  skip := Slice.skip
  split := Slice.split
  toSlice := Slice.toSlice
  toStr := Slice.toStr
  toLossy := Slice.toLossy
  readSlice := Slice.readSlice

def sliceImpl : Impl Cur := sliceCore.withDefaults

/-! ## `RelocateReader<R, T>` (`src/read/relocate.rs`) -/

structure RCur (σ : Type) where
  /-- `section: R` — never changes -/
  sect : σ
  /-- `reader: R` -/
  rdr : σ

namespace Reloc
variable {σ : Type}

/-- run a method of the inner reader on the `reader` field -/
def onReader {α : Type} (m : M σ α) : M (RCur σ) α := fun s =>
  let (o, r') := m s.rdr
  (o, { s with rdr := r' })

/-- `let offset = self.reader.offset_from(&self.section); let value = self.reader.<read>?;
self.relocate.<relocate>(offset, value)` -/
def relocated (I : Impl σ) (m : Mode) (read : M σ Nat) (rel : Nat → Nat → Out Nat) :
    M (RCur σ) Nat := fun s =>
  match I.offsetFrom m s.rdr s.sect with
  | .ok o => M.bind (onReader read) (fun v => M.liftOut (rel o v)) s
  | .err e => (.err e, s)
  | .panic w => (.panic w, s)
  | .diverge => (.diverge, s)

/-- `split`: `let mut other = self.clone(); other.reader.truncate(len)?; self.reader.skip(len)?;
Ok(other)` -/
def split (I : Impl σ) (len : Nat) : M (RCur σ) (RCur σ) := fun s =>
  match I.truncate len s.rdr with
  | (.ok _, o) => M.bind (onReader (I.skip len)) (fun _ => M.pure { s with rdr := o }) s
  | (.err e, _) => (.err e, s)
  | (.panic w, _) => (.panic w, s)
  | (.diverge, _) => (.diverge, s)

end Reloc

/-- `RelocateReader` over the inner kind `I` with the relocation `rel` -/
def relocImpl {σ : Type} (I : Impl σ) (rel : Rel) : Impl (RCur σ) where
  view := fun s => I.view s.rdr
  len := fun s => I.len s.rdr
  empty := fun s => { s with rdr := I.empty s.rdr }
  truncate := fun n => Reloc.onReader (I.truncate n)
  offsetFrom := fun m s b => I.offsetFrom m s.rdr b.rdr
  offsetId := fun s => I.offsetId s.rdr
  lookupOffsetId := fun s id => I.lookupOffsetId s.rdr id
  find := fun s b => I.find s.rdr b
  skip := fun n => Reloc.onReader (I.skip n)
  split := Reloc.split I
  toSlice := fun s => I.toSlice s.rdr
  toStr := fun v s => I.toStr v s.rdr
  toLossy := fun v l s => I.toLossy v l s.rdr
  readSlice := fun n => Reloc.onReader (I.readSlice n)
  readAddress := fun m e n => Reloc.relocated I m (I.readAddress m e n) rel.addr
  readOffset := fun m e f => Reloc.relocated I m (I.readOffset m e f) rel.offs
  readSizedOffset := fun m e n => Reloc.relocated I m (I.readSizedOffset m e n) rel.offs

/-- `RelocateReader::new(section, relocate)` -/
def RCur.new {σ : Type} (sct : σ) : RCur σ := { sect := sct, rdr := sct }

/-! ## histories of reader operations -/

/-- one reader operation; `i`, `j` index the table of readers, `k` the table of offset ids -/
inductive Op where
  | fixed (i n : Nat)
  | signed (i n : Nat)
  | uint (i n : Nat)
  | slice (i n : Nat)
  | skip (i n : Nat)
  | split (i n : Nat)
  | trunc (i n : Nat)
  | empty (i : Nat)
  | find (i : Nat) (b : UInt8)
  | clone (i : Nat)
  | drop (i : Nat)
  | offFrom (i j : Nat)
  | offId (i : Nat)
  | lookup (i k : Nat)
  | len (i : Nat)
  | toSlice (i : Nat)
  | toStr (i : Nat)
  | toLossy (i : Nat)
  | nts (i : Nat)
  | uleb (i : Nat)
  | sleb (i : Nat)
  | uleb32 (i : Nat)
  | uleb16 (i : Nat)
  | skipLeb (i : Nat)
  | initLen (i : Nat)
  | addrSize (i : Nat)
  | addr (i n : Nat)
  | word (i : Nat) (f : Format)
  | offset (i : Nat) (f : Format)
  | sizedOff (i n : Nat)
  deriving Repr, DecidableEq

/-- the value part of an observation -/
inductive Val where
  | unit
  | nat (n : Nat)
  | int (z : Int)
  | bytes (b : Bytes)
  | cow (borrowed : Bool) (b : Bytes)
  | opt (o : Option Nat)
  | lenFmt (n : Nat) (f : Format)
  | addr (a : Addr)
  /-- the call returned a reader (shown in `Obs.new`) -/
  | rdr
  /-- the history names a reader that does not exist (any more) -/
  | bad
  deriving Repr, DecidableEq

/-- what is observed of one operation: its result, the window of the reader it was applied to
afterwards, and the window of the reader it returned -/
structure Obs where
  res : Out Val
  tgt : Option View
  new : Option View
  deriving Repr, DecidableEq

/-- the table of live readers and of offset ids taken so far -/
structure St (σ : Type) where
  sect : σ
  rs : List (Option σ)
  ids : List Addr

namespace St
variable {σ : Type}

def init (sct : σ) : St σ := { sect := sct, rs := [some sct], ids := [] }

def get (st : St σ) (i : Nat) : Option σ := (st.rs[i]?).join

def set (st : St σ) (i : Nat) (s : σ) : St σ := { st with rs := st.rs.set i (some s) }

def push (st : St σ) (s : σ) : St σ := { st with rs := st.rs ++ [some s] }

end St

def Obs.bad : Obs := { res := .ok .bad, tgt := none, new := none }

section Step
variable {σ : Type} (I : Impl σ)

/-- apply a `&mut self` method returning a plain value to reader `i` -/
def runM (st : St σ) (i : Nat) (m : M σ Val) : Obs × St σ :=
  match st.get i with
  | none => (Obs.bad, st)
  | some s =>
    let (o, s') := m s
    ({ res := o, tgt := some (I.view s').toView, new := none }, st.set i s')

/-- apply a `&mut self` method returning a reader to reader `i`; the result gets the next index -/
def runNew (st : St σ) (i : Nat) (m : M σ σ) : Obs × St σ :=
  match st.get i with
  | none => (Obs.bad, st)
  | some s =>
    match m s with
    | (.ok r, s') =>
      ({ res := .ok .rdr, tgt := some (I.view s').toView, new := some (I.view r).toView },
        (st.set i s').push r)
    | (.err e, s') => ({ res := .err e, tgt := some (I.view s').toView, new := none }, st.set i s')
    | (.panic w, s') => ({ res := .panic w, tgt := some (I.view s').toView, new := none }, st.set i s')
    | (.diverge, s') => ({ res := .diverge, tgt := some (I.view s').toView, new := none }, st.set i s')

/-- apply a `&self` method to reader `i` -/
def runQ (st : St σ) (i : Nat) (q : σ → Out Val) : Obs × St σ :=
  match st.get i with
  | none => (Obs.bad, st)
  | some s => ({ res := q s, tgt := some (I.view s).toView, new := none }, st)

/-- One operation of a history. `valid`/`lossy` are `str::from_utf8(..).is_ok()` and
`String::from_utf8_lossy`. -/
def step (m : Mode) (e : Endian) (valid : Bytes → Bool) (lossy : Bytes → Bytes)
    (st : St σ) : Op → Obs × St σ
  | .fixed i n => runM I st i (M.map .nat (Dflt.readFixed I.toCore e n))
  | .signed i n => runM I st i (M.map .int (Dflt.readSigned I.toCore e n))
  | .uint i n => runM I st i (M.map .nat (Dflt.readUint I.toCore e n))
  | .slice i n => runM I st i (M.map .bytes (I.readSlice n))
  | .skip i n => runM I st i (M.map (fun _ => .unit) (I.skip n))
  | .split i n => runNew I st i (I.split n)
  | .trunc i n => runM I st i (M.map (fun _ => .unit) (I.truncate n))
  | .empty i => runM I st i (fun s => (.ok .unit, I.empty s))
  | .find i b => runQ I st i (fun s => (I.find s b).map .nat)
  | .clone i => runNew I st i (fun s => (.ok s, s))
  | .drop i =>
    match st.get i with
    | none => (Obs.bad, st)
    | some _ => ({ res := .ok .unit, tgt := none, new := none },
                 { st with rs := st.rs.set i none })
  | .offFrom i j =>
    match st.get j with
    | none => (Obs.bad, st)
    | some b =>
      runQ I st i (fun s => (I.offsetFrom m s b).map (fun n => .opt (some n)))
  | .offId i =>
    match st.get i with
    | none => (Obs.bad, st)
    | some s =>
      ({ res := .ok (.addr (I.offsetId s)), tgt := some (I.view s).toView, new := none },
        { st with ids := st.ids ++ [I.offsetId s] })
  | .lookup i k =>
    match st.ids[k]? with
    | none => (Obs.bad, st)
    | some id => runQ I st i (fun s => .ok (.opt (I.lookupOffsetId s id)))
  | .len i => runQ I st i (fun s => .ok (.nat (I.len s)))
  | .toSlice i => runQ I st i (fun s => (I.toSlice s).map .bytes)
  | .toStr i => runQ I st i (fun s => (I.toStr valid s).map .bytes)
  | .toLossy i => runQ I st i (fun s => (I.toLossy valid lossy s).map (fun (b, x) => .cow b x))
  | .nts i => runNew I st i (Dflt.readNts I.toCore)
  | .uleb i => runM I st i (M.map .nat (Dflt.readUleb I.toCore))
  | .sleb i => runM I st i (M.map .int (Dflt.readSleb I.toCore))
  | .uleb32 i => runM I st i (M.map .nat (Dflt.readUleb32 I.toCore))
  | .uleb16 i => runM I st i (M.map .nat (Dflt.readUleb16 I.toCore))
  | .skipLeb i => runM I st i (M.map (fun _ => .unit) (Dflt.skipLeb I.toCore))
  | .initLen i => runM I st i (M.map (fun (n, f) => .lenFmt n f) (Dflt.readInitialLength I.toCore e))
  | .addrSize i => runM I st i (M.map .nat (Dflt.readAddressSize I.toCore))
  | .addr i n => runM I st i (M.map .nat (I.readAddress m e n))
  | .word i f => runM I st i (M.map .nat (Dflt.readWord I.toCore e f))
  | .offset i f => runM I st i (M.map .nat (I.readOffset m e f))
  | .sizedOff i n => runM I st i (M.map .nat (I.readSizedOffset m e n))

/-- run a history; the trace has one observation per operation -/
def runHist (m : Mode) (e : Endian) (valid : Bytes → Bool) (lossy : Bytes → Bytes) :
    St σ → List Op → List Obs × St σ
  | st, [] => ([], st)
  | st, op :: ops =>
    let (o, st') := step I m e valid lossy st op
    let (os, st'') := runHist m e valid lossy st' ops
    (o :: os, st'')

end Step

/-- the trace of a history started on a fresh reader over `sec` -/
def trace {σ : Type} (I : Impl σ) (sct : σ) (m : Mode) (e : Endian) (valid : Bytes → Bool)
    (lossy : Bytes → Bytes) (ops : List Op) : List Obs :=
  (runHist I m e valid lossy (St.init sct) ops).1

end Gimli.Rd
