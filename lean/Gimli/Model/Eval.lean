import Gimli.Model.Value
import Gimli.Model.Op
/-!
# Model of `Evaluation` (`src/read/op.rs`): the DWARF expression evaluator as a resumable machine

* `Config` — what is fixed before `evaluate()`: byte order, `Encoding`, storage capacities
  (`EvaluationStorage`: `none` = `Vec` (heap, grows), `some n` = `[T; n]`), arithmetic `Mode`
  (only `addr_mask` for impossible address sizes ≥ 9 depends on it), `object_address`, `max_iterations`, `addr_mask`.
* `Mach` — what one operation can touch: `bytecode`, `pc`, value stack, expression (call) stack,
  result pieces, `value_result`.  A reader is "the bytes that remain", so `pc` is the suffix of
  `bytecode` still to execute and `pc.offset_from(bytecode) = bytecode.length - pc.length`.
  The value stack has its **top at the head**; `result` is in push order.
* `Eval` — `Config` + `Mach` + the loop's `iteration` counter + `state` (+ a ghost counter `decodes`
  of `Operation::parse` calls, which influences nothing).

`evaluateOneOperation` only sees `Config` and `Mach`, so that it cannot touch the iteration counter
is visible in its type. Functions return `Out (result × new state)`; an error drops the state: the
Rust object after an `Err` is observable only through `evaluate()`'s sticky `Error` state, which
`evaluate` models; calling `resume_with_*` again after an `Err` is outside the protocol.
The loop of `evaluate_internal` takes fuel (`diverge` when it runs out; C07 `iter_limit` shows
`max_iterations + 2` always suffices when a limit is set).
-/
namespace Gimli.Eval
open Gimli.Op

/-- `gimli::read::Location` -/
inductive Location where
  | empty
  | register (register : Nat)
  | address (address : Nat)
  | value (value : Value)
  | bytes (value : Bytes)
  | implicitPointer (value : Nat) (byteOffset : Int)
  deriving DecidableEq, Repr, Inhabited

/-- `gimli::read::Piece` -/
structure Piece where
  sizeInBits : Option Nat
  bitOffset : Option Nat
  location : Location
  deriving DecidableEq, Repr, Inhabited

/-- `EvaluationWaiting` -/
inductive Waiting where
  | memory
  | register (offset : Int)
  | frameBase (offset : Int)
  | tls
  | cfa
  | atLocation
  | entryValue
  | parameterRef
  | relocatedAddress
  | indexedAddress
  | typedLiteral (value : Bytes)
  | convert
  | reinterpret
  | wasmValue
  deriving DecidableEq, Repr, Inhabited

/-- `EvaluationResult` (what `evaluate`/`resume_with_*` return on success) -/
inductive Request where
  | complete
  | requiresMemory (address : Nat) (size : Nat) (space : Option Nat) (baseType : Nat)
  | requiresRegister (register : Nat) (baseType : Nat)
  | requiresWasmLocal (index : Nat)
  | requiresWasmGlobal (index : Nat)
  | requiresWasmStack (index : Nat)
  | requiresFrameBase
  | requiresTls (index : Nat)
  | requiresCallFrameCfa
  | requiresAtLocation (ref : DieRef)
  | requiresEntryValue (expression : Bytes)
  | requiresParameterRef (offset : Nat)
  | requiresRelocatedAddress (address : Nat)
  | requiresIndexedAddress (index : Nat) (relocate : Bool)
  | requiresBaseType (offset : Nat)
  deriving DecidableEq, Repr, Inhabited

/-- `EvaluationState` -/
inductive State where
  | start (initial : Option Nat)
  | ready
  | error (e : Err)
  | complete
  | waiting (w : Waiting)
  deriving DecidableEq, Repr, Inhabited

/-- `OperationEvaluationResult` -/
inductive OpResult where
  | piece
  | incomplete
  | complete (location : Location)
  | waiting (w : Waiting) (r : Request)
  deriving DecidableEq, Repr, Inhabited

/-- capacities of the three `ArrayVec`s of an `EvaluationStorage` (`none` = `Vec`, grows) -/
structure Caps where
  stack : Option Nat := none
  exprs : Option Nat := none
  pieces : Option Nat := none
  deriving DecidableEq, Repr, Inhabited

structure Config where
  endian : Endian
  encoding : Encoding
  caps : Caps
  mode : Mode
  objectAddress : Option Nat
  maxIterations : Option Nat
  addrMask : Nat
  deriving Repr, Inhabited

structure Mach where
  bytecode : Bytes
  pc : Bytes
  stack : List Value := []
  exprStack : List (Bytes × Bytes) := []
  result : List Piece := []
  valueResult : Option Value := none
  deriving DecidableEq, Repr, Inhabited

structure Eval where
  cfg : Config
  m : Mach
  iteration : Nat := 0
  state : State := .start none
  /-- ghost: how many times `Operation::parse` has been called -/
  decodes : Nat := 0
  deriving Repr, Inhabited

/-! ## `ArrayVec` (`src/read/util.rs`) -/

/-- `ArrayVec::try_push` succeeds iff the backing storage is a `Vec` or `len < N` -/
def hasRoom (cap : Option Nat) (len : Nat) : Bool :=
  match cap with
  | none => true
  | some n => len < n

/-- `Evaluation::pop` -/
def pop (m : Mach) : Out (Value × Mach) :=
  match m.stack with
  | [] => .err .rNotEnoughStackItems
  | v :: rest => .ok (v, { m with stack := rest })

/-- `Evaluation::push` -/
def push (c : Config) (v : Value) (m : Mach) : Out Mach :=
  if hasRoom c.caps.stack m.stack.length then .ok { m with stack := v :: m.stack }
  else .err .rStackFull

/-- `self.result.try_push(piece).map_err(|_| Error::StackFull)` -/
def pushPiece (c : Config) (p : Piece) (m : Mach) : Out Mach :=
  if hasRoom c.caps.pieces m.result.length then .ok { m with result := m.result ++ [p] }
  else .err .rStackFull

/-! ## `Evaluation::new_in` -/

/-- `addr_mask` of `new_in`: `!0` for 8, else `(1 << (8 * address_size)) - 1` on `u64`
(the shift overflows for sizes ≥ 9, which no unit header can announce: debug panics, release
masks the shift amount) -/
def addrMask (mode : Mode) (addressSize : Nat) : Out Nat :=
  if addressSize = 8 then .ok (2 ^ 64 - 1)
  else if 8 * addressSize < 64 then .ok (2 ^ (8 * addressSize) - 1)
  else match mode with
    | .debug => .panic "attempt to shift left with overflow"
    | .release => .ok (2 ^ ((8 * addressSize) % 64) - 1)

/-- `Evaluation::new_in` followed by the optional `set_initial_value`, `set_object_address`,
`set_max_iterations` -/
def new (endian : Endian) (encoding : Encoding) (caps : Caps) (mode : Mode) (bytecode : Bytes)
    (initial objectAddress maxIterations : Option Nat) : Out Eval := do
  let mask ← addrMask mode encoding.addressSize
  pure {
    cfg := { endian, encoding, caps, mode, objectAddress, maxIterations, addrMask := mask }
    m := { bytecode, pc := bytecode }
    state := .start initial }

/-! ## branches -/

/-- `compute_pc(pc, bytecode, offset)`: the new `pc` reader -/
def computePc (pc bytecode : Bytes) (offset : Int) : Out Bytes :=
  let pcOffset := bytecode.length - pc.length
  let newPcOffset := (pcOffset + Value.pat 64 offset) % 2 ^ 64
  if newPcOffset > bytecode.length then .err .rBadBranchTarget
  else .ok (bytecode.drop newPcOffset)

/-! ## one operation -/

/-- pop two, apply a `Value` operation to (lhs, rhs), push -/
def binop (c : Config) (f : Value → Value → Nat → Out Value) (m : Mach) : Out (OpResult × Mach) := do
  let (rhs, m) ← pop m
  let (lhs, m) ← pop m
  let r ← f lhs rhs c.addrMask
  let m ← push c r m
  pure (.incomplete, m)

/-- pop one, apply a `Value` operation, push -/
def unop (c : Config) (f : Value → Nat → Out Value) (m : Mach) : Out (OpResult × Mach) := do
  let (v, m) ← pop m
  let r ← f v c.addrMask
  let m ← push c r m
  pure (.incomplete, m)

/-- the `match operation { … }` of `evaluate_one_operation`, after the decode -/
def execute (c : Config) (op : Operation) (m : Mach) : Out (OpResult × Mach) :=
  match op with
  | .deref baseType size space =>
    if size > c.encoding.addressSize then .err .rInvalidDerefSize else do
    let (entry, m) ← pop m
    let addr ← entry.toU64 c.addrMask
    if space then do
      let (entry, m) ← pop m
      let sp ← entry.toU64 c.addrMask
      pure (.waiting .memory (.requiresMemory addr size (some sp) baseType), m)
    else
      pure (.waiting .memory (.requiresMemory addr size none baseType), m)
  | .drop => do
    let (_, m) ← pop m
    pure (.incomplete, m)
  | .pick index =>
    match m.stack[index]? with
    | none => .err .rNotEnoughStackItems
    | some v => do
      let m ← push c v m
      pure (.incomplete, m)
  | .swap => do
    let (top, m) ← pop m
    let (next, m) ← pop m
    let m ← push c top m
    let m ← push c next m
    pure (.incomplete, m)
  | .rot => do
    let (one, m) ← pop m
    let (two, m) ← pop m
    let (three, m) ← pop m
    let m ← push c one m
    let m ← push c three m
    let m ← push c two m
    pure (.incomplete, m)
  | .abs => unop c Value.abs m
  | .and => binop c Value.and m
  | .div => binop c Value.div m
  | .minus => binop c Value.sub m
  | .mod => binop c Value.rem m
  | .mul => binop c Value.mul m
  | .neg => unop c Value.neg m
  | .not => unop c Value.not m
  | .or => binop c Value.or m
  | .plus => binop c Value.add m
  | .plusConstant value => do
    let (lhs, m) ← pop m
    let rhs ← Value.fromU64 lhs.ty value
    let r ← lhs.add rhs c.addrMask
    let m ← push c r m
    pure (.incomplete, m)
  | .shl => binop c Value.shl m
  | .shr => binop c Value.shr m
  | .shra => binop c Value.shra m
  | .xor => binop c Value.xor m
  | .bra target => do
    let (entry, m) ← pop m
    let v ← entry.toU64 c.addrMask
    if v ≠ 0 then do
      let pc ← computePc m.pc m.bytecode target
      pure (.incomplete, { m with pc := pc })
    else pure (.incomplete, m)
  | .eq => binop c Value.eq m
  | .ge => binop c Value.ge m
  | .gt => binop c Value.gt m
  | .le => binop c Value.le m
  | .lt => binop c Value.lt m
  | .ne => binop c Value.ne m
  | .skip target => do
    let pc ← computePc m.pc m.bytecode target
    pure (.incomplete, { m with pc := pc })
  | .unsignedConstant value => do
    let m ← push c (.generic value) m
    pure (.incomplete, m)
  | .signedConstant value => do
    let m ← push c (.generic (Value.pat 64 value)) m
    pure (.incomplete, m)
  | .registerOffset register offset baseType =>
    .ok (.waiting (.register offset) (.requiresRegister register baseType), m)
  | .frameOffset offset => .ok (.waiting (.frameBase offset) .requiresFrameBase, m)
  | .nop => .ok (.incomplete, m)
  | .pushObjectAddress =>
    match c.objectAddress with
    | some value => do
      let m ← push c (.generic value) m
      pure (.incomplete, m)
    | none => .err .rInvalidPushObjectAddress
  | .call offset => .ok (.waiting .atLocation (.requiresAtLocation offset), m)
  | .tls => do
    let (entry, m) ← pop m
    let index ← entry.toU64 c.addrMask
    pure (.waiting .tls (.requiresTls index), m)
  | .callFrameCFA => .ok (.waiting .cfa .requiresCallFrameCfa, m)
  | .register register => .ok (.complete (.register register), m)
  | .implicitValue data => .ok (.complete (.bytes data), m)
  | .stackValue => do
    let (value, m) ← pop m
    pure (.complete (.value value), m)
  | .implicitPointer value byteOffset => .ok (.complete (.implicitPointer value byteOffset), m)
  | .entryValue expression => .ok (.waiting .entryValue (.requiresEntryValue expression), m)
  | .parameterRef offset => .ok (.waiting .parameterRef (.requiresParameterRef offset), m)
  | .address address => .ok (.waiting .relocatedAddress (.requiresRelocatedAddress address), m)
  | .addressIndex index => .ok (.waiting .indexedAddress (.requiresIndexedAddress index true), m)
  | .constantIndex index => .ok (.waiting .indexedAddress (.requiresIndexedAddress index false), m)
  | .piece sizeInBits bitOffset => do
    let (location, m) ←
      match m.stack with
      | [] => (pure (Location.empty, m) : Out (Location × Mach))
      | _ => do
        let (entry, m) ← pop m
        let address ← entry.toU64 c.addrMask
        pure (Location.address address, m)
    let m ← pushPiece c ⟨some sizeInBits, bitOffset, location⟩ m
    pure (.piece, m)
  | .typedLiteral baseType value => .ok (.waiting (.typedLiteral value) (.requiresBaseType baseType), m)
  | .convert baseType => .ok (.waiting .convert (.requiresBaseType baseType), m)
  | .reinterpret baseType => .ok (.waiting .reinterpret (.requiresBaseType baseType), m)
  | .wasmLocal index => .ok (.waiting .wasmValue (.requiresWasmLocal index), m)
  | .wasmGlobal index => .ok (.waiting .wasmValue (.requiresWasmGlobal index), m)
  | .wasmStack index => .ok (.waiting .wasmValue (.requiresWasmStack index), m)
  | .variableValue _ | .uninitialized => .err .rUnsupportedEvaluation

/-- `Evaluation::evaluate_one_operation`: decode at `pc`, advance `pc`, execute -/
def evaluateOneOperation (c : Config) (m : Mach) : Out (OpResult × Mach) := do
  let (op, rest) ← parse c.endian c.encoding m.pc
  execute c op { m with pc := rest }

/-! ## the control loop -/

/-- the `while self.pc.is_empty()` loop of `end_of_expression` on (pc, bytecode, expression stack) -/
def unwind : Bytes → Bytes → List (Bytes × Bytes) → Bool × Bytes × Bytes × List (Bytes × Bytes)
  | [], bc, [] => (true, [], bc, [])
  | [], _, (pc, bc) :: rest => unwind pc bc rest
  | pc@(_ :: _), bc, stk => (false, pc, bc, stk)

/-- `Evaluation::end_of_expression` (returns the flag and the mutated machine) -/
def endOfExpression (m : Mach) : Bool × Mach :=
  match unwind m.pc m.bytecode m.exprStack with
  | (b, pc, bc, stk) => (b, { m with pc := pc, bytecode := bc, exprStack := stk })

/-- `self.iteration.saturating_add(1)` on a `u32` (the `fix:` for finding C07-2: it used to be an
unchecked `+= 1` before the comparison) -/
def saturatingInc (iteration : Nat) : Nat :=
  if iteration + 1 < 2 ^ 32 then iteration + 1 else 2 ^ 32 - 1

/-- `if let Some(max_iterations) = self.max_iterations && self.iteration >= max_iterations`,
tested before the counter is incremented -/
def overLimit (maxIterations : Option Nat) (iteration : Nat) : Bool :=
  match maxIterations with
  | some mx => iteration ≥ mx
  | none => false

/-- the tail of `evaluate_internal` after the loop: "if no pieces have been seen, use the stack
top as the result" -/
def finish (c : Config) (m : Mach) : Out Mach :=
  match m.result with
  | [] => do
    let (entry, m) ← pop m
    let m := { m with valueResult := some entry }
    let addr ← entry.toU64 c.addrMask
    pushPiece c ⟨none, none, .address addr⟩ m
  | _ => .ok m

/-- what follows a location-completing operation (`OperationEvaluationResult::Complete`).
Returns the machine and whether an extra operation was decoded. -/
def afterComplete (c : Config) (location : Location) (m : Mach) : Out (Mach × Bool) :=
  match endOfExpression m with
  | (true, m) =>
    match m.result with
    | [] => do
      let m ← pushPiece c ⟨none, none, location⟩ m
      pure (m, false)
    | _ => .err .rInvalidPiece
  | (false, m) => do
    -- "If there are more operations, then the next operation must be a Piece."
    let (op, rest) ← parse c.endian c.encoding m.pc
    let m := { m with pc := rest }
    match op with
    | .piece sizeInBits bitOffset => do
      let m ← pushPiece c ⟨some sizeInBits, bitOffset, location⟩ m
      pure (m, true)
    | _ => .err .rInvalidExpressionTerminator

/-- the `match op_result { … }` of `evaluate_internal`; `k` is "go round the loop again" -/
def afterOp (k : Eval → Out (Request × Eval)) (s : Eval) (r : OpResult) (m : Mach) : Out (Request × Eval) :=
  match r with
  | .piece => k { s with m := m }
  | .incomplete =>
    match endOfExpression m with
    | (eoe, m) =>
      match eoe && !m.result.isEmpty with
      | true => .err .rInvalidPiece
      | false => k { s with m := m }
  | .complete location => do
    let (m, extra) ← afterComplete s.cfg location m
    k { s with m := m, decodes := s.decodes + (if extra then 1 else 0) }
  | .waiting w r => pure (r, { s with m := m, state := .waiting w })

/-- one trip round the `while !self.end_of_expression()` loop of `evaluate_internal` (or its exit) -/
def loopBody (k : Eval → Out (Request × Eval)) (s : Eval) : Out (Request × Eval) :=
  match endOfExpression s.m with
  | (true, m) => do
    let m ← finish s.cfg m
    pure (.complete, { s with m := m, state := .complete })
  | (false, m) =>
    match overLimit s.cfg.maxIterations s.iteration with
    | true => .err .rTooManyIterations
    | false => do
      let (r, m') ← evaluateOneOperation s.cfg m
      afterOp k { s with m := m, iteration := saturatingInc s.iteration, decodes := s.decodes + 1 } r m'

/-- `Evaluation::evaluate_internal` with fuel for the `while` loop -/
def evaluateInternal : Nat → Eval → Out (Request × Eval)
  | 0, _ => .diverge
  | fuel + 1, s => loopBody (evaluateInternal fuel) s

/-- `Evaluation::evaluate`. An error is sticky: the returned state is `Error(e)` and every later
`evaluate`/`resume_with_*` returns `e` again. -/
def evaluate (fuel : Nat) (s : Eval) : Out (Request × Eval) × Eval :=
  let start (s : Eval) : Out (Request × Eval) × Eval :=
    match evaluateInternal fuel s with
    | .ok (r, s') => (.ok (r, s'), s')
    | .err e => (.err e, { s with state := .error e })
    | .panic w => (.panic w, s)
    | .diverge => (.diverge, s)
  match s.state with
  | .start initial =>
    match initial with
    | some value =>
      match push s.cfg (.generic value) s.m with
      | .ok m => start { s with m := m, state := .ready }
      | .err e => (.err e, s)   -- `?` before the state changes: a retry pushes again
      | .panic w => (.panic w, s)
      | .diverge => (.diverge, s)
    | none => start { s with state := .ready }
  | .ready => start s
  | .error e => (.err e, s)
  | .complete => (.ok (.complete, s), s)
  | .waiting _ => (.panic "evaluate() while waiting", s)

/-! ## resuming -/

/-- the argument of the `resume_with_*` call -/
inductive Answer where
  | memory (value : Value)
  | register (value : Value)
  | wasmValue (value : Value)
  | frameBase (frameBase : Nat)
  | tls (value : Nat)
  | callFrameCfa (cfa : Nat)
  | atLocation (bytes : Bytes)
  | entryValue (value : Value)
  | parameterRef (value : Nat)
  | relocatedAddress (address : Nat)
  | indexedAddress (address : Nat)
  | baseType (baseType : ValueType)
  deriving DecidableEq, Repr, Inhabited

/-- the state update of `resume_with_*` before it calls `evaluate_internal`; a call that does not
match the pending request is the documented panic -/
def applyAnswer (c : Config) (w : Waiting) (a : Answer) (m : Mach) : Out Mach :=
  match w, a with
  | .memory, .memory value => push c value m
  | .register offset, .register value => do
    let off ← Value.fromU64 value.ty (Value.pat 64 offset)
    let v ← value.add off c.addrMask
    push c v m
  | .wasmValue, .wasmValue value => push c value m
  | .frameBase offset, .frameBase fb => push c (.generic ((fb + Value.pat 64 offset) % 2 ^ 64)) m
  | .tls, .tls value => push c (.generic value) m
  | .cfa, .callFrameCfa cfa => push c (.generic cfa) m
  | .atLocation, .atLocation bytes =>
    match bytes with
    | [] => .ok m
    | _ =>
      if hasRoom c.caps.exprs m.exprStack.length then
        .ok { m with pc := bytes, bytecode := bytes, exprStack := (m.pc, m.bytecode) :: m.exprStack }
      else .err .rStackFull
  | .entryValue, .entryValue value => push c value m
  | .parameterRef, .parameterRef value => push c (.generic value) m
  | .relocatedAddress, .relocatedAddress address => push c (.generic address) m
  | .indexedAddress, .indexedAddress address => push c (.generic address) m
  | .typedLiteral bytes, .baseType t => do
    let v ← Value.parse c.endian t bytes
    push c v m
  | .convert, .baseType t => do
    let (entry, m) ← pop m
    let v ← entry.convert t c.addrMask
    push c v m
  | .reinterpret, .baseType t => do
    let (entry, m) ← pop m
    let v ← entry.reinterpret t c.addrMask
    push c v m
  | _, _ => .panic "resume_with_* without the matching Requires*"

/-- `Evaluation::resume_with_*` -/
def resume (fuel : Nat) (a : Answer) (s : Eval) : Out (Request × Eval) :=
  match s.state with
  | .error e => .err e
  | .waiting w => do
    let m ← applyAnswer s.cfg w a s.m
    evaluateInternal fuel { s with m := m }
  | _ => .panic "resume_with_* without the matching Requires*"

/-! ## whole runs: `evaluate`, then one `resume_with_*` per request, answers from a script -/

/-- one scripted answer, usable for whatever the evaluator asks next: a `Value` (requests that
take a value), its `u64` reading (`bits`, requests that take a `u64`), a `ValueType` (base type
requests) and a byte string (`resume_with_at_location`) -/
structure Tok where
  value : Value
  bytes : Bytes
  deriving DecidableEq, Repr, Inhabited

/-- which `resume_with_*` the protocol demands for a request, fed from the token -/
def answerFor (r : Request) (t : Tok) : Answer :=
  match r with
  | .complete => .memory t.value   -- not used: a run stops at `Complete`
  | .requiresMemory .. => .memory t.value
  | .requiresRegister .. => .register t.value
  | .requiresWasmLocal _ | .requiresWasmGlobal _ | .requiresWasmStack _ => .wasmValue t.value
  | .requiresFrameBase => .frameBase (t.value.bits % 2 ^ 64)
  | .requiresTls _ => .tls (t.value.bits % 2 ^ 64)
  | .requiresCallFrameCfa => .callFrameCfa (t.value.bits % 2 ^ 64)
  | .requiresAtLocation _ => .atLocation t.bytes
  | .requiresEntryValue _ => .entryValue t.value
  | .requiresParameterRef _ => .parameterRef (t.value.bits % 2 ^ 64)
  | .requiresRelocatedAddress _ => .relocatedAddress (t.value.bits % 2 ^ 64)
  | .requiresIndexedAddress .. => .indexedAddress (t.value.bits % 2 ^ 64)
  | .requiresBaseType _ => .baseType t.value.ty

/-- how a run ends -/
inductive Final where
  | done (pieces : List Piece) (valueResult : Option Value)
  | error (e : Err)
  | panicked (why : String)
  | diverged
  | scriptEnd
  deriving DecidableEq, Repr, Inhabited

def finalOf {α} : Out α → Final
  | .ok _ => .scriptEnd
  | .err e => .error e
  | .panic w => .panicked w
  | .diverge => .diverged

/-- after `evaluate()` returned `r` in state `s`: answer requests from the script until
`Complete`, an error, or the end of the script. Returns the requests seen (including `r`) and
the end, plus the final evaluator state when there is one. -/
def runFrom (fuel : Nat) : List Tok → Request → Eval → List Request × Final × Option Eval
  | _, .complete, s => ([.complete], .done s.m.result s.m.valueResult, some s)
  | [], r, s => ([r], .scriptEnd, some s)
  | t :: toks, r, s =>
    match resume fuel (answerFor r t) s with
    | .ok (r', s') =>
      match runFrom fuel toks r' s' with
      | (tr, f, e) => (r :: tr, f, e)
    | o => ([r], finalOf o, none)

/-- a whole run from a fresh evaluator -/
def run (fuel : Nat) (toks : List Tok) (s : Eval) : List Request × Final × Option Eval :=
  match evaluate fuel s with
  | (.ok (r, s'), _) => runFrom fuel toks r s'
  | (o, _) => ([], finalOf o, none)

end Gimli.Eval
