import Gimli.Model.Lists
/-!
# Model of `src/write/range.rs`, `src/write/loc.rs` and the list part of `src/write/unit.rs`

`RangeListTable::{add, write, write_ranges, write_rnglists}`,
`LocationListTable::{add, write, write_loc, write_loclists}`, `write_expression` (loc.rs), the
derivation of `have_base_address` in `Unit::write` and the hand-over of list offsets to the
`RangeListRef` / `LocationListRef` attributes.

The two Rust modules are the same code up to the entry codes, the location description carried by
location entries and `Location::DefaultLocation`; the Model has one copy parameterised by `Kind`
(`Range` = an entry without expression; `Range` has no `DefaultLocation` variant: `EntryOfKind`).

* `Addr` — `write::Address` (`Constant` / `Symbol`); the writer is the default `Writer`
  (`EndianVec`): `write_address` of a `Symbol` is `Err(InvalidAddress)`.
* `XOp`, `WExpr` — the part of `write::Expression` that is modelled (see `props/C16.json`):
  raw bytecode, an operand-less opcode, `DW_OP_addr`, `op_constu`, and the three operations that
  refer to DIEs (`op_call`, `op_convert`: unit offsets, available only once DIE offsets are known;
  `op_call_ref`: a `.debug_info` offset patched in by `UnitTable::write`).
* machine integers are `Nat`s `< 2^64` (`U64Entry`); `usize` is 64 bits.
-/
namespace Gimli.WLists
open Gimli Gimli.Ints
export Gimli.Spec.Lists (Kind Fmt Cfg)

/-- `write::Address` -/
inductive Addr where
  | const (v : Nat)
  | symbol (sym : Nat) (addend : Int)
  deriving DecidableEq, Repr, Inhabited

/-- the modelled variants of `write::op::Operation` -/
inductive XOp where
  /-- `Operation::Raw` (`Expression::raw`) -/
  | raw (bs : Bytes)
  /-- `Operation::Simple(DwOp(op))` -/
  | simple (op : Nat)
  /-- `Operation::Address` (`DW_OP_addr`) -/
  | addr (a : Addr)
  /-- `Operation::UnsignedConstant` (`DW_OP_lit*` / `DW_OP_constu`) -/
  | constu (v : Nat)
  /-- `Operation::Call(entry)` (`DW_OP_call4`, unit offset of DIE `entry`) -/
  | call (entry : Nat)
  /-- `Operation::Convert(base)` (`DW_OP_convert` / `DW_OP_GNU_convert`, ULEB unit offset) -/
  | convert (base : Option Nat)
  /-- `Operation::CallRef(DebugInfoRef::Entry(unit, entry))` (`DW_OP_call_ref`) -/
  | callRef (entry : Nat)
  deriving DecidableEq, Repr, Inhabited

/-- `write::Expression` (its `operations`) -/
abbrev WExpr := List XOp

/-- `write::Range` / `write::Location` (`x` = `data`, `[]` in a `Range`) -/
inductive WEntry where
  | baseAddress (a : Addr)
  | offsetPair (b e : Nat) (x : WExpr)
  | startEnd (b e : Addr) (x : WExpr)
  | startLength (b : Addr) (len : Nat) (x : WExpr)
  | defaultLocation (x : WExpr)
  deriving DecidableEq, Repr, Inhabited

/-- `RangeList` / `LocationList` -/
abbrev WList := List WEntry

/-- `UnitOffsets::unit_offset(entry)`: the unit-relative offset of DIE number `entry`, `none` if
it has not been assigned -/
abbrev EOff := Nat → Option Nat

/-- what the Rust types guarantee: a `Range` has no expression and no `DefaultLocation` -/
def EntryOfKind : Kind → WEntry → Prop
  | .loc, _ => True
  | .rng, .baseAddress _ => True
  | .rng, .offsetPair _ _ x => x = []
  | .rng, .startEnd _ _ x => x = []
  | .rng, .startLength _ _ x => x = []
  | .rng, .defaultLocation _ => False

instance (k : Kind) (x : WEntry) : Decidable (EntryOfKind k x) := by
  unfold EntryOfKind; cases k <;> cases x <;> infer_instance

/-! ## `Writer` primitives on top of `Ints` -/

/-- `Writer::write_address` (default implementation) -/
def writeAddress (c : Cfg) : Addr → Out Bytes
  | .const v => writeUdata c.endian v c.addrSize
  | .symbol _ _ => .err .wInvalidAddress

/-! ## `write_expression` -/

/-- `Operation::size` -/
def opSize (c : Cfg) (eo : EOff) : XOp → Out Nat
  | .raw bs => .ok bs.length
  | .simple _ => .ok 1
  | .addr _ => .ok (1 + c.addrSize)
  | .constu v => .ok (if v < 32 then 1 else 1 + Leb.sizeU v)
  | .call _ => .ok (1 + 4)
  | .convert none => .ok (1 + 1)
  | .convert (some i) =>
    match eo i with
    | some o => .ok (1 + Leb.sizeU o)
    | none => .err .wUnsupportedExpressionForwardReference
  | .callRef _ => .ok (1 + c.format.wordSize)

/-- `Expression::size` -/
def exprSize (c : Cfg) (eo : EOff) : WExpr → Out Nat
  | [] => .ok 0
  | op :: rest => do
    let a ← opSize c eo op
    let b ← exprSize c eo rest
    pure (a + b)

/-- `Operation::write`. `DW_OP_call_ref`: the Rust code writes a zero placeholder and records a
`DebugInfoFixup`; `UnitTable::write` patches the `.debug_info` offset of the entry in afterwards
(`uoff` = offset of the unit in `.debug_info`). The Model emits the patched bytes directly; the
deferred errors (`InvalidReference`, `ValueTooLarge`) are therefore reported in place. -/
def writeOp (c : Cfg) (eo : EOff) (uoff : Nat) : XOp → Out Bytes
  | .raw bs => .ok bs
  | .simple op => .ok [UInt8.ofNat op]
  | .addr a => do
    let bs ← writeAddress c a
    pure (0x03 :: bs)
  | .constu v => .ok (if v < 32 then [UInt8.ofNat (0x30 + v)] else 0x10 :: Leb.encodeU v)
  | .call i =>
    match eo i with
    | none => .err .wUnsupportedExpressionForwardReference
    | some o => do
      let bs ← writeUdata c.endian o 4
      pure (0x99 :: bs)
  | .convert base =>
    let opc : UInt8 := if c.version ≥ 5 then 0xa8 else 0xf7
    match base with
    | none => .ok [opc, 0]
    | some i =>
      match eo i with
      | none => .err .wUnsupportedExpressionForwardReference
      | some o => .ok (opc :: Leb.encodeU o)
  | .callRef i =>
    match eo i with
    | none => .err .wInvalidReference
    | some o => do
      let bs ← writeUdata c.endian (uoff + o) c.format.wordSize
      pure (0x9a :: bs)

def writeOps (c : Cfg) (eo : EOff) (uoff : Nat) : WExpr → Out Bytes
  | [] => .ok []
  | op :: rest => do
    let a ← writeOp c eo uoff op
    let b ← writeOps c eo uoff rest
    pure (a ++ b)

/-- `Expression::write`: the sizes of all operations are computed first (branch targets), then
the operations are written -/
def writeExprBody (c : Cfg) (eo : EOff) (uoff : Nat) (x : WExpr) : Out Bytes := do
  let _ ← exprSize c eo x
  writeOps c eo uoff x

/-- the length field of `write_expression`: 2 bytes before DWARF 5 (`write_udata(size, 2)`:
`ValueTooLarge` from 65536 bytes on), ULEB128 in DWARF 5 -/
def writeExprLen (c : Cfg) (size : Nat) : Out Bytes :=
  if c.version ≤ 4 then writeUdata c.endian size 2 else .ok (Leb.encodeU size)

/-- `write_expression` of loc.rs: the length field, then the operations -/
def writeExpression (c : Cfg) (eo : EOff) (uoff : Nat) (x : WExpr) : Out Bytes := do
  let size ← exprSize c eo x
  let len ← writeExprLen c size
  let body ← writeExprBody c eo uoff x
  pure (len ++ body)

/-- the location description of an entry: nothing in range lists -/
def writeData (k : Kind) (c : Cfg) (eo : EOff) (uoff : Nat) (x : WExpr) : Out Bytes :=
  match k with
  | .rng => .ok []
  | .loc => writeExpression c eo uoff x

/-! ## DWARF ≤ 4: `write_ranges` / `write_loc` -/

/-- `let marker = !0 >> (64 - address_size * 8);` — `address_size: u8`, so the shift amount is
computed in `u8`: for sizes outside 1..8 the expression overflows (panic with overflow checks,
wrapped otherwise; `write_udata(marker, size)` then rejects the size in any case). It is computed
once, before the first list of a non-empty table (repo fix 58a3924). Since `Unit::write` rejects
those sizes up front the overflow is unreachable through the public API. -/
def marker (m : Mode) (size : Nat) : Out Nat :=
  if 1 ≤ size ∧ size ≤ 8 then .ok (2 ^ (8 * size) - 1)
  else match m with
    | .debug =>
      if 32 ≤ size then .panic "attempt to multiply with overflow"
      else if 9 ≤ size then .panic "attempt to subtract with overflow"
      else .panic "attempt to shift right with overflow"
    | .release =>
      let sh := ((64 + 256 - (size * 8) % 256) % 256) % 64
      .ok ((2 ^ 64 - 1) >>> sh)

/-- the end address of a `StartLength` entry: `begin.checked_add(length)` for a constant,
`i64::try_from(length)` + `addend.checked_add` for a symbol; `InvalidRange` on overflow -/
def endOf : Addr → Nat → Out Addr
  | .const b, len => if b + len < 2 ^ 64 then .ok (.const (b + len)) else .err .wInvalidRange
  | .symbol s a, len =>
    if len < 2 ^ 63 ∧ a + (len : Int) < 2 ^ 63 then .ok (.symbol s (a + len)) else .err .wInvalidRange

/-- an address pair followed by the location description -/
def writeAddrPair (k : Kind) (c : Cfg) (eo : EOff) (uoff : Nat) (b e : Addr) (x : WExpr) :
    Out Bytes := do
  let b1 ← writeAddress c b
  let b2 ← writeAddress c e
  let d ← writeData k c eo uoff x
  pure (b1 ++ b2 ++ d)

/-- one entry of `write_ranges` / `write_loc`; `mk` is the all-ones `marker`, the state is
`have_base_address`. An entry whose `begin` equals the marker would be read as a base address
selection: it is rejected with `InvalidRange`, like an empty range (repo fix 58a3924). -/
def writeEntryBare (mk : Nat) (k : Kind) (c : Cfg) (eo : EOff) (uoff : Nat) (haveBase : Bool) :
    WEntry → Out (Bytes × Bool)
  | .baseAddress a => do
    let b1 ← writeUdata c.endian mk c.addrSize
    let b2 ← writeAddress c a
    pure (b1 ++ b2, true)
  | .offsetPair b e x =>
    if b = e ∨ b = mk then .err .wInvalidRange
    else if haveBase = false then .err .wMissingBaseAddress
    else do
      let b1 ← writeUdata c.endian b c.addrSize
      let b2 ← writeUdata c.endian e c.addrSize
      let d ← writeData k c eo uoff x
      pure (b1 ++ b2 ++ d, haveBase)
  | .startEnd b e x =>
    if b = e ∨ b = .const mk then .err .wInvalidRange
    else if haveBase = true then .err .wUnexpectedBaseAddress
    else do
      let bs ← writeAddrPair k c eo uoff b e x
      pure (bs, haveBase)
  | .startLength b len x => do
    let e ← endOf b len
    if b = e ∨ b = .const mk then .err .wInvalidRange
    else if haveBase = true then .err .wUnexpectedBaseAddress
    else do
      let bs ← writeAddrPair k c eo uoff b e x
      pure (bs, haveBase)
  | .defaultLocation _ => .err .wInvalidRange

/-- the `(0, 0)` end-of-list pair -/
def writeTermBare (c : Cfg) : Out Bytes := do
  let z1 ← writeUdata c.endian 0 c.addrSize
  let z2 ← writeUdata c.endian 0 c.addrSize
  pure (z1 ++ z2)

/-- the entries of one list -/
def writeEntriesBare (mk : Nat) (k : Kind) (c : Cfg) (eo : EOff) (uoff : Nat) :
    Bool → WList → Out Bytes
  | _, [] => writeTermBare c
  | hb, x :: xs => do
    let (bs, hb') ← writeEntryBare mk k c eo uoff hb x
    let rest ← writeEntriesBare mk k c eo uoff hb' xs
    pure (bs ++ rest)

/-! ## DWARF 5: `write_rnglists` / `write_loclists` -/

/-- `DW_RLE_*` / `DW_LLE_*` as used by the writer -/
def codeBaseAddress : Kind → UInt8 | .rng => 0x05 | .loc => 0x06
def codeOffsetPair : Kind → UInt8 | _ => 0x04
def codeStartEnd : Kind → UInt8 | .rng => 0x06 | .loc => 0x07
def codeStartLength : Kind → UInt8 | .rng => 0x07 | .loc => 0x08
def codeDefaultLocation : UInt8 := 0x05
def codeEndOfList : UInt8 := 0x00

/-- one entry of `write_rnglists` / `write_loclists`: nothing is rejected here except what the
integer writers reject -/
def writeEntryCoded (k : Kind) (c : Cfg) (eo : EOff) (uoff : Nat) : WEntry → Out Bytes
  | .baseAddress a => do
    let b ← writeAddress c a
    pure (codeBaseAddress k :: b)
  | .offsetPair b e x => do
    let d ← writeData k c eo uoff x
    pure (codeOffsetPair k :: (Leb.encodeU b ++ Leb.encodeU e ++ d))
  | .startEnd b e x => do
    let bs ← writeAddrPair k c eo uoff b e x
    pure (codeStartEnd k :: bs)
  | .startLength b len x => do
    let b1 ← writeAddress c b
    let d ← writeData k c eo uoff x
    pure (codeStartLength k :: (b1 ++ Leb.encodeU len ++ d))
  | .defaultLocation x => do
    let d ← writeData k c eo uoff x
    pure (codeDefaultLocation :: d)

def writeEntriesCoded (k : Kind) (c : Cfg) (eo : EOff) (uoff : Nat) : WList → Out Bytes
  | [] => .ok [codeEndOfList]
  | x :: xs => do
    let bs ← writeEntryCoded k c eo uoff x
    let rest ← writeEntriesCoded k c eo uoff xs
    pure (bs ++ rest)

/-! ## tables -/

/-- the lists of a table one after the other from section offset `start` on: the bytes and the
offset of every list (`offsets.push(w.offset())`) -/
def writeLists (one : WList → Out Bytes) : Nat → List WList → Out (Bytes × List Nat)
  | _, [] => .ok ([], [])
  | start, l :: ls => do
    let bs ← one l
    let (rest, offs) ← writeLists one (start + bs.length) ls
    pure (bs ++ rest, start :: offs)

/-- the table header after the initial length: version, address size, segment selector size,
offset entry count (always 0: `DW_FORM_rnglistx` / `DW_FORM_loclistx` are not written) -/
def headerBody (c : Cfg) : Bytes :=
  toBytes c.endian 2 c.version ++ [UInt8.ofNat c.addrSize, 0] ++ toBytes c.endian 4 0

/-- size of the initial length field -/
def initialLengthSize : Format → Nat
  | .dwarf32 => 4
  | .dwarf64 => 12

/-- `RangeListTable::write` / `LocationListTable::write` into an empty or partly filled section
(`start` = its current length): the bytes appended and the offset of every list of the table. -/
def writeTable (m : Mode) (k : Kind) (c : Cfg) (eo : EOff) (uoff : Nat) (unitBase : Bool)
    (start : Nat) (tbl : List WList) : Out (Bytes × List Nat) :=
  if tbl.isEmpty then .ok ([], [])     -- `…ListOffsets::none()`
  else if 2 ≤ c.version ∧ c.version ≤ 4 then do
    let mk ← marker m c.addrSize
    writeLists (writeEntriesBare mk k c eo uoff unitBase) start tbl
  else if c.version = 5 then do
    let hdr := initialLengthSize c.format + 8
    let (body, offs) ← writeLists (writeEntriesCoded k c eo uoff) (start + hdr) tbl
    let len ← writeInitialLength c.endian c.format (8 + body.length)
    pure (len ++ headerBody c ++ body, offs)
  else .err .wUnsupportedVersion

/-! ## `add`: de-duplication (`FnvIndexSet::insert_full`) -/

/-- position of the first list equal to `l` -/
def indexOf (l : WList) : List WList → Option Nat
  | [] => none
  | x :: xs => if x = l then some 0 else (indexOf l xs).map (· + 1)

/-- `RangeListTable::add` / `LocationListTable::add`: the table afterwards and the id's index -/
def add (tbl : List WList) (l : WList) : List WList × Nat :=
  match indexOf l tbl with
  | some i => (tbl, i)
  | none => (tbl ++ [l], tbl.length)

/-- a sequence of `add` calls: the final table and the id returned by every call -/
def addAll : List WList → List WList → List WList × List Nat
  | tbl, [] => (tbl, [])
  | tbl, l :: ls =>
    let r := add tbl l
    let rs := addAll r.1 ls
    (rs.1, r.2 :: rs.2)

/-! ## the unit -/

/-- `have_base_address` of `Unit::write`: the root DIE has a `DW_AT_low_pc` whose value is not
`Address::Constant(0)` (`lowPc = none`: no such attribute) -/
def haveBaseAddress : Option Addr → Bool
  | none => false
  | some (.const 0) => false
  | some _ => true

/-- a unit as far as its lists are concerned -/
structure UnitIn where
  cfg : Cfg
  /-- `DW_AT_low_pc` of the root DIE (an `AttributeValue::Address`) -/
  lowPc : Option Addr
  /-- unit offsets of the DIEs expressions may refer to -/
  eoff : List Nat
  /-- the arguments of the successive `unit.ranges.add(…)` calls -/
  rng : List WList
  /-- the arguments of the successive `unit.locations.add(…)` calls -/
  loc : List WList
  deriving Repr

structure UnitOut where
  /-- index of the id every `add` returned -/
  rngIds : List Nat
  locIds : List Nat
  /-- the offset written for a `RangeListRef(id)` / `LocationListRef(id)` attribute, per `add` -/
  rngOffs : List Nat
  locOffs : List Nat
  debugRanges : Bytes
  debugRnglists : Bytes
  debugLoc : Bytes
  debugLoclists : Bytes
  deriving Repr, DecidableEq

/-- `…ListOffsets::get(id)` for every id (`offsets[id.index]`) -/
def handOver (offs : List Nat) (ids : List Nat) : List Nat := ids.map fun i => offs.getD i 0

/-- `UnitOffsets::unit_offset` for the DIEs of the unit -/
def unitEOff (u : UnitIn) : EOff := fun i => u.eoff[i]?

/-- the root DIE's `DW_AT_low_pc` is written with `write_address` (after the lists) -/
def writeLowPc (c : Cfg) : Option Addr → Out Bytes
  | none => .ok []
  | some a => writeAddress c a

/-- the observable result: ids, the offsets handed to the attributes, and the four list sections
(`.debug_ranges` / `.debug_loc` up to DWARF 4, `.debug_rnglists` / `.debug_loclists` in DWARF 5) -/
def mkOut (c : Cfg) (rids lids : List Nat) (r l : Bytes × List Nat) : UnitOut :=
  let legacy := decide (c.version ≤ 4)
  { rngIds := rids, locIds := lids,
    rngOffs := handOver r.2 rids, locOffs := handOver l.2 lids,
    debugRanges := if legacy then r.1 else [],
    debugRnglists := if legacy then [] else r.1,
    debugLoc := if legacy then l.1 else [],
    debugLoclists := if legacy then [] else l.1 }

/-- where a unit is written: its offset in `.debug_info` and the current lengths of the range-list
and location-list sections its version selects (all 0 for the first unit of fresh `Sections`) -/
structure Pos where
  uoff : Nat := 0
  rngStart : Nat := 0
  locStart : Nat := 0
  deriving Repr, DecidableEq

/-- The list-related part of `Unit::write`: the address size check (`fix: reject unsupported
address sizes when writing a unit`: anything but 1, 2, 4, 8 is `UnsupportedWordSize` before
anything is written), the version check of the unit header, `have_base_address`, the range list
table, the location list table (DIE offsets are known by then), and finally the root DIE's
`DW_AT_low_pc` (written with `write_address`, which can still fail). The section fields of the
result are the bytes this unit appends. -/
def writeUnitAt (m : Mode) (u : UnitIn) (p : Pos) : Out UnitOut :=
  if ¬ (u.cfg.addrSize = 1 ∨ u.cfg.addrSize = 2 ∨ u.cfg.addrSize = 4 ∨ u.cfg.addrSize = 8) then
    .err .wUnsupportedWordSize
  else if ¬ (2 ≤ u.cfg.version ∧ u.cfg.version ≤ 5) then .err .wUnsupportedVersion else do
  let hb := haveBaseAddress u.lowPc
  let ra := addAll [] u.rng
  let la := addAll [] u.loc
  let r ← writeTable m .rng u.cfg (unitEOff u) p.uoff hb p.rngStart ra.1
  let l ← writeTable m .loc u.cfg (unitEOff u) p.uoff hb p.locStart la.1
  let _ ← writeLowPc u.cfg u.lowPc
  pure (mkOut u.cfg ra.2 la.2 r l)

/-- a unit written first into fresh `Sections` -/
def writeUnit (m : Mode) (u : UnitIn) : Out UnitOut := writeUnitAt m u {}

/-- `UnitTable::write` for two units: the second unit's tables follow the first unit's in the
sections its version selects; `uoffB` is the second unit's offset in `.debug_info`. The result
is the two units' ids/offsets and the four sections. -/
def writeUnits2 (m : Mode) (a b : UnitIn) (uoffB : Nat) : Out (UnitOut × UnitOut) := do
  let oa ← writeUnitAt m a {}
  let legacy := decide (b.cfg.version ≤ 4)
  let pb : Pos := {
    uoff := uoffB,
    rngStart := if legacy then oa.debugRanges.length else oa.debugRnglists.length,
    locStart := if legacy then oa.debugLoc.length else oa.debugLoclists.length }
  let ob ← writeUnitAt m b pb
  pure (oa, ob)

end Gimli.WLists
