import Gimli.Prim.Basic
/-!
# Model of `src/leb128.rs`

Each function mirrors the Rust loop of the same name.  Machine integers are `Nat`
with explicit reduction `% 2^64` where the Rust operation can drop bits
(`low_bits << shift`).  `byte & CONTINUATION_BIT == 0` is `b.toNat < 128`,
`low_bits_of_byte b` is `b.toNat % 128` (the correspondence check pins both).
-/
namespace Gimli.Leb

/-- `leb128::read::skip` -/
def skip : Bytes → Out Bytes
  | [] => .err .rUnexpectedEof
  | b :: rest => if b.toNat < 128 then .ok rest else skip rest

/-- the `loop` of `leb128::read::unsigned` (entered with `shift = 7` after the unpeeled
first byte). `result |= low_bits << shift` on `u64`. -/
def unsignedLoop : Bytes → (result shift : Nat) → Out (Nat × Bytes)
  | [], _, _ => .err .rUnexpectedEof
  | b :: rest, result, shift =>
    if shift = 63 ∧ b.toNat ≠ 0 ∧ b.toNat ≠ 1 then .err .rBadUnsignedLeb128
    else
      let result := result ||| (((b.toNat % 128) <<< shift) % 2 ^ 64)
      if b.toNat < 128 then .ok (result, rest)
      else unsignedLoop rest result (shift + 7)

/-- `leb128::read::unsigned` -/
def unsigned : Bytes → Out (Nat × Bytes)
  | [] => .err .rUnexpectedEof
  | b :: rest =>
    if b.toNat < 128 then .ok (b.toNat, rest)
    else unsignedLoop rest (b.toNat % 128) 7

/-- `leb128::read::u16` -/
def u16 : Bytes → Out (Nat × Bytes)
  | [] => .err .rUnexpectedEof
  | b0 :: r0 =>
    if b0.toNat < 128 then .ok (b0.toNat, r0) else
    match r0 with
    | [] => .err .rUnexpectedEof
    | b1 :: r1 =>
      let result := (b0.toNat % 128) ||| (((b1.toNat % 128) <<< 7) % 2 ^ 16)
      if b1.toNat < 128 then .ok (result, r1) else
      match r1 with
      | [] => .err .rUnexpectedEof
      | b2 :: r2 =>
        if b2.toNat > 3 then .err .rBadUnsignedLeb128
        else .ok (result + ((b2.toNat <<< 14) % 2 ^ 16), r2)

/-- two's complement reading of a 64-bit pattern -/
def toI64 (n : Nat) : Int :=
  if n % 2 ^ 64 < 2 ^ 63 then (n % 2 ^ 64 : Nat) else ((n % 2 ^ 64 : Nat) : Int) - 2 ^ 64

/-- two's complement pattern of an `i64` -/
def ofI64 (i : Int) : Nat := (i % 2 ^ 64).toNat

/-- the `loop` of `leb128::read::signed`; `result` is the `i64` bit pattern as a `Nat < 2^64`.
Returns pattern, final `shift`, last byte, rest. -/
def signedLoop : Bytes → (result shift : Nat) → Out (Nat × Nat × UInt8 × Bytes)
  | [], _, _ => .err .rUnexpectedEof
  | b :: rest, result, shift =>
    if shift = 63 ∧ b.toNat ≠ 0 ∧ b.toNat ≠ 0x7f then .err .rBadSignedLeb128
    else
      let result := result ||| (((b.toNat % 128) <<< shift) % 2 ^ 64)
      let shift := shift + 7
      if b.toNat < 128 then .ok (result, shift, b, rest)
      else signedLoop rest result shift

/-- `leb128::read::signed` -/
def signed (bs : Bytes) : Out (Int × Bytes) :=
  match signedLoop bs 0 0 with
  | .ok (result, shift, byte, rest) =>
    let result :=
      if shift < 64 ∧ (byte.toNat / 64) % 2 = 1 then
        -- result |= !0 << shift
        result ||| ((2 ^ 64 - 1) <<< shift % 2 ^ 64)
      else result
    .ok (toI64 result, rest)
  | .err e => .err e
  | .panic w => .panic w
  | .diverge => .diverge

/-- `Leb128::unsigned` (fuel = 10 suffices, see `Props.C09.encodeU_fuel`) -/
def encodeUFuel : Nat → Nat → Bytes
  | 0, _ => []
  | fuel + 1, val =>
    let byte := val % 128
    let val := val / 128
    if val ≠ 0 then UInt8.ofNat (byte + 128) :: encodeUFuel fuel val
    else [UInt8.ofNat byte]

def encodeU (val : Nat) : Bytes := encodeUFuel 10 val

/-- `uleb128_size` -/
def sizeUFuel : Nat → Nat → Nat
  | 0, _ => 0
  | fuel + 1, val => if val / 128 = 0 then 1 else 1 + sizeUFuel fuel (val / 128)

def sizeU (val : Nat) : Nat := sizeUFuel 10 val

/-- `Leb128::signed`: `val as u8`, arithmetic shifts are `Int` floor division -/
def encodeSFuel : Nat → Int → Bytes
  | 0, _ => []
  | fuel + 1, val =>
    let byte := (val % 256).toNat
    let val6 := val / 64
    if val6 = 0 ∨ val6 = -1 then [UInt8.ofNat (byte % 128)]
    else UInt8.ofNat (byte % 128 + 128) :: encodeSFuel fuel (val6 / 2)

def encodeS (val : Int) : Bytes := encodeSFuel 10 val

/-- `sleb128_size` -/
def sizeSFuel : Nat → Int → Nat
  | 0, _ => 0
  | fuel + 1, val =>
    let val6 := val / 64
    if val6 = 0 ∨ val6 = -1 then 1 else 1 + sizeSFuel fuel (val6 / 2)

def sizeS (val : Int) : Nat := sizeSFuel 10 val

end Gimli.Leb
