import Gimli.Model.Leb
/-!
# Model of `src/endianity.rs`, the fixed-width part of `src/read/reader.rs`
and the integer part of `src/write/writer.rs`.
-/
namespace Gimli.Ints

/-- little-endian positional value of a byte list -/
def leVal : Bytes → Nat
  | [] => 0
  | b :: rest => b.toNat + 256 * leVal rest

/-- `from_le_bytes` / `from_be_bytes` -/
def fromBytes (e : Endian) (bs : Bytes) : Nat :=
  match e with
  | .little => leVal bs
  | .big => leVal bs.reverse

/-- `to_le_bytes` for an `n`-byte integer -/
def leBytes : Nat → Nat → Bytes
  | 0, _ => []
  | n + 1, v => UInt8.ofNat (v % 256) :: leBytes n (v / 256)

/-- `to_le_bytes` / `to_be_bytes` -/
def toBytes (e : Endian) (n : Nat) (v : Nat) : Bytes :=
  match e with
  | .little => leBytes n v
  | .big => (leBytes n v).reverse

/-- `Reader::read_slice` into an `n`-byte buffer on the remaining bytes -/
def take (n : Nat) (bs : Bytes) : Out (Bytes × Bytes) :=
  if n ≤ bs.length then .ok (bs.take n, bs.drop n) else .err .rUnexpectedEof

/-- `read_u8/u16/u32/u64/u128` (n = 1,2,4,8,16) -/
def readFixed (e : Endian) (n : Nat) (bs : Bytes) : Out (Nat × Bytes) := do
  let (a, rest) ← take n bs
  pure (fromBytes e a, rest)

/-- `Reader::read_uint(n)`: `buf[..n]` panics for `n > 8` (documented API misuse);
`Endianity::read_uint` pads to 8 bytes on the proper side. -/
def readUint (e : Endian) (n : Nat) (bs : Bytes) : Out (Nat × Bytes) :=
  if n > 8 then .panic "range end index out of range for slice of length 8" else do
  let (a, rest) ← take n bs
  let tmp : Bytes := match e with
    | .big => List.replicate (8 - n) 0 ++ a
    | .little => a ++ List.replicate (8 - n) 0
  pure (fromBytes e tmp, rest)

/-- sign reinterpretation `as iN` of an `8n`-bit pattern -/
def toSigned (n : Nat) (v : Nat) : Int :=
  if v % 2 ^ (8 * n) < 2 ^ (8 * n - 1) then (v % 2 ^ (8 * n) : Nat)
  else ((v % 2 ^ (8 * n) : Nat) : Int) - 2 ^ (8 * n)

/-- `Reader::read_address_size` -/
def readAddressSize (bs : Bytes) : Out (Nat × Bytes) :=
  match bs with
  | [] => .err .rUnexpectedEof
  | b :: rest =>
    if b.toNat = 1 ∨ b.toNat = 2 ∨ b.toNat = 4 ∨ b.toNat = 8 then .ok (b.toNat, rest)
    else .err .rUnsupportedAddressSize

/-- `Reader::read_address` -/
def readAddress (e : Endian) (size : Nat) (bs : Bytes) : Out (Nat × Bytes) :=
  if size = 1 ∨ size = 2 ∨ size = 4 ∨ size = 8 then readFixed e size bs
  else .err .rUnsupportedAddressSize

/-- `ReaderOffset::from_u64` for an offset type of `offBits` bits (32 or 64; `usize` = 64 here) -/
def offsetFromU64 (offBits : Nat) (v : Nat) : Out Nat :=
  if v < 2 ^ offBits then .ok v else .err .rUnsupportedOffset

/-- `Reader::read_word` / `read_offset` / `read_length` -/
def readWord (e : Endian) (offBits : Nat) (f : Format) (bs : Bytes) : Out (Nat × Bytes) :=
  match f with
  | .dwarf32 => readFixed e 4 bs
  | .dwarf64 => do
    let (v, rest) ← readFixed e 8 bs
    let v ← offsetFromU64 offBits v
    pure (v, rest)

/-- `Reader::read_sized_offset` -/
def readSizedOffset (e : Endian) (offBits : Nat) (size : Nat) (bs : Bytes) : Out (Nat × Bytes) :=
  if size = 1 ∨ size = 2 ∨ size = 4 ∨ size = 8 then do
    let (v, rest) ← readFixed e size bs
    let v ← offsetFromU64 offBits v
    pure (v, rest)
  else .err .rUnsupportedOffsetSize

/-- `Reader::read_initial_length` -/
def readInitialLength (e : Endian) (offBits : Nat) (bs : Bytes) : Out ((Nat × Format) × Bytes) := do
  let (v, rest) ← readFixed e 4 bs
  if v < 0xffff_fff0 then pure ((v, .dwarf32), rest)
  else if v = 0xffff_ffff then do
    let (v, rest) ← readFixed e 8 rest
    let v ← offsetFromU64 offBits v
    pure ((v, .dwarf64), rest)
  else .err .rUnknownReservedLength

/-- `Reader::read_uleb128_u32` -/
def readUlebU32 (bs : Bytes) : Out (Nat × Bytes) := do
  let (v, rest) ← Leb.unsigned bs
  if v < 2 ^ 32 then pure (v, rest) else .err .rBadUnsignedLeb128

/-! ### writer -/

/-- `Writer::write_udata` (emitted bytes) -/
def writeUdata (e : Endian) (val size : Nat) : Out Bytes :=
  if size = 1 ∨ size = 2 ∨ size = 4 then
    if val % 2 ^ (8 * size) ≠ val then .err .wValueTooLarge else .ok (toBytes e size val)
  else if size = 8 then .ok (toBytes e 8 val)
  else .err .wUnsupportedWordSize

/-- `Writer::write_sdata`: `val as iN` round-trips iff it is in range; the pattern written is
`val as uN`. -/
def writeSdata (e : Endian) (val : Int) (size : Nat) : Out Bytes :=
  if size = 1 ∨ size = 2 ∨ size = 4 then
    let pat := (val % 2 ^ (8 * size)).toNat
    if toSigned size pat ≠ val then .err .wValueTooLarge else .ok (toBytes e size pat)
  else if size = 8 then .ok (toBytes e 8 (val % 2 ^ 64).toNat)
  else .err .wUnsupportedWordSize

/-- `write_initial_length` followed by `write_initial_length_at(length)`; the body of the unit
is not part of this function, only the length field's bytes are returned. -/
def writeInitialLength (e : Endian) (f : Format) (length : Nat) : Out Bytes :=
  match f with
  | .dwarf32 =>
    if 0xffff_fff0 ≤ length ∧ length ≤ 0xffff_ffff then .err .wInitialLengthOverflow
    else writeUdata e length 4
  | .dwarf64 => do
    let bs ← writeUdata e length 8
    pure (toBytes e 4 0xffff_ffff ++ bs)

end Gimli.Ints
