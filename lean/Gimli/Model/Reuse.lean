import Gimli.Prim.Basic
/-!
# Model of reusable state (C20)

## `ArrayVec` with stale storage (`src/read/util.rs`)
`ArrayVec::clear`/`pop` only move the length; the old elements stay in the backing array.
`AVec` keeps them explicitly (`stale`) so that "what the state was used for before" is part of the
model, and the theorems say that no observation can see it.

## `UnwindContext` (`src/read/cfi.rs`)
`reset` = `stack.clear(); stack.try_push(default); initial_rule = None; is_initialized = false`;
`initialize` always starts with `reset` ("previous initialization failure may leave dirty state").

## `AbbreviationsCache` (`src/read/abbrev.rs`)
`populate` (strategies `Duplicates`, `All`) stores `(offset, parse offset)` — errors included —
and `get` returns the stored result or parses.
-/
namespace Gimli.Reuse

/-- live elements first-to-last, then whatever earlier uses left in the unused slots -/
structure AVec (α : Type) where
  live : List α
  stale : List α
  deriving Repr

namespace AVec
variable {α : Type}

def empty : AVec α := ⟨[], []⟩
/-- `clear`: length := 0, contents stay where they were -/
def clear (v : AVec α) : AVec α := ⟨[], v.live ++ v.stale⟩
/-- `try_push` with capacity `cap`: overwrites the first unused slot -/
def tryPush (cap : Nat) (v : AVec α) (x : α) : Option (AVec α) :=
  if v.live.length < cap then some ⟨v.live ++ [x], v.stale.tail⟩ else none
/-- `pop`: the popped element stays in storage -/
def pop (v : AVec α) : Option (α × AVec α) :=
  match v.live.reverse with
  | [] => none
  | x :: r => some (x, ⟨r.reverse, x :: v.stale⟩)
/-- `try_insert(index, x)` with capacity `cap`: the tail moves up by one, overwriting the first
unused slot (`save_initial_rules` inserts the saved row below the live rows) -/
def tryInsert (cap : Nat) (v : AVec α) (i : Nat) (x : α) : Option (AVec α) :=
  if v.live.length < cap ∧ i ≤ v.live.length then some ⟨v.live.take i ++ x :: v.live.drop i, v.stale.tail⟩
  else none
/-- everything the public API can observe: `len`, indexing, `last`, `as_slice`, iteration -/
def observe (v : AVec α) : List α := v.live

end AVec

/-- the context, generic in the row type -/
structure Ctx (Row Rule : Type) where
  stack : AVec Row
  initialRule : Option (Option Rule)
  isInitialized : Bool

variable {Row Rule : Type}

/-- what evaluation can observe of a context -/
def Ctx.observe (c : Ctx Row Rule) : List Row × Option (Option Rule) × Bool :=
  (c.stack.observe, c.initialRule, c.isInitialized)

/-- `UnwindContext::reset` (capacity ≥ 1, as every storage must provide) -/
def Ctx.reset (dflt : Row) (c : Ctx Row Rule) : Ctx Row Rule :=
  { stack := ⟨[dflt], (c.stack.clear).stale.tail⟩, initialRule := none, isInitialized := false }

/-- `UnwindContext::new_in` -/
def Ctx.fresh (dflt : Row) : Ctx Row Rule :=
  Ctx.reset dflt { stack := AVec.empty, initialRule := none, isInitialized := false }

/-- An evaluation that, like `UnwindTable::new` → `initialize`, resets the context first and can
only observe the context through the public observations. `core` is the unwind machine proper
(Model/Unwind.lean instantiates it). It returns the rows (or error) and the context it leaves. -/
structure Evaluator (Row Rule Fde Res : Type) where
  dflt : Row
  core : Ctx Row Rule → Fde → Res × Ctx Row Rule
  /-- the machine reads contexts only through `observe` -/
  respects : ∀ (c c' : Ctx Row Rule) (f : Fde), c.observe = c'.observe →
    (core c f).1 = (core c' f).1

/-- `fde.rows(section, bases, ctx)` followed by draining the table -/
def Evaluator.eval {Fde Res : Type} (E : Evaluator Row Rule Fde Res) (c : Ctx Row Rule) (f : Fde) :
    Res × Ctx Row Rule :=
  E.core (Ctx.reset E.dflt c) f

/-- results of a history evaluated on ONE context, reused from step to step -/
def Evaluator.history {Fde Res : Type} (E : Evaluator Row Rule Fde Res) :
    Ctx Row Rule → List Fde → List Res
  | _, [] => []
  | c, f :: fs => (E.eval c f).1 :: E.history (E.eval c f).2 fs

/-! ### abbreviation cache -/

structure Cache (ρ : Type) where
  entries : List (Nat × ρ)

def Cache.lookup {ρ : Type} (c : Cache ρ) (o : Nat) : Option ρ :=
  (c.entries.find? (fun e => e.1 == o)).map (·.2)

/-- `AbbreviationsCache::get`: cached result, else parse (the cache is not updated) -/
def Cache.get {ρ : Type} (parse : Nat → ρ) (c : Cache ρ) (o : Nat) : ρ :=
  match c.lookup o with
  | some r => r
  | none => parse o

/-- offsets kept by `AbbreviationsCacheStrategy::Duplicates`: those used by at least two units -/
def dupOffsets (offs : List Nat) : List Nat :=
  (offs.filter (fun o => 2 ≤ offs.count o)).eraseDups

/-- `AbbreviationsCacheStrategy::All` -/
def allOffsets (offs : List Nat) : List Nat := offs.eraseDups

inductive Strategy | duplicates | all

/-- `AbbreviationsCache::populate`: previous entries are discarded -/
def Cache.populate {ρ : Type} (parse : Nat → ρ) (s : Strategy) (unitOffsets : List Nat) (_old : Cache ρ) : Cache ρ :=
  ⟨(match s with
    | .duplicates => dupOffsets unitOffsets
    | .all => allOffsets unitOffsets).map (fun o => (o, parse o))⟩

end Gimli.Reuse
