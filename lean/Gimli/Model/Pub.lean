import Gimli.Model.Aranges
/-!
# Model of `src/read/lookup.rs` (`LookupEntryIter`, `PubStuffParser`) as used by
`src/read/pubnames.rs` and `src/read/pubtypes.rs` (the two differ only in the entry type's name).
-/
namespace Gimli.Pub
open Gimli Gimli.Ints
open Gimli.Aranges (Item)

/-- `PubStuffHeader` -/
structure Header where
  format : Format
  length : Nat
  version : Nat
  unitOffset : Nat
  unitLength : Nat
  deriving Repr, DecidableEq

/-- `PubStuffParser::parse_header`: (the set's entries, header) and the input after the set -/
def parseHeader (e : Endian) (input : Bytes) : Out ((Bytes × Header) × Bytes) := do
  let ((length, format), input) ← readInitialLength e 64 input
  let (rest, input) ← take length input
  let (version, rest) ← readFixed e 2 rest
  if version ≠ 2 then .err .rUnknownVersion else do
  let (unitOffset, rest) ← readWord e 64 format rest
  let (unitLength, rest) ← readWord e 64 format rest
  pure ((rest, { format, length, version, unitOffset, unitLength }), input)

/-- `Reader::find(0)` + `split(idx)` + `skip(1)`: the bytes before the first NUL, and what
follows the NUL -/
def readCStr : Bytes → Out (Bytes × Bytes)
  | [] => .err .rUnexpectedEof
  | b :: rest =>
    if b = 0 then .ok ([], rest)
    else do
      let (s, r) ← readCStr rest
      pure (b :: s, r)

/-- a pubnames/pubtypes entry: `die_offset`, `name`, `unit_header_offset` -/
structure Entry where
  dieOffset : Nat
  name : Bytes
  unitHeaderOffset : Nat
  deriving Repr, DecidableEq

/-- `PubStuffParser::parse_entry`: `Ok(None)` (input emptied) on a zero offset -/
def parseEntry (e : Endian) (h : Header) (input : Bytes) : Out (Option Entry × Bytes) := do
  let (offset, input) ← readWord e 64 h.format input
  if offset = 0 then pure (none, [])
  else do
    let (name, input) ← readCStr input
    pure (some { dieOffset := offset, name, unitHeaderOffset := h.unitOffset }, input)

/-- iterator state of `LookupEntryIter`: `current_set`, `remaining_input` -/
structure State where
  current : Option (Bytes × Header)
  remaining : Bytes
  deriving Repr, DecidableEq

/-- outcome of the first half of one loop iteration -/
inductive Step where
  | ret (r : Out (Option Entry)) (st : State)
  | goOn (st : State)

/-- `if let Some((input, header)) = current_set && !input.is_empty() { match parse_entry … }` -/
def entryStep (e : Endian) (st : State) : Step :=
  match st.current with
  | some (input, header) =>
    if input.isEmpty then .goOn st
    else match parseEntry e header input with
      | .ok (some en, rest) => .ret (.ok (some en)) { st with current := some (rest, header) }
      | .ok (none, rest) => .goOn { st with current := some (rest, header) }
      | .err x => .ret (.err x) { current := some ([], header), remaining := [] }
      | .panic w => .ret (.panic w) st
      | .diverge => .ret .diverge st
  | none => .goOn st

/-- the `loop` of `LookupEntryIter::next` -/
def nextLoop (e : Endian) : Nat → State → Out (Option Entry) × State
  | 0, st => (.diverge, st)
  | fuel + 1, st =>
    match entryStep e st with
    | .ret r st' => (r, st')
    | .goOn st' =>
      if st'.remaining.isEmpty then (.ok none, { current := none, remaining := st'.remaining })
      else match parseHeader e st'.remaining with
        | .ok (set, rest) => nextLoop e fuel { current := some set, remaining := rest }
        | .err x => (.err x, { current := none, remaining := [] })
        | .panic w => (.panic w, st')
        | .diverge => (.diverge, st')

/-- `LookupEntryIter::next`; every loop iteration that does not return consumes a header
(at least 4 bytes of `remaining_input`) -/
def next (e : Endian) (st : State) : Out (Option Entry) × State :=
  nextLoop e (st.remaining.length + 2) st

/-- `DebugLookup::items` -/
def start (section_ : Bytes) : State := { current := none, remaining := section_ }

/-- the iterator run to `Ok(None)` (`fuel` = cap on the number of `next` calls) -/
def items (e : Endian) : Nat → State → List (Item Entry)
  | 0, _ => []
  | fuel + 1, st =>
    match next e st with
    | (.ok (some en), st') => .item en :: items e fuel st'
    | (.ok none, _) => []
    | (.err x, st') => .error x :: items e fuel st'
    | (_, _) => []

end Gimli.Pub
