import Gimli.Model.Reader
/-!
# Model for C18 — relocation on the writing and on the reading side

## Writing (`src/write/writer.rs`, `src/write/relocate.rs`, `src/write/endian_vec.rs`)
* `Call`: the `Writer` methods that sections are written with.
* `stepD env`: a writer that resolves on the spot — `EndianVec` with `write_address`
  given the symbol's address and `write_offset(_at)` the section's base address (`env`). With
  constant addresses and all section bases 0 this is exactly the plain `EndianVec`.
* `stepR`: `impl<T: RelocateWriter> Writer for T` — records a `Reloc` and writes zeros.
* `applyW env`: what a linker does with the recorded relocations.

## Reading (`src/read/relocate.rs`)
* `Prim`: the required methods of `trait Reader` plus the three `RelocateReader` overrides — every
  other `Reader` method, and therefore every parser, is a program over these.
* `Prog`: parsers as programs (a free monad over `Prim`; the continuation sees the observation).
* `run I`: execution on a reader kind, through C10's `step`.
* `RRel`, `relOf ρ`: a relocation set and the `Relocate` implementation it induces;
  `applyR e ρ`: the section with the relocations applied.
-/
namespace Gimli.Wr
open Gimli

/-! ## writing -/

/-- `write::Address` -/
inductive Address where
  | const (v : Nat)
  | sym (symbol : Nat) (addend : Int)
  deriving Repr, DecidableEq

/-- `write::RelocationTarget` (`SectionId` as a number) -/
inductive Target where
  | symbol (n : Nat)
  | sect (id : Nat)
  deriving Repr, DecidableEq

/-- `write::Relocation` -/
structure Reloc where
  off : Nat
  size : Nat
  target : Target
  addend : Int
  ehPe : Option Nat
  deriving Repr, DecidableEq

/-- the `Writer` methods -/
inductive Call where
  | write (bs : Bytes)
  | writeAt (off : Nat) (bs : Bytes)
  | udata (v size : Nat)
  | sdata (v : Int) (size : Nat)
  | udataAt (off v size : Nat)
  | uleb (v : Nat)
  | sleb (v : Int)
  | address (a : Address) (size : Nat)
  | offset (val sect size : Nat)
  | offsetAt (off val sect size : Nat)
  | ehPointer (a : Address) (ehPe size : Nat)
  deriving Repr, DecidableEq

/-- addresses of the symbols and of the sections (what the linker knows) -/
structure Env where
  sym : Nat → Nat
  sec : Nat → Nat

/-- `b[..off] ++ x ++ b[off+|x|..]` -/
def patch (b : Bytes) (off : Nat) (x : Bytes) : Bytes :=
  b.take off ++ x ++ b.drop (off + x.length)

/-- `EndianVec::write_at` -/
def writeAt (b : Bytes) (off : Nat) (x : Bytes) : Out Bytes :=
  if off > b.length then .err .wOffsetOutOfBounds
  else if x.length > b.length - off then .err .wLengthOutOfBounds
  else .ok (patch b off x)

/-- `u64::wrapping_add(addend as u64)` -/
def addWrap (v : Nat) (a : Int) : Nat := (((v : Int) + a) % 2 ^ 64).toNat

/-- `val as i64` for a `usize`/`u64` -/
def asI64 (v : Nat) : Int := Leb.toI64 v

/-- the value of `write_eh_pointer(Constant(val))` before formatting:
`absptr` → `val`, `pcrel` → `val.wrapping_sub(self.len())`, else unsupported -/
def ehApply (ehPe : Nat) (val pos : Nat) : Out Nat :=
  if ehPe % 128 / 16 = 0 then .ok val
  else if ehPe % 128 / 16 = 1 then .ok (addWrap val (-(pos : Int)))
  else .err .wUnsupportedPointerEncoding

/-- `write_eh_pointer_data(val, format, size)`: the bytes -/
def ehData (e : Endian) (val fmt size : Nat) : Out Bytes :=
  if fmt = 0 then Ints.writeUdata e val size
  else if fmt = 1 then .ok (Leb.encodeU val)
  else if fmt = 2 then Ints.writeUdata e val 2
  else if fmt = 3 then Ints.writeUdata e val 4
  else if fmt = 4 then Ints.writeUdata e val 8
  else if fmt = 9 then .ok (Leb.encodeS (asI64 val))
  else if fmt = 10 then Ints.writeSdata e (asI64 val) 2
  else if fmt = 11 then Ints.writeSdata e (asI64 val) 4
  else if fmt = 12 then Ints.writeSdata e (asI64 val) 8
  else .err .wUnsupportedPointerEncoding

/-- default `write_eh_pointer(Address::Constant(val), eh_pe, size)` at position `pos`: the bytes -/
def ehConst (e : Endian) (val ehPe size pos : Nat) : Out Bytes := do
  let v ← ehApply ehPe val pos
  ehData e v (ehPe % 16) size

/-- the bytes a non-relocatable call appends (`none`: the call does not append) -/
def appended (e : Endian) (pos : Nat) : Call → Option (Out Bytes)
  | .write bs => some (.ok bs)
  | .udata v size => some (Ints.writeUdata e v size)
  | .sdata v size => some (Ints.writeSdata e v size)
  | .uleb v => some (.ok (Leb.encodeU v))
  | .sleb v => some (.ok (Leb.encodeS v))
  | .address (.const v) size => some (Ints.writeUdata e v size)
  | .ehPointer (.const v) ehPe size => some (ehConst e v ehPe size pos)
  | _ => none

/-- the resolved value of an address -/
def Env.resolve (env : Env) : Address → Nat
  | .const v => v
  | .sym s a => addWrap (env.sym s) a

/-- **Direct writing**: one call on the resolving writer -/
def stepD (env : Env) (e : Endian) (b : Bytes) : Call → Out Bytes
  | .write bs => .ok (b ++ bs)
  | .writeAt off bs => writeAt b off bs
  | .udata v size => do let x ← Ints.writeUdata e v size; pure (b ++ x)
  | .sdata v size => do let x ← Ints.writeSdata e v size; pure (b ++ x)
  | .udataAt off v size => do let x ← Ints.writeUdata e v size; writeAt b off x
  | .uleb v => .ok (b ++ Leb.encodeU v)
  | .sleb v => .ok (b ++ Leb.encodeS v)
  | .address a size => do let x ← Ints.writeUdata e (env.resolve a) size; pure (b ++ x)
  | .offset val sect size => do
      let x ← Ints.writeUdata e (addWrap (env.sec sect) (asI64 val)) size; pure (b ++ x)
  | .offsetAt off val sect size => do
      let x ← Ints.writeUdata e (addWrap (env.sec sect) (asI64 val)) size; writeAt b off x
  | .ehPointer a ehPe size => do
      let x ← ehConst e (env.resolve a) ehPe size b.length; pure (b ++ x)

def runD (env : Env) (e : Endian) : Bytes → List Call → Out Bytes
  | b, [] => .ok b
  | b, c :: cs => do let b' ← stepD env e b c; runD env e b' cs

/-- size of the relocated field of `write_eh_pointer(Address::Symbol, eh_pe, size)` -/
def ehSymSize (ehPe size : Nat) : Out Nat :=
  let fmt := ehPe % 16
  if fmt = 0 then .ok size
  else if fmt = 2 ∨ fmt = 10 then .ok 2
  else if fmt = 3 ∨ fmt = 11 then .ok 4
  else if fmt = 4 ∨ fmt = 12 then .ok 8
  else .err .wUnsupportedPointerEncoding

/-- **Recording writer** (`impl<T: RelocateWriter> Writer for T`): one call -/
def stepR (e : Endian) (st : Bytes × List Reloc) : Call → Out (Bytes × List Reloc)
  | .write bs => .ok (st.1 ++ bs, st.2)
  | .writeAt off bs => do let b ← writeAt st.1 off bs; pure (b, st.2)
  | .udata v size => do let x ← Ints.writeUdata e v size; pure (st.1 ++ x, st.2)
  | .sdata v size => do let x ← Ints.writeSdata e v size; pure (st.1 ++ x, st.2)
  | .udataAt off v size => do
      let x ← Ints.writeUdata e v size; let b ← writeAt st.1 off x; pure (b, st.2)
  | .uleb v => .ok (st.1 ++ Leb.encodeU v, st.2)
  | .sleb v => .ok (st.1 ++ Leb.encodeS v, st.2)
  | .address (.const v) size => do let x ← Ints.writeUdata e v size; pure (st.1 ++ x, st.2)
  | .address (.sym s a) size => do
      let x ← Ints.writeUdata e 0 size
      pure (st.1 ++ x, st.2 ++ [{ off := st.1.length, size := size, target := .symbol s,
                                   addend := a, ehPe := none }])
  | .offset val sect size => do
      let x ← Ints.writeUdata e 0 size
      pure (st.1 ++ x, st.2 ++ [{ off := st.1.length, size := size, target := .sect sect,
                                   addend := asI64 val, ehPe := none }])
  | .offsetAt off val sect size => do
      let x ← Ints.writeUdata e 0 size
      let b ← writeAt st.1 off x
      pure (b, st.2 ++ [{ off := off, size := size, target := .sect sect, addend := asI64 val,
                           ehPe := none }])
  | .ehPointer (.const v) ehPe size => do
      let x ← ehConst e v ehPe size st.1.length; pure (st.1 ++ x, st.2)
  | .ehPointer (.sym s a) ehPe size => do
      let size' ← ehSymSize ehPe size
      let x ← Ints.writeUdata e 0 size'
      pure (st.1 ++ x, st.2 ++ [{ off := st.1.length, size := size', target := .symbol s,
                                   addend := a, ehPe := some ehPe }])

def runR (e : Endian) : Bytes × List Reloc → List Call → Out (Bytes × List Reloc)
  | st, [] => .ok st
  | st, c :: cs => do let st' ← stepR e st c; runR e st' cs

/-- the bytes a relocation puts into its field: `S + A` (minus the position for `pcrel`),
formatted as the field's encoding says -/
def encode (env : Env) (e : Endian) (r : Reloc) : Out Bytes :=
  let s := match r.target with
    | .symbol n => env.sym n
    | .sect id => env.sec id
  let v := addWrap s r.addend
  match r.ehPe with
  | none => Ints.writeUdata e v r.size
  | some pe => do
    let v ← ehApply pe v r.off
    let fmt := pe % 16
    if fmt = 10 ∨ fmt = 11 ∨ fmt = 12 then Ints.writeSdata e (asI64 v) r.size
    else Ints.writeUdata e v r.size

/-- apply one recorded relocation -/
def applyOne (env : Env) (e : Endian) (b : Bytes) (r : Reloc) : Out Bytes := do
  let x ← encode env e r
  writeAt b r.off x

/-- apply the recorded relocations in recording order -/
def applyW (env : Env) (e : Endian) : List Reloc → Bytes → Out Bytes
  | [], b => .ok b
  | r :: rs, b => do let b' ← applyOne env e b r; applyW env e rs b'

/-- a non-relocating positioned write must not land on a field that already carries a
relocation (gimli's writers only patch lengths and plain placeholders this way) -/
def clear (rs : List Reloc) (off n : Nat) : Prop :=
  ∀ r ∈ rs, r.off + r.size ≤ off ∨ off + n ≤ r.off

instance (rs : List Reloc) (off n : Nat) : Decidable (clear rs off n) := by
  unfold clear; infer_instance

/-- the only calls the recording writer refuses although direct writing accepts them: symbolic
`.eh_frame` pointers whose format has no fixed size (LEB128) or is unknown -/
def SymSized : Call → Prop
  | .ehPointer (.sym _ _) ehPe size => ∃ n, ehSymSize ehPe size = .ok n
  | _ => True

/-- the side condition for one call: a positioned non-relocating write is clear of the recorded
fields -/
def CallClear (rs : List Reloc) : Call → Prop
  | .writeAt off bs => clear rs off bs.length
  | .udataAt off _ size => clear rs off size
  | _ => True

instance (rs : List Reloc) (c : Call) : Decidable (CallClear rs c) := by
  cases c <;> unfold CallClear <;> infer_instance

/-- no call of the sequence overwrites a relocated field with non-relocated data -/
def NoClobber (e : Endian) : Bytes × List Reloc → List Call → Prop
  | _, [] => True
  | st, c :: cs =>
    CallClear st.2 c ∧
    (match stepR e st c with
     | .ok st' => NoClobber e st' cs
     | _ => True)

instance (e : Endian) : (st : Bytes × List Reloc) → (cs : List Call) → Decidable (NoClobber e st cs)
  | _, [] => isTrue trivial
  | st, c :: cs =>
    match h : stepR e st c with
    | .ok st' =>
      have := instDecidableNoClobber e st' cs
      decidable_of_iff (CallClear st.2 c ∧ NoClobber e st' cs) (by simp [NoClobber, h])
    | .err _ => decidable_of_iff (CallClear st.2 c) (by simp [NoClobber, h])
    | .panic _ => decidable_of_iff (CallClear st.2 c) (by simp [NoClobber, h])
    | .diverge => decidable_of_iff (CallClear st.2 c) (by simp [NoClobber, h])

end Gimli.Wr

/-! ## reading -/
namespace Gimli.Rr
open Gimli Gimli.Rd

/-- the required methods of `trait Reader` and the three methods `RelocateReader` overrides:
every other `Reader` method is a default method written with these, so every parser is a
program over them. `i`, `j` index the table of readers, `k` the table of offset ids. -/
inductive Prim where
  | readSlice (i n : Nat)
  | skip (i n : Nat)
  | split (i n : Nat)
  | trunc (i n : Nat)
  | empty (i : Nat)
  | find (i : Nat) (b : UInt8)
  | clone (i : Nat)
  | drop (i : Nat)
  | offFrom (i j : Nat)
  | offId (i : Nat)
  | lookup (i k : Nat)
  | len (i : Nat)
  | toSlice (i : Nat)
  | toStr (i : Nat)
  | toLossy (i : Nat)
  | addr (i n : Nat)
  | offset (i : Nat) (f : Format)
  | sizedOff (i n : Nat)
  deriving Repr, DecidableEq

/-- the C10 history operation that executes a primitive -/
def Prim.toOp : Prim → Op
  | .readSlice i n => .slice i n
  | .skip i n => .skip i n
  | .split i n => .split i n
  | .trunc i n => .trunc i n
  | .empty i => .empty i
  | .find i b => .find i b
  | .clone i => .clone i
  | .drop i => .drop i
  | .offFrom i j => .offFrom i j
  | .offId i => .offId i
  | .lookup i k => .lookup i k
  | .len i => .len i
  | .toSlice i => .toSlice i
  | .toStr i => .toStr i
  | .toLossy i => .toLossy i
  | .addr i n => .addr i n
  | .offset i f => .offset i f
  | .sizedOff i n => .sizedOff i n

/-- the reader a primitive is applied to -/
def Prim.reader : Prim → Nat
  | .readSlice i _ | .skip i _ | .split i _ | .trunc i _ | .empty i | .find i _ | .clone i
  | .drop i | .offFrom i _ | .offId i | .lookup i _ | .len i | .toSlice i | .toStr i
  | .toLossy i | .addr i _ | .offset i _ | .sizedOff i _ => i

/-- a parser: it performs reader primitives, looks at what they returned (value or error, and
the windows of the readers involved) and continues accordingly -/
inductive Prog (α : Type) where
  | ret (a : α)
  | fail (e : Err)
  | step (p : Prim) (k : Obs → Prog α)

/-- run a parser on a reader kind (through C10's `step`) -/
def run {σ α : Type} (I : Impl σ) (m : Mode) (e : Endian) (valid : Bytes → Bool)
    (lossy : Bytes → Bytes) : Prog α → St σ → Out α
  | .ret a, _ => .ok a
  | .fail x, _ => .err x
  | .step p k, st =>
    let r := step I m e valid lossy st p.toOp
    run I m e valid lossy (k r.1) r.2

/-- one entry of a relocation set: the field `[off, off+size)` gets `addend` added -/
structure RRel where
  off : Nat
  size : Nat
  addend : Int
  deriving Repr, DecidableEq

/-- the `Relocate` implementation a relocation set induces (an offset → addend map, applied
with wrapping 64-bit addition) -/
def relOf (ρ : List RRel) : Rel :=
  let f := fun (o v : Nat) =>
    match ρ.find? (fun r => r.off = o) with
    | some r => Out.ok (Wr.addWrap v r.addend)
    | none => Out.ok v
  { addr := f, offs := f }

/-- apply one entry to the section bytes: the `size`-byte field at `off` (byte order `e`) gets
`addend` added; it is an error if the field is not inside the section or the sum does not fit -/
def applyOneR (e : Endian) (b : Bytes) (r : RRel) : Out Bytes :=
  if r.off + r.size ≤ b.length then
    let old := Ints.fromBytes e ((b.drop r.off).take r.size)
    let new := (old : Int) + r.addend
    if 0 ≤ new ∧ new < 2 ^ (8 * r.size) then
      .ok (Wr.patch b r.off (Ints.toBytes e r.size new.toNat))
    else .err .wValueTooLarge
  else .err .wOffsetOutOfBounds

/-- the section with the whole relocation set applied -/
def applyR (e : Endian) : List RRel → Bytes → Out Bytes
  | [], b => .ok b
  | r :: rs, b => do let b' ← applyOneR e b r; applyR e rs b'

/-! ### the hypothesis of read transparency -/

/-- the byte range `[o, o+n)` touches no relocated field -/
def disjoint (ρ : List RRel) (o n : Nat) : Bool :=
  n == 0 || ρ.all (fun r => decide (r.off + r.size ≤ o) || decide (o + n ≤ r.off))

/-- `[o, o+n)` is exactly a relocated field, or touches none -/
def hitOrMiss (ρ : List RRel) (o n : Nat) : Bool :=
  ρ.any (fun r => r.off == o && r.size == n) || disjoint ρ o n

/-- A primitive applied to a reader with window `c` is compatible with the relocation set: what
it inspects without relocating (`read_slice`, `find` up to the byte found, `to_slice`/`to_string*`
the whole window) touches no relocated field, and a relocatable read that succeeds reads exactly a
relocated field with its size, or no relocated byte at all. -/
def primOK (ρ : List RRel) (c : Cur) : Prim → Bool
  | .readSlice _ n => decide (c.len < n) || disjoint ρ c.off n
  | .find _ b =>
    disjoint ρ c.off (match position c.bytes b with | some i => i + 1 | none => c.len)
  | .toSlice _ | .toStr _ | .toLossy _ => disjoint ρ c.off c.len
  | .addr _ n =>
    !(decide (n = 1 ∨ n = 2 ∨ n = 4 ∨ n = 8)) || decide (c.len < n) || hitOrMiss ρ c.off n
  | .offset _ f => decide (c.len < f.wordSize) || hitOrMiss ρ c.off f.wordSize
  | .sizedOff _ n =>
    !(decide (n = 1 ∨ n = 2 ∨ n = 4 ∨ n = 8)) || decide (c.len < n) || hitOrMiss ρ c.off n
  | _ => true

/-- the entries are non-empty and pairwise disjoint -/
def separated : List RRel → Bool
  | [] => true
  | r :: rs =>
    decide (0 < r.size) &&
    rs.all (fun r' => decide (r.off + r.size ≤ r'.off) || decide (r'.off + r'.size ≤ r.off)) &&
    separated rs

/-- along the run of the parser `P` through the relocating reader, every primitive is compatible
with the relocation set (`primOK`) -/
def compat {α : Type} (ρ : List RRel) (m : Mode) (e : Endian) (valid : Bytes → Bool)
    (lossy : Bytes → Bytes) : Prog α → St (RCur Cur) → Bool
  | .ret _, _ => true
  | .fail _, _ => true
  | .step p k, st =>
    (match st.get p.reader with
     | some s => primOK ρ s.rdr p
     | none => true) &&
    (let r := step (relocImpl sharedImpl (relOf ρ)) m e valid lossy st p.toOp
     compat ρ m e valid lossy (k r.1) r.2)

/-- the straight-line parser that performs the given primitives and returns what it observed -/
def Prog.ofList : List Prim → List Obs → Prog (List Obs)
  | [], acc => .ret acc.reverse
  | p :: ps, acc => .step p (fun o => Prog.ofList ps (o :: acc))

end Gimli.Rr
