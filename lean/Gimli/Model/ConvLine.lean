import Gimli.Prim.Basic
/-!
# Model of address handling in `write::ConvertLineProgram` + `write::LineProgram`
(`src/write/line.rs`, HEAD of /repo with the `fix:`es for `DW_LNE_set_address` inside a sequence,
for an end address given by `DW_LNE_set_address`, and for tombstone addresses)

Only the address dimension is modelled (the other registers are copied row by row and are covered
by the differential run): a line program is abstracted to the events that touch the address.
-/
namespace Gimli.ConvLine

/-- address-relevant instructions of a line program -/
inductive Ins where
  | setAddress (a : Nat)      -- DW_LNE_set_address, ANY value (tombstones included)
  | advance (d : Nat)         -- any advance of the address register by `d`
  | row                       -- an instruction that emits a row
  | endSeq                    -- DW_LNE_end_sequence
  deriving Repr, DecidableEq

/-- what the reader reports: absolute address of each emitted row; `true` marks the end row -/
abbrev Rows := List (Nat × Bool)

/-- `LineRow::execute`, `SetAddress` arm: a lower address than the current one, or one from
`min_tombstone` (= all-ones − 1, parameter `T`) up, is a tombstone -/
def isTomb (T addr a : Nat) : Bool := decide (a < addr) || decide (T ≤ a)

/-- the reader (`LineRows::next_row` over `LineRow::execute`, src/read/line.rs): the address
register and the tombstone flag. While tombstoned the address does not move and rows are skipped —
including the `end_sequence` row, whose reset still happens (finding C04-1). -/
def readRows (T : Nat) : (addr : Nat) → (tomb : Bool) → List Ins → Rows
  | _, _, [] => []
  | addr, _, .setAddress a :: is =>
      if isTomb T addr a then readRows T addr true is else readRows T a false is
  | addr, tomb, .advance d :: is => readRows T (if tomb then addr else addr + d) tomb is
  | addr, tomb, .row :: is => if tomb then readRows T addr tomb is else (addr, false) :: readRows T addr tomb is
  | addr, tomb, .endSeq :: is => if tomb then readRows T 0 false is else (addr, true) :: readRows T 0 false is

/-- events handed from `ConvertLineProgram::read_row` to the writer -/
inductive Ev where
  | setAddress (a : Nat)
  | row (offset : Nat)
  | endSeq (offset : Nat)
  deriving Repr, DecidableEq

/-- `ConvertLineProgram::read_row`, address part: `rel` is `from_row.address()` (restarted at 0 by
every `DW_LNE_set_address`, and advancing even while a tombstone is skipped), `fa` the field
`from_address`, `tomb` the local `tombstone`, `pending` the field `address` (handed over before
the next row, or before the end of the sequence) -/
def convert (T : Nat) : (rel fa : Nat) → (tomb : Bool) → (pending : Option Nat) → List Ins → List Ev
  | _, _, _, _, [] => []
  | rel, fa, tomb, p, .setAddress a :: is =>
      let fa' := if tomb then fa else fa + rel
      if isTomb T fa' a then convert T 0 fa' true p is else convert T 0 a false (some a) is
  | rel, fa, tomb, p, .advance d :: is => convert T (rel + d) fa tomb p is
  | rel, fa, true, p, .row :: is => convert T rel fa true p is
  | rel, fa, false, some a, .row :: is => .setAddress a :: .row rel :: convert T rel fa false none is
  | rel, fa, false, none, .row :: is => .row rel :: convert T rel fa false none is
  | _, _, true, _, .endSeq :: is => convert T 0 0 false none is
  | rel, _, false, some a, .endSeq :: is => .setAddress a :: .endSeq rel :: convert T 0 0 false none is
  | rel, _, false, none, .endSeq :: is => .endSeq rel :: convert T 0 0 false none is

/-- `LineProgram::{set_address, generate_row, end_sequence}` and `LineProgram::write`, address
part: the instructions of the written program. `prev` is the previous row's offset (restarted by
`set_address`); `generate_row` advances by the difference of offsets. -/
def emit : (prev : Nat) → List Ev → List Ins
  | _, [] => []
  | _, .setAddress a :: es => .setAddress a :: emit 0 es
  | prev, .row off :: es => .advance (off - prev) :: .row :: emit off es
  | prev, .endSeq off :: es => .advance (off - prev) :: .endSeq :: emit 0 es

end Gimli.ConvLine
