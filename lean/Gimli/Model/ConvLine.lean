import Gimli.Prim.Basic
/-!
# Model of address handling in `write::ConvertLineProgram` + `write::LineProgram`
(`src/write/line.rs`, HEAD of /repo with the `fix:` for `DW_LNE_set_address` inside a sequence)

Only the address dimension is modelled (the other registers are copied row by row and are covered
by the differential run): a line program is abstracted to the events that touch the address.
-/
namespace Gimli.ConvLine

/-- address-relevant instructions of a source program -/
inductive Ins where
  | setAddress (a : Nat)      -- DW_LNE_set_address (accepted: not a tombstone)
  | advance (d : Nat)         -- any advance of the address register by `d`
  | row                       -- an instruction that emits a row
  | endSeq                    -- DW_LNE_end_sequence
  deriving Repr, DecidableEq

/-- what the reader reports: absolute address of each emitted row; `true` marks the end row -/
abbrev Rows := List (Nat × Bool)

/-- the reader's address register (src/read/line.rs), for programs whose `set_address` values are
accepted (the hypothesis `Accepted` below states when) -/
def readRows : Nat → List Ins → Rows
  | _, [] => []
  | _, .setAddress a :: is => readRows a is
  | addr, .advance d :: is => readRows (addr + d) is
  | addr, .row :: is => (addr, false) :: readRows addr is
  | addr, .endSeq :: is => (addr, true) :: readRows 0 is

/-- events handed from `ConvertLineProgram::read_row` to the writer -/
inductive Ev where
  | setAddress (a : Nat)
  | row (offset : Nat)
  | endSeq (offset : Nat)
  deriving Repr, DecidableEq

/-- `ConvertLineProgram::read_row`, address part: `rel` is `from_row.address()` (restarted at 0 by
every `DW_LNE_set_address`), `pending` the address to hand over before the next row -/
def convert : (rel : Nat) → (pending : Option Nat) → List Ins → List Ev
  | _, _, [] => []
  | _, _, .setAddress a :: is => convert 0 (some a) is
  | rel, p, .advance d :: is => convert (rel + d) p is
  | rel, some a, .row :: is => .setAddress a :: .row rel :: convert rel none is
  | rel, none, .row :: is => .row rel :: convert rel none is
  | rel, _, .endSeq :: is => .endSeq rel :: convert 0 none is

/-- `LineProgram::{set_address, generate_row, end_sequence}` followed by writing and reading the
emitted program: `base` is the last address set, `prev` the previous row's offset (restarted by
`set_address`), `cur` the reader's address register on the written program -/
def replay : (prev cur : Nat) → List Ev → Rows
  | _, _, [] => []
  | _, _, .setAddress a :: es => replay 0 a es
  | prev, cur, .row off :: es => (cur + (off - prev), false) :: replay off (cur + (off - prev)) es
  | prev, cur, .endSeq off :: es => (cur + (off - prev), true) :: replay 0 0 es

/-- every `set_address` is followed by a row before the sequence ends (a sequence that is nothing
but set_address + end_sequence carries no line information; the converter drops its address) -/
def NoEmptySeq : Option Nat → List Ins → Prop
  | _, [] => True
  | _, .setAddress a :: is => NoEmptySeq (some a) is
  | p, .advance _ :: is => NoEmptySeq p is
  | _, .row :: is => NoEmptySeq none is
  | p, .endSeq :: is => p = none ∧ NoEmptySeq none is

end Gimli.ConvLine
