import Gimli.Prim.Basic
/-!
# Model of address handling in `write::ConvertLineProgram` + `write::LineProgram`
(`src/write/line.rs`, HEAD of /repo with the `fix:`es for `DW_LNE_set_address` inside a sequence,
for an end address given by `DW_LNE_set_address`, for tombstone addresses and for the end of a
partially tombstoned sequence)

Only the address dimension is modelled (the other registers are copied row by row and are covered
by the differential run): a line program is abstracted to the events that touch the address.
-/
namespace Gimli.ConvLine

/-- address-relevant instructions of a line program -/
inductive Ins where
  | setAddress (a : Nat)      -- DW_LNE_set_address, ANY value (tombstones included)
  | advance (d : Nat)         -- any advance of the address register by `d`
  | row                       -- an instruction that emits a row
  | endSeq                    -- DW_LNE_end_sequence
  deriving Repr, DecidableEq

/-- what the reader reports: absolute address of each emitted row; `true` marks the end row -/
abbrev Rows := List (Nat × Bool)

/-- `LineRow::execute`, `SetAddress` arm: a lower address than the current one, or one from
`min_tombstone` (= all-ones − 1, parameter `T`) up, is a tombstone -/
def isTomb (T addr a : Nat) : Bool := decide (a < addr) || decide (T ≤ a)

/-- the reader (`LineRows::next_row` over `LineRow::execute`, src/read/line.rs): the address
register, the tombstone flag and `in_sequence` (`opn`: a row was returned for the current
sequence). While tombstoned the address does not move and rows are skipped — except the
`end_sequence` row of a sequence that has returned rows, which is returned at the address where
the tombstone started. -/
def readRows (T : Nat) : (addr : Nat) → (tomb opn : Bool) → List Ins → Rows
  | _, _, _, [] => []
  | addr, _, opn, .setAddress a :: is =>
      if isTomb T addr a then readRows T addr true opn is else readRows T a false opn is
  | addr, tomb, opn, .advance d :: is => readRows T (if tomb then addr else addr + d) tomb opn is
  | addr, tomb, opn, .row :: is =>
      if tomb then readRows T addr tomb opn is else (addr, false) :: readRows T addr tomb true is
  | addr, tomb, opn, .endSeq :: is =>
      if tomb && !opn then readRows T 0 false false is else (addr, true) :: readRows T 0 false false is

/-- events handed from `ConvertLineProgram::read_row` to the writer -/
inductive Ev where
  | setAddress (a : Nat)
  | row (offset : Nat)
  | endSeq (offset : Nat)
  deriving Repr, DecidableEq

/-- `ConvertLineProgram::read_row`, address part: `rel` is `from_row.address()` (restarted at 0 by
every accepted `DW_LNE_set_address`, frozen while a tombstone is skipped), `fa` the field
`from_address`, `tomb` the local `tombstone`, `pending` the field `address` (handed over before
the next row, or before the end of the sequence), `opn` the field `in_sequence` -/
def convert (T : Nat) : (rel fa : Nat) → (tomb : Bool) → (pending : Option Nat) → (opn : Bool) → List Ins → List Ev
  | _, _, _, _, _, [] => []
  | rel, fa, tomb, p, opn, .setAddress a :: is =>
      let fa' := if tomb then fa else fa + rel
      if isTomb T fa' a then convert T rel fa' true p opn is else convert T 0 a false (some a) opn is
  | rel, fa, tomb, p, opn, .advance d :: is => convert T (if tomb then rel else rel + d) fa tomb p opn is
  | rel, fa, tomb, p, opn, .row :: is =>
      if tomb then convert T rel fa tomb p opn is
      else match p with
        | some a => .setAddress a :: .row rel :: convert T rel fa false none true is
        | none => .row rel :: convert T rel fa false none true is
  | rel, _, tomb, p, opn, .endSeq :: is =>
      if tomb && !opn then convert T 0 0 false none false is
      else match p with
        | some a => .setAddress a :: .endSeq rel :: convert T 0 0 false none false is
        | none => .endSeq rel :: convert T 0 0 false none false is

/-- `LineProgram::{set_address, generate_row, end_sequence}` and `LineProgram::write`, address
part: the instructions of the written program. `prev` is the previous row's offset (restarted by
`set_address`); `generate_row` advances by the difference of offsets. -/
def emit : (prev : Nat) → List Ev → List Ins
  | _, [] => []
  | _, .setAddress a :: es => .setAddress a :: emit 0 es
  | prev, .row off :: es => .advance (off - prev) :: .row :: emit off es
  | prev, .endSeq off :: es => .advance (off - prev) :: .endSeq :: emit 0 es

end Gimli.ConvLine
