import Gimli.Model.Op
/-!
# Model of the expression writer (`src/write/op.rs`)

`Operation` mirrors the private `gimli::write::op::Operation` variant by variant (one variant per
`Expression::op_*` builder); an expression is a `List Operation`.  `UnitEntryId`s are abstract
naturals, resolved by an *offsets function* `Nat → Option Nat` (`UnitOffsets::unit_offset`, `none`
= "offset not calculated yet": forward reference during the size pass, orphaned entry);
`unit_offsets : Option<&UnitOffsets>` is an `Option` of such a function (`none` in CFI).

* `opSize` / `exprSize`      — `Operation::size` / `Expression::size`
* `exprOffsets`              — the `offsets` vector of `Expression::write` (predicted start of every
                               operation plus the end), absolute positions in the output (`w.len()`)
* `opWrite` / `exprWriteOps` / `exprWrite` — `Operation::write` / the second loop / `Expression::write`:
  emitted bytes and the `DebugInfoFixup`s pushed, given the position `pos = w.len()` at which the
  operation starts.  The position is threaded through the *emitted* lengths (as `w.len()` is in
  Rust), the branch displacement is `offsets[target] - (w.len() + 2)` with `w.len()` taken after
  the opcode byte.  The two `debug_assert_eq!(w.len(), offset)` are not modelled: `Props.C15.
  expr_offsets_consistent` shows they can never fire.
* `writeExprloc` / `writeLocExpr` / `writeCfiExpr` — the length prefixes of `AttributeValue::
  Exprloc` (`unit.rs`), `write_expression` (`loc.rs`) and the three CFI expression instructions.

Numbers: `u64` operands are `Nat` (`< 2^64` is a hypothesis of the theorems), `i64` are `Int`,
`Register` is its `u16` number, `DwOp` its byte. `usize` arithmetic on sizes cannot overflow for
expressions that fit in memory and is not modelled with a mode.
The writer is an `EndianVec` (`write_address` of a symbol and `write_reference` are errors).
-/
namespace Gimli.WOp
open Gimli.Op (Encoding)

/-- `gimli::write::Address` -/
inductive Addr where
  | constant (v : Nat)
  | symbol (symbol : Nat) (addend : Int)
  deriving DecidableEq, Repr, Inhabited

/-- `gimli::write::DebugInfoRef` (unit and entry ids are abstract) -/
inductive DRef where
  | symbol (s : Nat)
  | entry (unit : Nat) (entry : Nat)
  deriving DecidableEq, Repr, Inhabited

/-- `gimli::write::DebugInfoFixup` -/
structure Fixup where
  offset : Nat
  size : Nat
  unit : Nat
  entry : Nat
  deriving DecidableEq, Repr, Inhabited

/-- `gimli::write::op::Operation` -/
inductive Operation where
  | raw (bytecode : Bytes)
  | simple (opcode : Nat)
  | address (a : Addr)
  | unsignedConstant (v : Nat)
  | signedConstant (v : Int)
  | constantType (base : Nat) (value : Bytes)
  | frameOffset (offset : Int)
  | registerOffset (register : Nat) (offset : Int)
  | registerType (register : Nat) (base : Nat)
  | pick (index : Nat)
  | deref (space : Bool)
  | derefSize (space : Bool) (size : Nat)
  | derefType (space : Bool) (size : Nat) (base : Nat)
  | plusConstant (v : Nat)
  | skip (target : Nat)
  | branch (target : Nat)
  | call (entry : Nat)
  | callRef (r : DRef)
  | variableValue (r : DRef)
  | convert (base : Option Nat)
  | reinterpret (base : Option Nat)
  | entryValue (expression : List Operation)
  | register (register : Nat)
  | implicitValue (data : Bytes)
  | implicitPointer (r : DRef) (byteOffset : Int)
  | piece (sizeInBytes : Nat)
  | bitPiece (sizeInBits : Nat) (bitOffset : Nat)
  | parameterRef (entry : Nat)
  | wasmLocal (index : Nat)
  | wasmGlobal (index : Nat)
  | wasmStack (index : Nat)
  deriving Repr, Inhabited

abbrev Expr := List Operation

/-- `unit_offsets: Option<&UnitOffsets>` -/
abbrev UnitOffs := Option (Nat → Option Nat)

/-- the `entry_offset` closure of `Operation::write` -/
def entryOffset (uo : UnitOffs) (entry : Nat) : Out Nat :=
  match uo with
  | some offs =>
    match offs entry with
    | some o => .ok o
    | none => .err .wUnsupportedExpressionForwardReference
  | none => .err .wUnsupportedCfiExpressionReference

/-- the `base_size` closure of `Operation::size` -/
def baseSize (uo : UnitOffs) (entry : Nat) : Out Nat :=
  match uo with
  | some offs =>
    match offs entry with
    | some o => .ok (Leb.sizeU o)
    | none => .err .wUnsupportedExpressionForwardReference
  | none => .err .wUnsupportedCfiExpressionReference

/-- size of the reference field of `DW_OP_implicit_pointer` -/
def implicitPointerRefSize (enc : Encoding) : Nat :=
  if enc.version = 2 then enc.addressSize else enc.format.wordSize

mutual
/-- `Operation::size` -/
def opSize (enc : Encoding) (uo : UnitOffs) : Operation → Out Nat
  | .raw bytecode => .ok bytecode.length
  | .simple _ => .ok 1
  | .address _ => .ok (1 + enc.addressSize)
  | .unsignedConstant v => .ok (1 + if v < 32 then 0 else Leb.sizeU v)
  | .signedConstant v => .ok (1 + Leb.sizeS v)
  | .constantType base value => do
    let b ← baseSize uo base
    pure (1 + (b + 1 + value.length))
  | .frameOffset o => .ok (1 + Leb.sizeS o)
  | .registerOffset r o =>
    .ok (1 + if r < 32 then Leb.sizeS o else Leb.sizeU r + Leb.sizeS o)
  | .registerType r base => do
    let b ← baseSize uo base
    pure (1 + (Leb.sizeU r + b))
  | .pick i => .ok (1 + if i > 1 then 1 else 0)
  | .deref _ => .ok 1
  | .derefSize _ _ => .ok (1 + 1)
  | .derefType _ _ base => do
    let b ← baseSize uo base
    pure (1 + (1 + b))
  | .plusConstant v => .ok (1 + Leb.sizeU v)
  | .skip _ => .ok (1 + 2)
  | .branch _ => .ok (1 + 2)
  | .call _ => .ok (1 + 4)
  | .callRef _ => .ok (1 + enc.format.wordSize)
  | .variableValue _ => .ok (1 + enc.format.wordSize)
  | .convert base =>
    match base with
    | some b => do let s ← baseSize uo b; pure (1 + s)
    | none => .ok (1 + 1)
  | .reinterpret base =>
    match base with
    | some b => do let s ← baseSize uo b; pure (1 + s)
    | none => .ok (1 + 1)
  | .entryValue expression => do
    let length ← exprSize enc uo expression
    pure (1 + (Leb.sizeU length + length))
  | .register r => .ok (1 + if r < 32 then 0 else Leb.sizeU r)
  | .implicitValue data => .ok (1 + (Leb.sizeU data.length + data.length))
  | .implicitPointer _ byteOffset => .ok (1 + (implicitPointerRefSize enc + Leb.sizeS byteOffset))
  | .piece n => .ok (1 + Leb.sizeU n)
  | .bitPiece s o => .ok (1 + (Leb.sizeU s + Leb.sizeU o))
  | .parameterRef _ => .ok (1 + 4)
  | .wasmLocal i => .ok (1 + (1 + Leb.sizeU i))
  | .wasmGlobal i => .ok (1 + (1 + Leb.sizeU i))
  | .wasmStack i => .ok (1 + (1 + Leb.sizeU i))

/-- `Expression::size`: the sizes are summed in order, the first error wins -/
def exprSize (enc : Encoding) (uo : UnitOffs) : List Operation → Out Nat
  | [] => .ok 0
  | op :: rest => do
    let s ← opSize enc uo op
    let r ← exprSize enc uo rest
    pure (s + r)
end

/-- the `offsets` vector built by the first loop of `Expression::write`, starting at `w.len()` -/
def exprOffsets (enc : Encoding) (uo : UnitOffs) : List Operation → Nat → Out (List Nat)
  | [], off => .ok [off]
  | op :: rest, off => do
    let s ← opSize enc uo op
    let r ← exprOffsets enc uo rest (off + s)
    pure (off :: r)

/-- `w.write_u8` of a computed opcode -/
@[inline] def b8 (n : Nat) : UInt8 := UInt8.ofNat n

/-- `w.write_address(address, size)` on an `EndianVec` -/
def writeAddress (e : Endian) (a : Addr) (size : Nat) : Out Bytes :=
  match a with
  | .constant v => Ints.writeUdata e v size
  | .symbol _ _ => .err .wInvalidAddress

/-- the `DebugInfoRef` field of `call_ref` / `variable_value` / `implicit_pointer`, written at
absolute position `at_` -/
def writeDRef (e : Endian) (hasRefs : Bool) (r : DRef) (size : Nat) (at_ : Nat) : Out (Bytes × List Fixup) :=
  match r with
  | .symbol _ => .err .wInvalidReference          -- `Writer::write_reference` default
  | .entry unit entry =>
    if hasRefs then do
      let bs ← Ints.writeUdata e 0 size
      pure (bs, [{ offset := at_, size := size, unit := unit, entry := entry }])
    else .err .wInvalidReference

/-- `offsets[target] as i64 - (w.len() as i64 + 2)` followed by `write_sdata(offset, 2)`;
`wlen` is `w.len()` after the opcode byte -/
def writeBranch (e : Endian) (offsets : List Nat) (target : Nat) (wlen : Nat) : Out Bytes :=
  match offsets[target]? with
  | none => .panic "index out of bounds"
  | some t => Ints.writeSdata e ((t : Int) - ((wlen : Int) + 2)) 2

/-- opcode by version: the DWARF 5 opcode or its GNU predecessor -/
@[inline] def vOp (enc : Encoding) (std gnu : Nat) : UInt8 := if enc.version ≥ 5 then b8 std else b8 gnu

mutual
/-- `Operation::write`: `pos` is `w.len()` when the operation starts; returns the emitted bytes and
the fixups pushed to `refs` -/
def opWrite (e : Endian) (enc : Encoding) (uo : UnitOffs) (hasRefs : Bool) (offsets : List Nat) (pos : Nat) :
    Operation → Out (Bytes × List Fixup)
  | .raw bytecode => .ok (bytecode, [])
  | .simple opcode => .ok ([b8 opcode], [])
  | .address a => do
    let bs ← writeAddress e a enc.addressSize
    pure (0x03 :: bs, [])
  | .unsignedConstant v =>
    if v < 32 then .ok ([b8 (0x30 + v)], [])
    else .ok (0x10 :: Leb.encodeU v, [])
  | .signedConstant v => .ok (0x11 :: Leb.encodeS v, [])
  | .constantType base value => do
    let o ← entryOffset uo base
    let l ← Ints.writeUdata e value.length 1
    pure (vOp enc 0xa4 0xf4 :: (Leb.encodeU o ++ l ++ value), [])
  | .frameOffset o => .ok (0x91 :: Leb.encodeS o, [])
  | .registerOffset r o =>
    if r < 32 then .ok (b8 (0x70 + r) :: Leb.encodeS o, [])
    else .ok (0x92 :: (Leb.encodeU r ++ Leb.encodeS o), [])
  | .registerType r base => do
    let o ← entryOffset uo base
    pure (vOp enc 0xa5 0xf5 :: (Leb.encodeU r ++ Leb.encodeU o), [])
  | .pick i =>
    match i with
    | 0 => .ok ([0x12], [])
    | 1 => .ok ([0x14], [])
    | _ => .ok ([0x15, b8 i], [])
  | .deref space => .ok ([if space then 0x18 else 0x06], [])
  | .derefSize space size => .ok ([if space then 0x95 else 0x94, b8 size], [])
  | .derefType space size base => do
    let o ← entryOffset uo base
    pure ((if space then 0xa7 else vOp enc 0xa6 0xf6) :: b8 size :: Leb.encodeU o, [])
  | .plusConstant v => .ok (0x23 :: Leb.encodeU v, [])
  | .skip target => do
    let d ← writeBranch e offsets target (pos + 1)
    pure (0x2f :: d, [])
  | .branch target => do
    let d ← writeBranch e offsets target (pos + 1)
    pure (0x28 :: d, [])
  | .call entry => do
    let o ← entryOffset uo entry
    let bs ← Ints.writeUdata e o 4
    pure (0x99 :: bs, [])
  | .callRef r => do
    let (bs, fx) ← writeDRef e hasRefs r enc.format.wordSize (pos + 1)
    pure (0x9a :: bs, fx)
  | .variableValue r => do
    let (bs, fx) ← writeDRef e hasRefs r enc.format.wordSize (pos + 1)
    pure (0xfd :: bs, fx)
  | .convert base =>
    match base with
    | some b => do let o ← entryOffset uo b; pure (vOp enc 0xa8 0xf7 :: Leb.encodeU o, [])
    | none => .ok ([vOp enc 0xa8 0xf7, 0], [])
  | .reinterpret base =>
    match base with
    | some b => do let o ← entryOffset uo b; pure (vOp enc 0xa9 0xf9 :: Leb.encodeU o, [])
    | none => .ok ([vOp enc 0xa9 0xf9, 0], [])
  | .entryValue expression => do
    let length ← exprSize enc uo expression
    let hdr := vOp enc 0xa3 0xf3 :: Leb.encodeU length
    let offs ← exprOffsets enc uo expression (pos + hdr.length)
    let (bs, fx) ← exprWriteOps e enc uo hasRefs offs (pos + hdr.length) expression
    pure (hdr ++ bs, fx)
  | .register r =>
    if r < 32 then .ok ([b8 (0x50 + r)], [])
    else .ok (0x90 :: Leb.encodeU r, [])
  | .implicitValue data => .ok (0x9e :: (Leb.encodeU data.length ++ data), [])
  | .implicitPointer r byteOffset => do
    let (bs, fx) ← writeDRef e hasRefs r (implicitPointerRefSize enc) (pos + 1)
    pure (vOp enc 0xa0 0xf2 :: (bs ++ Leb.encodeS byteOffset), fx)
  | .piece n =>
    -- `if size_in_bytes > u64::MAX / 8 { return Err(Error::ValueTooLarge) }` (the `fix:` for C15-1:
    -- the reader reports piece sizes in bits as `u64`), before anything is written
    if n > (2 ^ 64 - 1) / 8 then .err .wValueTooLarge
    else .ok (0x93 :: Leb.encodeU n, [])
  | .bitPiece s o => .ok (0x9d :: (Leb.encodeU s ++ Leb.encodeU o), [])
  | .parameterRef entry => do
    let o ← entryOffset uo entry
    let bs ← Ints.writeUdata e o 4
    pure (0xfa :: bs, [])
  | .wasmLocal i => .ok (0xed :: 0 :: Leb.encodeU i, [])
  | .wasmGlobal i => .ok (0xed :: 1 :: Leb.encodeU i, [])
  | .wasmStack i => .ok (0xed :: 2 :: Leb.encodeU i, [])

/-- the second loop of `Expression::write`: every operation is written where the previous one
ended, with the same `offsets` vector -/
def exprWriteOps (e : Endian) (enc : Encoding) (uo : UnitOffs) (hasRefs : Bool) (offsets : List Nat) (pos : Nat) :
    List Operation → Out (Bytes × List Fixup)
  | [] => .ok ([], [])
  | op :: rest => do
    let (b1, f1) ← opWrite e enc uo hasRefs offsets pos op
    let (b2, f2) ← exprWriteOps e enc uo hasRefs offsets (pos + b1.length) rest
    pure (b1 ++ b2, f1 ++ f2)
end

/-- `Expression::write` at position `pos = w.len()` -/
def exprWrite (e : Endian) (enc : Encoding) (uo : UnitOffs) (hasRefs : Bool) (pos : Nat) (ops : List Operation) :
    Out (Bytes × List Fixup) := do
  let offs ← exprOffsets enc uo ops pos
  exprWriteOps e enc uo hasRefs offs pos ops

/-! ## length prefixes -/

/-- `AttributeValue::Exprloc` arm of `AttributeValue::write` (`DW_FORM_exprloc` / `DW_FORM_block`):
ULEB128 of `size()` then the expression; `pos` is where the attribute value starts -/
def writeExprloc (e : Endian) (enc : Encoding) (uo : UnitOffs) (pos : Nat) (ops : List Operation) :
    Out (Bytes × List Fixup) := do
  let size ← exprSize enc uo ops
  let pre := Leb.encodeU size
  let (bs, fx) ← exprWrite e enc uo true (pos + pre.length) ops
  pure (pre ++ bs, fx)

/-- the length field of `loc.rs` `write_expression`: `u16` up to DWARF 4, ULEB128 in DWARF 5 -/
def locPrefix (e : Endian) (enc : Encoding) (size : Nat) : Out Bytes :=
  if enc.version ≤ 4 then Ints.writeUdata e size 2 else .ok (Leb.encodeU size)

/-- `loc.rs` `write_expression` -/
def writeLocExpr (e : Endian) (enc : Encoding) (uo : UnitOffs) (pos : Nat) (ops : List Operation) :
    Out (Bytes × List Fixup) := do
  let size ← exprSize enc uo ops
  let pre ← locPrefix e enc size
  let (bs, fx) ← exprWrite e enc uo true (pos + pre.length) ops
  pure (pre ++ bs, fx)

/-- the expression operand of `DW_CFA_def_cfa_expression` / `DW_CFA_expression` /
`DW_CFA_val_expression` (`cfi.rs`): no unit offsets, no fixups -/
def writeCfiExpr (e : Endian) (enc : Encoding) (pos : Nat) (ops : List Operation) :
    Out (Bytes × List Fixup) := do
  let size ← exprSize enc none ops
  let pre := Leb.encodeU size
  let (bs, fx) ← exprWrite e enc none false (pos + pre.length) ops
  pure (pre ++ bs, fx)

/-! ## fix-ups (`UnitTable::write_debug_info_fixups`) -/

/-- overwrite `patch.length` bytes at index `at_` -/
def patchAt (bs : Bytes) (at_ : Nat) (patch : Bytes) : Bytes :=
  bs.take at_ ++ patch ++ bs.drop (at_ + patch.length)

/-- `write_offset_at(fixup.offset, entry_offset, …, fixup.size)` for every fixup, in order;
`info unit entry` is `units[unit].offsets.debug_info_offset(entry)`; `base` is the section position
of `bs[0]` -/
def applyFixups (e : Endian) (info : Nat → Nat → Option Nat) (base : Nat) : Bytes → List Fixup → Out Bytes
  | bs, [] => .ok bs
  | bs, f :: rest =>
    match info f.unit f.entry with
    | none => .err .wInvalidReference
    | some o => do
      let p ← Ints.writeUdata e o f.size
      applyFixups e info base (patchAt bs (f.offset - base) p) rest

/-! ## reader-side image of an operation (what `read::Operation::parse` should return) -/

/-- the operand-free opcodes `Expression::op` is documented for (plus `DW_OP_GNU_uninit`, which
the converter produces) and the reader's name for each -/
def simpleImage : Nat → Option Op.Operation
  | 0x13 => some .drop | 0x16 => some .swap | 0x17 => some .rot
  | 0x97 => some .pushObjectAddress | 0x9b => some .tls | 0x9c => some .callFrameCFA
  | 0x19 => some .abs | 0x1a => some .and | 0x1b => some .div | 0x1c => some .minus
  | 0x1d => some .mod | 0x1e => some .mul | 0x1f => some .neg | 0x20 => some .not
  | 0x21 => some .or | 0x22 => some .plus | 0x24 => some .shl | 0x25 => some .shr
  | 0x26 => some .shra | 0x27 => some .xor
  | 0x2c => some .le | 0x2a => some .ge | 0x29 => some .eq | 0x2d => some .lt
  | 0x2b => some .gt | 0x2e => some .ne
  | 0x96 => some .nop | 0x9f => some .stackValue | 0xf0 => some .uninitialized
  | _ => none

/-- The reader-side operation a written operation stands for. `offs` resolves unit entries,
`disp` is the branch displacement for `skip`/`branch`, `body` the emitted bytes of an
`entry_value` sub-expression. Section references (`call_ref`, `variable_value`,
`implicit_pointer`) carry `refv`, the value of the reference field (0 until the fix-up is applied).
`none`: no single reader operation (raw bytecode, an opcode `Expression::op` is not meant for,
an entry without offset). -/
def image (enc : Encoding) (offs : Nat → Option Nat) (disp : Int) (body : Bytes) (refv : Nat) :
    Operation → Option Op.Operation
  | .raw _ => none
  | .simple opcode => simpleImage opcode
  | .address (.constant v) => some (.address v)
  | .address (.symbol _ _) => none
  | .unsignedConstant v => some (.unsignedConstant v)
  | .signedConstant v => some (.signedConstant v)
  | .constantType base value => (offs base).map (fun o => .typedLiteral o value)
  | .frameOffset o => some (.frameOffset o)
  | .registerOffset r o => some (.registerOffset r o 0)
  | .registerType r base => (offs base).map (fun o => .registerOffset r 0 o)
  | .pick i => some (.pick i)
  | .deref space => some (.deref 0 enc.addressSize space)
  | .derefSize space size => some (.deref 0 size space)
  | .derefType space size base => (offs base).map (fun o => .deref o size space)
  | .plusConstant v => some (.plusConstant v)
  | .skip _ => some (.skip disp)
  | .branch _ => some (.bra disp)
  | .call entry => (offs entry).map (fun o => .call (.unitRef o))
  | .callRef _ => some (.call (.debugInfoRef refv))
  | .variableValue _ => some (.variableValue refv)
  | .convert none => some (.convert 0)
  | .convert (some b) => (offs b).map (fun o => .convert o)
  | .reinterpret none => some (.reinterpret 0)
  | .reinterpret (some b) => (offs b).map (fun o => .reinterpret o)
  | .entryValue _ => some (.entryValue body)
  | .register r => some (.register r)
  | .implicitValue data => some (.implicitValue data)
  | .implicitPointer _ byteOffset => some (.implicitPointer refv byteOffset)
  | .piece n => some (.piece (n * 8) none)
  | .bitPiece s o => some (.piece s (some o))
  | .parameterRef entry => (offs entry).map (fun o => .parameterRef o)
  | .wasmLocal i => some (.wasmLocal i)
  | .wasmGlobal i => some (.wasmGlobal i)
  | .wasmStack i => some (.wasmStack i)

/-- the branch displacement `Operation::write` computes for a `skip`/`branch` written at `pos` -/
def dispOf (offsets : List Nat) (pos : Nat) : Operation → Int
  | .skip t => ((offsets.getD t 0 : Nat) : Int) - ((pos : Int) + 3)
  | .branch t => ((offsets.getD t 0 : Nat) : Int) - ((pos : Int) + 3)
  | _ => 0

/-- the bytes of the sub-expression of an `entry_value` written at `pos` -/
def bodyOf (e : Endian) (enc : Encoding) (uo : UnitOffs) (hasRefs : Bool) (pos : Nat) : Operation → Bytes
  | .entryValue x =>
    match exprSize enc uo x with
    | .ok n =>
      match exprWrite e enc uo hasRefs (pos + (1 + (Leb.encodeU n).length)) x with
      | .ok (b, _) => b
      | _ => []
    | _ => []
  | _ => []

/-- reader-side image of an operation written at `pos` with the given offsets vector (reference
fields before fix-up: 0) -/
def opImage (e : Endian) (enc : Encoding) (uo : UnitOffs) (hasRefs : Bool) (offsets : List Nat) (pos : Nat)
    (op : Operation) : Option Op.Operation :=
  image enc (uo.getD (fun _ => none)) (dispOf offsets pos op) (bodyOf e enc uo hasRefs pos op) 0 op

/-- Operand ranges of the Rust types (`u64`, `i64`, `Register(u16)`, `u8`, `u32`, `DwOp(u8)`), plus:
`simple` is one of the operand-free opcodes `Expression::op` is documented for; raw bytecode has no
operation-level meaning. -/
def OpWf : Operation → Prop
  | .raw _ => False
  | .simple opcode => (simpleImage opcode).isSome
  | .address (.constant v) => v < 2 ^ 64
  | .unsignedConstant v => v < 2 ^ 64
  | .signedConstant v => -(2 : Int) ^ 63 ≤ v ∧ v < 2 ^ 63
  | .frameOffset o => -(2 : Int) ^ 63 ≤ o ∧ o < 2 ^ 63
  | .registerOffset r o => r < 2 ^ 16 ∧ -(2 : Int) ^ 63 ≤ o ∧ o < 2 ^ 63
  | .registerType r _ => r < 2 ^ 16
  | .pick i => i < 2 ^ 8
  | .derefSize _ size => size < 2 ^ 8
  | .derefType _ size _ => size < 2 ^ 8
  | .plusConstant v => v < 2 ^ 64
  | .register r => r < 2 ^ 16
  | .implicitValue data => data.length < 2 ^ 64
  | .implicitPointer _ o => -(2 : Int) ^ 63 ≤ o ∧ o < 2 ^ 63
  | .piece n => n < 2 ^ 64
  | .bitPiece s o => s < 2 ^ 64 ∧ o < 2 ^ 64
  | .wasmLocal i => i < 2 ^ 32
  | .wasmGlobal i => i < 2 ^ 32
  | .wasmStack i => i < 2 ^ 32
  | _ => True

instance (op : Operation) : Decidable (OpWf op) := by
  cases op <;> try (unfold OpWf; infer_instance)
  case address a => cases a <;> (unfold OpWf; infer_instance)

/-- emitted length of one operation (0 if its size is an error) -/
def opLen (enc : Encoding) (uo : UnitOffs) (op : Operation) : Nat :=
  match opSize enc uo op with
  | .ok n => n
  | _ => 0

/-- What `OperationIter` should yield on the bytes of an expression written at `pos`: the image of
every operation with the offset (relative to the start of the expression, counted from `start`) at
which it ends. -/
def expectedDecode (e : Endian) (enc : Encoding) (uo : UnitOffs) (hasRefs : Bool) (offsets : List Nat) :
    Nat → Nat → List Operation → List (Op.Operation × Nat)
  | _, _, [] => []
  | pos, start, op :: rest =>
    let n := opLen enc uo op
    ((opImage e enc uo hasRefs offsets pos op).getD .nop, start + n) ::
      expectedDecode e enc uo hasRefs offsets (pos + n) (start + n) rest

/-- `op` is a `skip` or `branch` to operation index `t` -/
def isBranchTo (op : Operation) (t : Nat) : Prop := op = .skip t ∨ op = .branch t

/-- the reader-side operation a branch with displacement `d` decodes to -/
def branchImage (op : Operation) (d : Int) : Op.Operation :=
  match op with
  | .branch _ => .bra d
  | _ => .skip d

/-- the unit entry an operation refers to through the offsets function (ULEB128 or 4-byte unit
offset), not looking into `entry_value` bodies -/
def directRef : Operation → Option Nat
  | .constantType base _ => some base
  | .registerType _ base => some base
  | .derefType _ _ base => some base
  | .call entry => some entry
  | .convert (some base) => some base
  | .reinterpret (some base) => some base
  | .parameterRef entry => some entry
  | _ => none

mutual
/-- every unit entry the operation refers to (also inside `entry_value`) has an offset -/
def refsKnown (offs : Nat → Option Nat) : Operation → Bool
  | .constantType base _ => (offs base).isSome
  | .registerType _ base => (offs base).isSome
  | .derefType _ _ base => (offs base).isSome
  | .call entry => (offs entry).isSome
  | .convert (some base) => (offs base).isSome
  | .reinterpret (some base) => (offs base).isSome
  | .parameterRef entry => (offs entry).isSome
  | .entryValue body => refsKnownAll offs body
  | _ => true
def refsKnownAll (offs : Nat → Option Nat) : List Operation → Bool
  | [] => true
  | op :: rest => refsKnown offs op && refsKnownAll offs rest
end

/-- the `.debug_info` reference an operation carries (resolved by a fix-up), with its field size -/
def sectionRef (enc : Encoding) : Operation → Option (DRef × Nat)
  | .callRef r => some (r, enc.format.wordSize)
  | .variableValue r => some (r, enc.format.wordSize)
  | .implicitPointer r _ => some (r, implicitPointerRefSize enc)
  | _ => none

end Gimli.WOp
