import Gimli.Model.Ints
/-!
# Model of `src/read/aranges.rs` (as of HEAD: runs of null tuples are skipped in a loop)

`ArangeHeader::parse`, `ArangeHeaderIter::next`, `ArangeEntry::parse`, `ArangeEntryIter::{next,
next_raw, convert_raw}`.  Readers are the remaining bytes.  All `u8` arithmetic on the header
size stays below 256 (`address_size ∈ {1,2,4,8}` after `read_address_size`), the dead overflow
checks are kept so that the Model follows the code line by line.
-/
namespace Gimli.Aranges
open Gimli Gimli.Ints

/-- `Format::initial_length_size` -/
def initialLengthSize : Format → Nat
  | .dwarf32 => 4
  | .dwarf64 => 12

/-- `unit_length + version + offset + address_size + segment_size` -/
def headerLength (f : Format) : Nat := initialLengthSize f + 2 + f.wordSize + 1 + 1

/-- the padding rule of `ArangeHeader::parse`, given the tuple length -/
def paddingFor (headerLen tupleLen : Nat) : Nat :=
  if headerLen % tupleLen = 0 then 0 else tupleLen - headerLen % tupleLen

/-- padding before the first tuple for a format and address size -/
def padding (f : Format) (addressSize : Nat) : Nat := paddingFor (headerLength f) (addressSize * 2)

structure Header where
  format : Format
  version : Nat
  addressSize : Nat
  length : Nat
  debugInfoOffset : Nat
  entries : Bytes
  deriving Repr, DecidableEq

/-- `ArangeHeader::parse`; returns the header and the input after this set -/
def parseHeader (e : Endian) (input : Bytes) : Out (Header × Bytes) := do
  let ((length, format), input) ← readInitialLength e 64 input
  let (rest, input) ← take length input
  let (version, rest) ← readFixed e 2 rest
  if version ≠ 2 ∧ version ≠ 3 then .err .rUnknownVersion else do
  let (debugInfoOffset, rest) ← readWord e 64 format rest
  let (addressSize, rest) ← readAddressSize rest
  let (segmentSize, rest) ← readFixed e 1 rest
  if segmentSize ≠ 0 then .err .rUnsupportedSegmentSize else do
  -- `address_size.checked_mul(2)` on `u8`
  if addressSize * 2 > 255 then .err .rUnsupportedAddressSize else
  let tupleLength := addressSize * 2
  if tupleLength = 0 then .err .rUnsupportedAddressSize else do
  let pad := paddingFor (headerLength format) tupleLength
  let (_, rest) ← take pad rest
  pure ({ format, version, addressSize, length, debugInfoOffset, entries := rest }, input)

/-- what one call of an iterator's `next` produced -/
inductive Item (α : Type) where
  | item (a : α)
  | error (e : Err)
  deriving Repr, DecidableEq

/-- `ArangeHeaderIter` run to the end (`fuel` = cap on the number of `next` calls, `off` = the
iterator's `offset` field): on an error the input is emptied, so the error is the last item -/
def headers (e : Endian) : Nat → Bytes → Nat → List (Item (Nat × Header))
  | 0, _, _ => []
  | fuel + 1, input, off =>
    if input.isEmpty then []
    else match parseHeader e input with
      | .ok (h, rest) => .item (off, h) :: headers e fuel rest (off + (input.length - rest.length))
      | .err x => [.error x]
      | _ => []

/-- the `loop` of `ArangeEntry::parse`: `Ok(Some((begin, length)))`, or `Ok(None)` with the
input emptied when less than a tuple remains -/
def parseEntry (e : Endian) (addressSize : Nat) : Nat → Bytes → Out (Option (Nat × Nat) × Bytes)
  | 0, _ => .diverge
  | fuel + 1, input =>
    if 2 * addressSize > input.length then .ok (none, [])
    else do
      let (b, input) ← readAddress e addressSize input
      let (l, input) ← readAddress e addressSize input
      if b = 0 ∧ l = 0 then parseEntry e addressSize fuel input
      else pure (some (b, l), input)

/-- `ReaderAddress::min_tombstone(size)` for `u64` -/
def minTombstone (addressSize : Nat) : Nat := 2 ^ (8 * addressSize) - 2

/-- a converted entry: `range.begin`, `range.end`, `length` -/
structure Entry where
  begin_ : Nat
  end_ : Nat
  length : Nat
  deriving Repr, DecidableEq

/-- `ArangeEntryIter::convert_raw` (`add_sized`: `checked_add`, then the `& !mask` test) -/
def convertRaw (addressSize : Nat) (raw : Nat × Nat) : Out (Option Entry) :=
  if raw.1 ≥ minTombstone addressSize then .ok none
  else if raw.1 + raw.2 ≥ 2 ^ 64 then .err .rAddressOverflow
  else if raw.1 + raw.2 ≥ 2 ^ (8 * addressSize) then .err .rAddressOverflow
  else .ok (some { begin_ := raw.1, end_ := raw.1 + raw.2, length := raw.2 })

/-- `ArangeEntryIter::next_raw`: result and the iterator's input afterwards -/
def nextRaw (e : Endian) (addressSize : Nat) (input : Bytes) : Out (Option (Nat × Nat)) × Bytes :=
  if input.isEmpty then (.ok none, input)
  else match parseEntry e addressSize (input.length + 1) input with
    | .ok (some raw, rest) => (.ok (some raw), rest)
    | .ok (none, _) => (.ok none, [])
    | .err x => (.err x, [])
    | .panic w => (.panic w, input)
    | .diverge => (.diverge, input)

/-- the `loop` of `ArangeEntryIter::next`; note that an error of `convert_raw` does *not*
empty the input -/
def nextLoop (e : Endian) (addressSize : Nat) : Nat → Bytes → Out (Option Entry) × Bytes
  | 0, input => (.diverge, input)
  | fuel + 1, input =>
    match nextRaw e addressSize input with
    | (.ok (some raw), rest) =>
      match convertRaw addressSize raw with
      | .ok (some en) => (.ok (some en), rest)
      | .ok none => nextLoop e addressSize fuel rest
      | .err x => (.err x, rest)
      | .panic w => (.panic w, rest)
      | .diverge => (.diverge, rest)
    | (.ok none, rest) => (.ok none, rest)
    | (.err x, rest) => (.err x, rest)
    | (.panic w, rest) => (.panic w, rest)
    | (.diverge, rest) => (.diverge, rest)

/-- `ArangeEntryIter::next` -/
def next (e : Endian) (addressSize : Nat) (input : Bytes) : Out (Option Entry) × Bytes :=
  nextLoop e addressSize (input.length + 1) input

/-- the entry iterator run to `Ok(None)` (`fuel` = cap on the number of `next` calls) -/
def entries (e : Endian) (addressSize : Nat) : Nat → Bytes → List (Item Entry)
  | 0, _ => []
  | fuel + 1, input =>
    match next e addressSize input with
    | (.ok (some en), rest) => .item en :: entries e addressSize fuel rest
    | (.ok none, _) => []
    | (.err x, rest) => .error x :: entries e addressSize fuel rest
    | (_, _) => []

end Gimli.Aranges
