import Gimli.Prim.Basic
/-!
# UTF-8 validity and lossy conversion (what `core::str::from_utf8` and
`String::from_utf8_lossy` compute), used by `Reader::to_string` / `to_string_lossy`.

The C10 theorems abstract over these two functions (they are parameters there); the driver
executes the definitions below, and the correspondence check compares them with the standard
library on every generated string.

Well-formed byte sequences: Unicode 15 Table 3-7. Lossy conversion: every maximal prefix of a
well-formed sequence that is not continued ("substitution of maximal subparts",
`core::str::Utf8Chunks`) becomes one U+FFFD.
-/
namespace Gimli.Utf8

inductive Step where
  /-- the next scalar value is well-formed and `n` bytes long -/
  | valid (n : Nat)
  /-- the next `n ≥ 1` bytes are an ill-formed subsequence to be replaced by one U+FFFD -/
  | invalid (n : Nat)
  deriving DecidableEq, Repr

def isCont (b : Nat) : Bool := 0x80 ≤ b && b ≤ 0xbf

/-- `Utf8Chunks::next`, one scalar value: missing bytes behave like a mismatch -/
def decodeOne : Bytes → Step
  | [] => .invalid 0
  | b0 :: rest =>
    let b0 := b0.toNat
    let b1 := (rest.head?.map UInt8.toNat).getD 0
    let b2 := ((rest.drop 1).head?.map UInt8.toNat).getD 0
    let b3 := ((rest.drop 2).head?.map UInt8.toNat).getD 0
    if b0 < 0x80 then .valid 1
    else if 0xc2 ≤ b0 ∧ b0 ≤ 0xdf then
      if isCont b1 then .valid 2 else .invalid 1
    else if 0xe0 ≤ b0 ∧ b0 ≤ 0xef then
      let ok1 :=
        (b0 = 0xe0 ∧ 0xa0 ≤ b1 ∧ b1 ≤ 0xbf) ∨ (0xe1 ≤ b0 ∧ b0 ≤ 0xec ∧ isCont b1) ∨
        (b0 = 0xed ∧ 0x80 ≤ b1 ∧ b1 ≤ 0x9f) ∨ (0xee ≤ b0 ∧ b0 ≤ 0xef ∧ isCont b1)
      if ¬ ok1 then .invalid 1
      else if ¬ isCont b2 then .invalid 2
      else .valid 3
    else if 0xf0 ≤ b0 ∧ b0 ≤ 0xf4 then
      let ok1 :=
        (b0 = 0xf0 ∧ 0x90 ≤ b1 ∧ b1 ≤ 0xbf) ∨ (0xf1 ≤ b0 ∧ b0 ≤ 0xf3 ∧ isCont b1) ∨
        (b0 = 0xf4 ∧ 0x80 ≤ b1 ∧ b1 ≤ 0x8f)
      if ¬ ok1 then .invalid 1
      else if ¬ isCont b2 then .invalid 2
      else if ¬ isCont b3 then .invalid 3
      else .valid 4
    else .invalid 1

/-- `core::str::from_utf8(bs).is_ok()`; fuel = length suffices (every step consumes ≥ 1 byte) -/
def validFuel : Nat → Bytes → Bool
  | _, [] => true
  | 0, _ => false
  | fuel + 1, bs =>
    match decodeOne bs with
    | .valid n => validFuel fuel (bs.drop (max n 1))
    | .invalid _ => false

def valid (bs : Bytes) : Bool := validFuel bs.length bs

/-- `String::from_utf8_lossy(bs)` as bytes -/
def lossyFuel : Nat → Bytes → Bytes
  | _, [] => []
  | 0, _ => []
  | fuel + 1, bs =>
    match decodeOne bs with
    | .valid n => bs.take (max n 1) ++ lossyFuel fuel (bs.drop (max n 1))
    | .invalid n => [0xef, 0xbf, 0xbd] ++ lossyFuel fuel (bs.drop (max n 1))

def lossy (bs : Bytes) : Bytes := lossyFuel bs.length bs

end Gimli.Utf8
