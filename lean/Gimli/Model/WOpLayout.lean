import Gimli.Model.WOp
/-!
# Where the C15 harness puts an expression, and the entry offsets that result

The C15 harness (`harness/src/prop/c15.rs`) builds, through the public `gimli::write` API,

* an optional *preceding* unit and an optional *following* unit, each: root DIE + one child that
  carries a `DW_AT_name` string of a given length (targets of `.debug_info` references from another
  unit, before and after);
* the *main* unit: root DIE (no attributes) whose children are the listed entries, each with a
  `DW_AT_name` string of a given length: `base` (`DW_TAG_base_type`), `var` (`DW_TAG_variable`),
  `deleted` (added, then `delete_child`: it never gets an offset), and exactly one *referrer*
  (`refVar`/`refBase`) which carries the expression under test:
    - `attr`: `DW_AT_location = Exprloc(expr)` followed by an 8-byte marker string attribute;
    - `loc`:  `DW_AT_location = LocationListRef`, the expression is the middle entry of the list;
    - `cfi`:  nothing (the expression goes into a CIE of a `FrameTable`).

This file mirrors what `Unit::write` does to such a unit as far as entry offsets go
(`reorder_base_types`: base types first, stable; `calculate_offsets`: pre-order, an entry's own
offset is recorded *before* its size is computed, later entries have no offset yet; abbreviation
codes of these few shapes are one byte) and then calls the writer Model of `Model/WOp.lean` the way
the three containers call `Expression::{size,write}`.  Everything here is checked byte for byte
against the real crate by the correspondence run; the property theorems quantify over *arbitrary*
offset functions and do not depend on this file.
-/
namespace Gimli.WOp.Layout
open Gimli.Op (Encoding)

inductive Kind where
  | base | var | deleted | refVar | refBase
  deriving DecidableEq, Repr, Inhabited

def Kind.isBase : Kind → Bool
  | .base | .refBase => true
  | _ => false

def Kind.isRef : Kind → Bool
  | .refVar | .refBase => true
  | _ => false

structure EntrySpec where
  kind : Kind
  nameLen : Nat
  deriving Repr, Inhabited

structure UnitSpec where
  pre : Option Nat
  post : Option Nat
  entries : List EntrySpec
  deriving Repr, Inhabited

inductive Ctx where
  | attr
  | loc
  /-- `DW_CFA_def_cfa_expression` / `DW_CFA_expression` / `DW_CFA_val_expression`; `.eh_frame`? -/
  | cfi (ehFrame : Bool)
  deriving DecidableEq, Repr, Inhabited

/-- length of the markers the harness places before and after the expression -/
def markerLen : Nat := 8

/-- size of a unit header: initial length, version, (unit type), abbrev offset, address size -/
def headerSize (enc : Encoding) : Nat :=
  (match enc.format with | .dwarf32 => 4 | .dwarf64 => 12) + 2 + enc.format.wordSize + 1 +
    (if enc.version = 5 then 1 else 0)

/-- an auxiliary unit: header, root (code), child (code, name, NUL), end of children -/
def auxUnitSize (enc : Encoding) (nameLen : Nat) : Nat := headerSize enc + 1 + (1 + nameLen + 1) + 1

/-- the main unit's children in written order (`reorder_base_types`, deleted ones dropped),
as indices into `entries` -/
def order (entries : List EntrySpec) : List Nat :=
  let idx := (List.range entries.length).zip entries
  let live := idx.filter (fun p => p.2.kind ≠ .deleted)
  (live.filter (fun p => p.2.kind.isBase)).map (·.1) ++ (live.filter (fun p => !p.2.kind.isBase)).map (·.1)

/-- size of one child DIE; `refSize` is what the referrer's extra attributes occupy -/
def entrySize (s : EntrySpec) (refSize : Nat) : Nat :=
  1 + (s.nameLen + 1) + (if s.kind.isRef then refSize else 0)

/-- unit offsets of the children in `ord` order, starting at `off`; stops *after* the referrer when
`upToRef` (the state of `UnitOffsets` when the referrer's size is computed) -/
def assign (entries : List EntrySpec) (refSize : Nat) (upToRef : Bool) : List Nat → Nat → List (Nat × Nat)
  | [], _ => []
  | i :: rest, off =>
    let s := entries.getD i default
    (i, off) :: (if upToRef && s.kind.isRef then [] else assign entries refSize upToRef rest (off + entrySize s refSize))

def lookup (tbl : List (Nat × Nat)) (i : Nat) : Option Nat :=
  (tbl.find? (fun p => p.1 == i)).map (·.2)

/-- unit offset of the first child of the main unit -/
def firstChild (enc : Encoding) : Nat := headerSize enc + 1

def mainStart (enc : Encoding) (u : UnitSpec) : Nat :=
  match u.pre with
  | some n => auxUnitSize enc n
  | none => 0

/-- size of the main unit: header, root code, children, end of children (absent if no child) -/
def mainSize (enc : Encoding) (u : UnitSpec) (refSize : Nat) : Nat :=
  let ord := order u.entries
  headerSize enc + 1 + (ord.map (fun i => entrySize (u.entries.getD i default) refSize)).sum +
    (if ord.isEmpty then 0 else 1)

/-- `units[unit].offsets.debug_info_offset(entry)`: unit 0 = preceding, 1 = main, 2 = following -/
def infoOffset (enc : Encoding) (u : UnitSpec) (refSize : Nat) (unit entry : Nat) : Option Nat :=
  match unit with
  | 0 => u.pre.map (fun _ => headerSize enc + 1)
  | 1 => (lookup (assign u.entries refSize false (order u.entries) (firstChild enc)) entry).map (· + mainStart enc u)
  | 2 => u.post.map (fun _ => mainStart enc u + mainSize enc u refSize + headerSize enc + 1)
  | _ => none

def refIndex (entries : List EntrySpec) : Nat :=
  ((List.range entries.length).zip entries |>.find? (fun p => p.2.kind.isRef)).map (·.1) |>.getD 0

/-- the expression as it ends up in the section (after `write_debug_info_fixups`) and the value
of its length prefix -/
def emit (e : Endian) (enc : Encoding) (u : UnitSpec) (ctx : Ctx) (ops : List Operation) : Out (Nat × Bytes) :=
  let ord := order u.entries
  match ctx with
  | .attr => do
    -- size pass (`calculate_offsets`): only the entries up to the referrer have offsets
    let offsSize := lookup (assign u.entries 0 true ord (firstChild enc))
    let size ← exprSize enc (some offsSize) ops
    let refSize := (Leb.sizeU size + size) + (markerLen + 1)
    -- write pass: all offsets known
    let offs := lookup (assign u.entries refSize false ord (firstChild enc))
    let r := refIndex u.entries
    let pos := mainStart enc u + (offs r).getD 0 + 1 + ((u.entries.getD r default).nameLen + 1)
    let (bs, fx) ← writeExprloc e enc (some offs) pos ops
    let pre := Leb.encodeU size
    let bs ← applyFixups e (infoOffset enc u refSize) (pos + pre.length) (bs.drop pre.length) fx
    pure (size, bs)
  | .loc => do
    let refSize := enc.format.wordSize
    let offs := lookup (assign u.entries refSize false ord (firstChild enc))
    let size ← exprSize enc (some offs) ops
    let preLen := if enc.version ≤ 4 then 2 else (Leb.encodeU size).length
    let (bs, fx) ← writeLocExpr e enc (some offs) 0 ops
    let bs ← applyFixups e (infoOffset enc u refSize) preLen (bs.drop preLen) fx
    pure (size, bs)
  | .cfi eh =>
    -- `CommonInformationEntry::write` checks the CIE version before any instruction
    if (eh && enc.version ≠ 1) || (!eh && enc.version ≠ 1 && enc.version ≠ 3 && enc.version ≠ 4) then
      .err .wUnsupportedVersion
    else do
      let size ← exprSize enc none ops
      let (bs, _) ← writeCfiExpr e enc 0 ops
      pure (size, bs.drop (Leb.encodeU size).length)

end Gimli.WOp.Layout
