import Gimli.Model.Line
/-!
# Model of `src/write/line.rs` (the writer side of `.debug_line`)

Mirrors, path by path:

* `LineProgram::new` (the two `assert!`s, working directory, v5 source file)      → `Prog.new`, `newCheck`
* `LineProgram::{add_directory, add_file}` (`IndexSet`/`IndexMap` keyed by value)  → `addDirectory`, `addFile`
* `FileId::{initial_state, raw}`                                                   → `fileInitial`, `fileRaw`
* `LineProgram::{begin_sequence, set_address, end_sequence, generate_row, op_advance}`
                                                                                   → same names in camelCase
* `LineInstruction::write`                                                         → `writeInstr`
* `LineString::{form, write}`, `LineStringTable`/`StringTable::{add, offset, write}` → `LineStr`, `StrTab`
* `LineProgram::write` (header v2–v5, tables, instructions, the two back-patched lengths) → `Prog.write`

Machine integers are `Nat` with explicit wrap-around. Unchecked Rust arithmetic takes the build
`Mode`: `debug` panics on overflow and evaluates `debug_assert!`s, `release` wraps and skips them.
`usize` is 64 bits.

The writer's `LineInstruction` is `WInstr`; `WInstr.toInstr` maps it into the reader's instruction
vocabulary (`Gimli.Line.Instr`) so that theorems can execute what the writer emits on the reader
Model of C04.
-/
namespace Gimli.WLine
open Gimli Gimli.Line

/-! ## arithmetic in the two build modes -/

/-- unchecked `a - b` on `u64` -/
def subM (m : Mode) (a b : Nat) : Out Nat :=
  if b ≤ a then .ok (a - b)
  else match m with
    | .debug => .panic "attempt to subtract with overflow"
    | .release => .ok ((a + 2 ^ 64 - b) % 2 ^ 64)

/-- unchecked `a + b` on `u64` -/
def addM (m : Mode) (a b : Nat) : Out Nat :=
  if a + b < 2 ^ 64 then .ok (a + b)
  else match m with
    | .debug => .panic "attempt to add with overflow"
    | .release => .ok ((a + b) % 2 ^ 64)

/-- unchecked `a * b` on `u64` -/
def mulM (m : Mode) (a b : Nat) : Out Nat :=
  if a * b < 2 ^ 64 then .ok (a * b)
  else match m with
    | .debug => .panic "attempt to multiply with overflow"
    | .release => .ok ((a * b) % 2 ^ 64)

/-- `x as i64` of an integer -/
def wrapI64 (i : Int) : Int := (i + 2 ^ 63) % 2 ^ 64 - 2 ^ 63

/-! ## parameters, rows, instructions -/

/-- the part of `Encoding` + `LineEncoding` that the row encoder looks at -/
structure Enc where
  version : Nat
  minInstLen : Nat
  maxOps : Nat
  defaultIsStmt : Bool
  lineBase : Int
  lineRange : Nat
  deriving DecidableEq, Repr

/-- `write::LineRow`; `file` is the 0-based `FileId` index -/
structure WRow where
  addressOffset : Nat
  opIndex : Nat
  file : Nat
  line : Nat
  column : Nat
  discriminator : Nat
  isStmt : Bool
  basicBlock : Bool
  prologueEnd : Bool
  epilogueBegin : Bool
  isa : Nat
  deriving DecidableEq, Repr

/-- `FileId::initial_state` -/
def fileInitial (version : Nat) : Nat := if version = 5 then 1 else 0

/-- `FileId::raw` -/
def fileRaw (version : Nat) (index : Nat) : Nat := if version ≤ 4 then index + 1 else index

/-- `LineRow::initial_state` -/
def WRow.initial (e : Enc) : WRow :=
  { addressOffset := 0, opIndex := 0, file := fileInitial e.version, line := 1, column := 0,
    discriminator := 0, isStmt := e.defaultIsStmt, basicBlock := false, prologueEnd := false,
    epilogueBegin := false, isa := 0 }

/-- the writer's private `LineInstruction`. `setFile` carries the `FileId` index (made raw when
written), `setAddress` the value of an `Address::Constant`, or `none` for an `Address::Symbol`. -/
inductive WInstr where
  | special (opcode : Nat)
  | copy
  | advancePc (n : Nat)
  | advanceLine (i : Int)
  | setFile (index : Nat)
  | setColumn (n : Nat)
  | negateStatement
  | setBasicBlock
  | constAddPc
  | setPrologueEnd
  | setEpilogueBegin
  | setIsa (n : Nat)
  | endSequence
  | setAddress (a : Option Nat)
  | setDiscriminator (n : Nat)
  deriving DecidableEq, Repr

/-- `OPCODE_BASE` -/
def opcodeBase : Nat := 13

/-- the `standard_opcode_lengths` the writer emits -/
def stdLens : Bytes := [0, 1, 1, 1, 1, 0, 0, 0, 1, 0, 0, 1]

/-- the instruction a reader decodes from what `LineInstruction::write` emits (when it succeeds) -/
def WInstr.toInstr (version : Nat) : WInstr → Instr
  | .special op => .special op
  | .copy => .copy
  | .advancePc n => .advancePc n
  | .advanceLine i => .advanceLine i
  | .setFile index => .setFile (fileRaw version index)
  | .setColumn n => .setColumn n
  | .negateStatement => .negateStatement
  | .setBasicBlock => .setBasicBlock
  | .constAddPc => .constAddPc
  | .setPrologueEnd => .setPrologueEnd
  | .setEpilogueBegin => .setEpilogueBegin
  | .setIsa n => .setIsa n
  | .endSequence => .endSequence
  | .setAddress a => .setAddress (a.getD 0)
  | .setDiscriminator n => .setDiscriminator n

/-! ## the row encoder -/

/-- `LineProgram::op_advance` -/
def opAdvance (m : Mode) (e : Enc) (prev row : WRow) : Out Nat := do
  if m = .debug ∧ row.addressOffset < prev.addressOffset then
    .panic "assertion failed: self.row.address_offset >= self.prev_row.address_offset"
  else
  let adv ← subM m row.addressOffset prev.addressOffset
  let adv ← (if e.minInstLen ≠ 1 then
      if e.minInstLen = 0 then
        (.panic "attempt to divide by zero" : Out Nat)
      else if m = .debug ∧ row.addressOffset % e.minInstLen ≠ 0 then
        .panic "assertion `left == right` failed"
      else .ok (adv / e.minInstLen)
    else .ok adv)
  let a ← mulM m adv e.maxOps
  let b ← addM m a row.opIndex
  subM m b prev.opIndex

/-- `self.row.line as i64 - self.prev_row.line as i64` -/
def lineAdvance (m : Mode) (prevLine line : Nat) : Out Int :=
  let d := Leb.toI64 line - Leb.toI64 prevLine
  if -(2 ^ 63 : Int) ≤ d ∧ d < 2 ^ 63 then .ok d
  else match m with
    | .debug => .panic "attempt to subtract with overflow"
    | .release => .ok (wrapI64 d)

/-- the closure `special_for` of `generate_row` -/
def specialFor (special lineRange opAdv : Nat) : Option Nat :=
  if opAdv * lineRange < 2 ^ 64 then
    if special + opAdv * lineRange < 2 ^ 64 then
      if special + opAdv * lineRange ≤ 255 then some (special + opAdv * lineRange) else none
    else none
  else none

/-- the fields that are reset on every row: pushed first, and cleared in `self.row` -/
def resetFieldInstrs (row : WRow) : List WInstr :=
  (if row.discriminator ≠ 0 then [.setDiscriminator row.discriminator] else []) ++
  (if row.basicBlock then [.setBasicBlock] else []) ++
  (if row.prologueEnd then [.setPrologueEnd] else []) ++
  (if row.epilogueBegin then [.setEpilogueBegin] else [])

/-- the fields that are not reset on every row: pushed when they differ from the previous row -/
def stickyFieldInstrs (prev row : WRow) : List WInstr :=
  (if row.isStmt ≠ prev.isStmt then [.negateStatement] else []) ++
  (if row.file ≠ prev.file then [.setFile row.file] else []) ++
  (if row.column ≠ prev.column then [.setColumn row.column] else []) ++
  (if row.isa ≠ prev.isa then [.setIsa row.isa] else [])

/-- `self.row` after `generate_row` (it also becomes `self.prev_row`) -/
def WRow.cleared (row : WRow) : WRow :=
  { row with discriminator := 0, basicBlock := false, prologueEnd := false, epilogueBegin := false }

/-- `special_default = special_base.wrapping_sub(line_base)` with `line_base` sign-extended to
`u64`: the special opcode for a line advance of 0 and an operation advance of 0 -/
def specialDefault (e : Enc) : Nat := (opcodeBase + 2 ^ 64 - Leb.ofI64 e.lineBase) % 2 ^ 64

/-- the `if line_advance != 0 { … }` block of `generate_row`:
(`special`, `use_special`, instructions pushed) -/
def linePart (e : Enc) (la : Int) : Nat × Bool × List WInstr :=
  -- `(line_advance as u64).wrapping_sub(line_base)`
  let specialLine := (Leb.ofI64 la + 2 ^ 64 - Leb.ofI64 e.lineBase) % 2 ^ 64
  if la ≠ 0 then
    if specialLine < e.lineRange ∧ opcodeBase + specialLine ≤ 255 then (opcodeBase + specialLine, true, [])
    else (specialDefault e, false, [.advanceLine la])
  else (specialDefault e, false, [])

/-- the `if op_advance != 0 { … }` block of `generate_row`: new (`special`, `use_special`) and the
instructions pushed -/
def opPart (m : Mode) (e : Enc) (special : Nat) (useSpecial : Bool) (oa : Nat) :
    Out (Nat × Bool × List WInstr) :=
  if oa ≠ 0 then do
    -- "Using ConstAddPc can save a byte."
    let (sop, cap) ← (
      if (specialFor special e.lineRange oa).isSome then (.ok (oa, false) : Out (Nat × Bool))
      else
        if e.lineRange = 0 then .panic "attempt to divide by zero"
        else do
          let opRange := (255 - opcodeBase) / e.lineRange
          let s ← subM m oa opRange
          pure (s, true))
    match specialFor special e.lineRange sop with
    | some s => pure (s, true, if cap then [WInstr.constAddPc] else [])
    | none => pure (special, useSpecial, [WInstr.advancePc oa])
  else pure (special, useSpecial, [])

/-- the final `if use_special && special != special_default { … } else { Copy }` of `generate_row`;
`special as u8` truncates in release builds, the two `debug_assert!`s fire in debug builds -/
def finalPart (m : Mode) (e : Enc) (special : Nat) (useSpecial : Bool) : Out WInstr :=
  if useSpecial ∧ special ≠ specialDefault e then
    if m = .debug ∧ special < opcodeBase then .panic "assertion failed: special >= special_base"
    else if m = .debug ∧ special > 255 then .panic "assertion failed: special <= 255"
    else .ok (.special (special % 256))
  else .ok .copy

/-- the "advance the line, address and operation index" part of `generate_row`: the
instructions pushed for a line advance `la` and an operation advance `oa` -/
def advanceInstrs (m : Mode) (e : Enc) (la : Int) (oa : Nat) : Out (List WInstr) := do
  let (special, useSpecial, lineIs) := linePart e la
  let (special, useSpecial, opIs) ← opPart m e special useSpecial oa
  let fin ← finalPart m e special useSpecial
  pure (lineIs ++ opIs ++ [fin])

/-- `LineProgram::generate_row`: the instructions pushed, and the new `self.row` = `self.prev_row` -/
def generateRow (m : Mode) (e : Enc) (prev row : WRow) : Out (List WInstr × WRow) := do
  let la ← lineAdvance m prev.line row.line
  let oa ← opAdvance m e prev row
  let adv ← advanceInstrs m e la oa
  pure (resetFieldInstrs row ++ stickyFieldInstrs prev row ++ adv, row.cleared)

/-- `LineProgram::end_sequence(address_offset)`: instructions pushed (`prev_row` and `row` become
the initial state) -/
def endSequence (m : Mode) (e : Enc) (prev row : WRow) (addressOffset : Nat) : Out (List WInstr) := do
  let oa ← opAdvance m e prev { row with addressOffset := addressOffset }
  pure ((if oa ≠ 0 then [.advancePc oa] else []) ++ [.endSequence])

/-! ## instruction serialisation -/

/-- `LineInstruction::write` -/
def writeInstr (en : Endian) (version addrSize : Nat) : WInstr → Out Bytes
  | .special op => .ok [UInt8.ofNat op]
  | .copy => .ok [1]
  | .advancePc n => .ok (2 :: Leb.encodeU n)
  | .advanceLine i => .ok (3 :: Leb.encodeS i)
  | .setFile index => .ok (4 :: Leb.encodeU (fileRaw version index))
  | .setColumn n => .ok (5 :: Leb.encodeU n)
  | .negateStatement => .ok [6]
  | .setBasicBlock => .ok [7]
  | .constAddPc => .ok [8]
  | .setPrologueEnd => .ok [10]
  | .setEpilogueBegin => .ok [11]
  | .setIsa n => .ok (12 :: Leb.encodeU n)
  | .endSequence => .ok (0 :: (Leb.encodeU 1 ++ [1]))
  | .setAddress a =>
    match a with
    | none => .err .wInvalidAddress
    | some a => do
      let bs ← Ints.writeUdata en a addrSize
      pure (0 :: (Leb.encodeU (1 + addrSize) ++ 2 :: bs))
  | .setDiscriminator n =>
    let v := Leb.encodeU n
    .ok (0 :: (Leb.encodeU (1 + v.length) ++ 4 :: v))

/-- `for instruction in &self.instructions { instruction.write(w, self.encoding)?; }` -/
def writeInstrs (en : Endian) (version addrSize : Nat) : List WInstr → Out Bytes
  | [] => .ok []
  | i :: is => do
    let b ← writeInstr en version addrSize i
    let bs ← writeInstrs en version addrSize is
    pure (b ++ bs)

/-! ## strings, directories, files -/

/-- `LineString` variant = the form it is written with -/
inductive SForm where
  | string      -- `LineString::String`,        DW_FORM_string   (0x08)
  | strp        -- `LineString::StringRef`,     DW_FORM_strp     (0x0e)
  | lineStrp    -- `LineString::LineStringRef`, DW_FORM_line_strp (0x1f)
  deriving DecidableEq, Repr

/-- `LineString::form` -/
def SForm.code : SForm → Nat
  | .string => 0x08
  | .strp => 0x0e
  | .lineStrp => 0x1f

/-- `LineString`; for the two reference variants `val` is the content of the referenced table
entry (ids of a deduplicating table are in bijection with contents, so `LineString` equality —
the `IndexSet`/`IndexMap` key equality — is equality of `(form, val)`) -/
structure LineStr where
  form : SForm
  val : Bytes
  deriving DecidableEq, Repr

/-- `StringTable` / `LineStringTable`: the distinct strings in insertion order -/
abbrev StrTab := List Bytes

/-- index of the first element satisfying `p`, if any -/
def findIdx? {α : Type} (p : α → Bool) : List α → Option Nat
  | [] => none
  | x :: xs => if p x then some 0 else (findIdx? p xs).map (· + 1)

/-- `StringTable::add` (the id is the index). Panics on an embedded NUL. -/
def StrTab.add (t : StrTab) (s : Bytes) : Out (StrTab × Nat) :=
  if s.contains 0 then .panic "assertion failed: !bytes.contains(&0)"
  else match findIdx? (· == s) t with
    | some i => .ok (t, i)
    | none => .ok (t ++ [s], t.length)

/-- `StringTable::offset`: start of entry `id` in the written section -/
def StrTab.offset : StrTab → Nat → Nat
  | [], _ => 0
  | _, 0 => 0
  | s :: t, id + 1 => s.length + 1 + StrTab.offset t id

/-- `StringTable::write` -/
def StrTab.bytes : StrTab → Bytes
  | [] => []
  | s :: t => s ++ 0 :: StrTab.bytes t

/-- `FileInfo` -/
structure FileInfo where
  timestamp : Nat
  size : Nat
  md5 : Bytes
  source : Option LineStr
  deriving DecidableEq, Repr

/-- `FileInfo::default()` -/
def FileInfo.default : FileInfo :=
  { timestamp := 0, size := 0, md5 := List.replicate 16 0, source := none }

/-- one entry of `LineProgram::files`: key `(name, directory)` and the info -/
structure FileEnt where
  name : LineStr
  dir : Nat
  info : FileInfo
  deriving DecidableEq, Repr

/-- `LineProgram` -/
structure Prog where
  format : Format
  addrSize : Nat
  enc : Enc
  dirs : List LineStr
  files : List FileEnt
  hasTimestamp : Bool
  hasSize : Bool
  hasMd5 : Bool
  hasSource : Bool
  prevRow : WRow
  row : WRow
  instrs : List WInstr
  inSequence : Bool
  deriving DecidableEq, Repr

/-- `LineProgram::add_directory` -/
def addDirectory (p : Prog) (d : LineStr) : Out (Prog × Nat) :=
  if d.form = .string ∧ p.enc.version ≤ 4 ∧ !p.dirs.isEmpty ∧ d.val.isEmpty then
    .panic "assertion failed: !val.is_empty()"
  else if d.form = .string ∧ d.val.contains 0 then .panic "assertion failed: !val.contains(&0)"
  else match findIdx? (· == d) p.dirs with
    | some i => .ok (p, i)
    | none => .ok ({ p with dirs := p.dirs ++ [d] }, p.dirs.length)

/-- replace the info of entry `i` -/
def setInfo : List FileEnt → Nat → FileInfo → List FileEnt
  | [], _, _ => []
  | f :: fs, 0, info => { f with info := info } :: fs
  | f :: fs, i + 1, info => f :: setInfo fs i info

/-- `LineProgram::add_file`: the id of the entry with the same `(name, directory)` key if there is
one (its info is replaced when `info` is given), otherwise a new entry at the end -/
def addFile (p : Prog) (name : LineStr) (dir : Nat) (info : Option FileInfo) : Out (Prog × Nat) :=
  if name.form = .string ∧ p.enc.version ≤ 4 ∧ name.val.isEmpty then
    .panic "assertion failed: !val.is_empty()"
  else if name.form = .string ∧ name.val.contains 0 then .panic "assertion failed: !val.contains(&0)"
  else match findIdx? (fun f => f.name == name && f.dir == dir) p.files with
    | some i =>
      match info with
      | some info => .ok ({ p with files := setInfo p.files i info }, i)
      | none => .ok (p, i)
    | none =>
      .ok ({ p with files := p.files ++ [{ name, dir, info := info.getD FileInfo.default }] },
           p.files.length)

/-- the two `assert!`s of `LineProgram::new` (as repaired: the sum is taken in `i16`, so it is the
mathematical sum in both build modes) -/
def newCheck (_m : Mode) (lineBase : Int) (lineRange : Nat) : Out Unit :=
  if ¬ lineBase ≤ 0 then .panic "assertion failed: line_encoding.line_base <= 0"
  else if lineBase + (lineRange : Int) > 0 then .ok ()
  else .panic "assertion failed: i16::from(line_encoding.line_base) + i16::from(line_encoding.line_range) > 0"

/-- `LineProgram::new` -/
def Prog.new (m : Mode) (format : Format) (addrSize : Nat) (e : Enc) (workingDir : LineStr)
    (sourceDir : Option LineStr) (sourceFile : LineStr) (sourceInfo : Option FileInfo) : Out Prog := do
  newCheck m e.lineBase e.lineRange
  let p : Prog := { format, addrSize, enc := e, dirs := [], files := [], hasTimestamp := false,
                    hasSize := false, hasMd5 := false, hasSource := false,
                    prevRow := WRow.initial e, row := WRow.initial e, instrs := [],
                    inSequence := false }
  let (p, wd) ← addDirectory p workingDir
  if e.version ≥ 5 then do
    let (p, sd) ← (match sourceDir with
      | some d => addDirectory p d
      | none => pure (p, wd) : Out (Prog × Nat))
    let (p, _) ← addFile p sourceFile sd sourceInfo
    pure p
  else pure p

/-- `LineProgram::begin_sequence` -/
def Prog.beginSequence (p : Prog) (address : Option (Option Nat)) : Out Prog :=
  if p.inSequence then .panic "assertion failed: !self.in_sequence"
  else
    .ok { p with inSequence := true,
                 instrs := p.instrs ++ (match address with | some a => [.setAddress a] | none => []) }

/-- `LineProgram::set_address` (as fixed: offsets of following rows are relative to it) -/
def Prog.setAddress (p : Prog) (address : Option Nat) : Prog :=
  { p with inSequence := true, instrs := p.instrs ++ [.setAddress address],
           prevRow := { p.prevRow with addressOffset := 0, opIndex := 0 } }

/-- `LineProgram::end_sequence` -/
def Prog.endSequence (m : Mode) (p : Prog) (addressOffset : Nat) : Out Prog := do
  let is ← WLine.endSequence m p.enc p.prevRow p.row addressOffset
  pure { p with inSequence := false, instrs := p.instrs ++ is,
                prevRow := WRow.initial p.enc, row := WRow.initial p.enc }

/-- `LineProgram::generate_row` -/
def Prog.generateRow (m : Mode) (p : Prog) : Out Prog := do
  let (is, row) ← WLine.generateRow m p.enc p.prevRow p.row
  pure { p with inSequence := true, instrs := p.instrs ++ is, prevRow := row, row := row }

/-! ## `LineProgram::write` -/

/-- the three sections a line program is written into and refers to -/
structure Tabs where
  lineStrings : StrTab
  strings : StrTab
  deriving DecidableEq, Repr

/-- `LineString::StringRef(strings.add(val))` / `LineStringRef(line_strings.add(val))` /
`LineString::String(val)`: a `LineString` of the given variant, its content added to the table it
refers to -/
def LineStr.make (tabs : Tabs) (form : SForm) (val : Bytes) : Out (Tabs × LineStr) :=
  match form with
  | .string => .ok (tabs, { form, val })
  | .strp => do
    let (t, _) ← tabs.strings.add val
    pure ({ tabs with strings := t }, { form, val })
  | .lineStrp => do
    let (t, _) ← tabs.lineStrings.add val
    pure ({ tabs with lineStrings := t }, { form, val })

/-- `LineString::write` -/
def writeStr (en : Endian) (format : Format) (version : Nat) (m : Mode) (tabs : Tabs) (form : SForm)
    (s : LineStr) : Out Bytes :=
  if form ≠ s.form then .err .wLineStringFormMismatch
  else match s.form with
    | .string =>
      if m = .debug ∧ version ≤ 4 ∧ s.val.isEmpty then .panic "assertion failed: !val.is_empty()"
      else .ok (s.val ++ [0])
    | .strp =>
      if version < 5 then .err .wNeedVersion
      else match findIdx? (· == s.val) tabs.strings with
        | some id => Ints.writeUdata en (tabs.strings.offset id) format.wordSize
        | none => .panic "string id out of range"
    | .lineStrp =>
      if version < 5 then .err .wNeedVersion
      else match findIdx? (· == s.val) tabs.lineStrings with
        | some id => Ints.writeUdata en (tabs.lineStrings.offset id) format.wordSize
        | none => .panic "string id out of range"

/-- the `for dir in …` loops -/
def writeStrs (en : Endian) (format : Format) (version : Nat) (m : Mode) (tabs : Tabs) (form : SForm) :
    List LineStr → Out Bytes
  | [] => .ok []
  | s :: ss => do
    let b ← writeStr en format version m tabs form s
    let bs ← writeStrs en format version m tabs form ss
    pure (b ++ bs)

/-- the file loop for versions 2–4 -/
def writeFilesV4 (en : Endian) (format : Format) (version : Nat) (m : Mode) (tabs : Tabs) :
    List FileEnt → Out Bytes
  | [] => .ok []
  | f :: fs => do
    let b ← writeStr en format version m tabs .string f.name
    let bs ← writeFilesV4 en format version m tabs fs
    pure (b ++ Leb.encodeU f.dir ++ Leb.encodeU f.info.timestamp ++ Leb.encodeU f.info.size ++ bs)

/-- the closure `write_file` of version 5, threaded through the string tables (a missing source
adds the empty string to the table of the source form) -/
def writeFilesV5 (en : Endian) (format : Format) (version : Nat) (m : Mode) (p : Prog)
    (fileForm sourceForm : SForm) : Tabs → List FileEnt → Out (Bytes × Tabs)
  | tabs, [] => .ok ([], tabs)
  | tabs, f :: fs => do
    let name ← writeStr en format version m tabs fileForm f.name
    let ts := if p.hasTimestamp then Leb.encodeU f.info.timestamp else []
    let sz := if p.hasSize then Leb.encodeU f.info.size else []
    let md5 := if p.hasMd5 then f.info.md5 else []
    let (src, tabs) ← (
      if p.hasSource then
        match f.info.source with
        | some s => do
          let b ← writeStr en format version m tabs sourceForm s
          pure (b, tabs)
        | none =>
          match sourceForm with
          | .lineStrp => do
            let (t, _) ← tabs.lineStrings.add []
            let tabs := { tabs with lineStrings := t }
            let b ← writeStr en format version m tabs sourceForm { form := .lineStrp, val := [] }
            pure (b, tabs)
          | .strp => do
            let (t, _) ← tabs.strings.add []
            let tabs := { tabs with strings := t }
            let b ← writeStr en format version m tabs sourceForm { form := .strp, val := [] }
            pure (b, tabs)
          | .string => do
            let b ← writeStr en format version m tabs sourceForm { form := .string, val := [] }
            pure (b, tabs)
      else pure ([], tabs) : Out (Bytes × Tabs))
    let (bs, tabs) ← writeFilesV5 en format version m p fileForm sourceForm tabs fs
    pure (name ++ Leb.encodeU f.dir ++ ts ++ sz ++ md5 ++ src ++ bs, tabs)

/-- first file that has a source: its form -/
def firstSourceForm : List FileEnt → SForm
  | [] => .string
  | f :: fs => match f.info.source with
    | some s => s.form
    | none => firstSourceForm fs

def b2n (b : Bool) : Nat := if b then 1 else 0

/-- `LineProgram::write` into an empty `.debug_line` section: the section bytes and the string
tables afterwards. `unitVersion`/`unitAddrSize` are the `encoding` argument. -/
def Prog.write (en : Endian) (m : Mode) (p : Prog) (unitVersion unitAddrSize : Nat) (tabs : Tabs) :
    Out (Bytes × Tabs) := do
  let version := p.enc.version
  let e := p.enc
  if (unitVersion < 5 ∧ version ≥ 5) ∨ unitAddrSize ≠ p.addrSize then
    .err .wIncompatibleLineProgramEncoding
  else
  if version < 2 ∨ version > 5 then .err .wUnsupportedVersion else
  let pre : Bytes := Ints.toBytes en 2 version ++
    (if version ≥ 5 then [UInt8.ofNat p.addrSize, 0] else [])
  if version < 4 ∧ e.maxOps ≠ 1 then .err .wNeedVersion else
  let fixed : Bytes := [UInt8.ofNat e.minInstLen] ++
    (if version ≥ 4 then [UInt8.ofNat e.maxOps] else []) ++
    [UInt8.ofNat (b2n e.defaultIsStmt), UInt8.ofNat (Leb.ofI64 e.lineBase % 256),
     UInt8.ofNat e.lineRange, UInt8.ofNat opcodeBase] ++ stdLens
  let (tables, tabs) ← (
    if version ≤ 4 then do
      let ds ← writeStrs en p.format version m tabs .string (p.dirs.drop 1)
      let fs ← writeFilesV4 en p.format version m tabs p.files
      pure (ds ++ [0] ++ fs ++ [0], tabs)
    else
      match p.dirs, p.files with
      | [], _ => .panic "called `Option::unwrap()` on a `None` value"
      | d0 :: _, files => do
        let dirForm := d0.form
        let dirHead : Bytes := [1] ++ Leb.encodeU 1 ++ Leb.encodeU dirForm.code ++
          Leb.encodeU p.dirs.length
        let ds ← writeStrs en p.format version m tabs dirForm p.dirs
        match files with
        | [] => .panic "called `Option::unwrap()` on a `None` value"
        | f0 :: _ => do
          let fileForm := f0.name.form
          let sourceForm := firstSourceForm files
          let count := 2 + b2n p.hasTimestamp + b2n p.hasSize + b2n p.hasMd5 + b2n p.hasSource
          let fileHead : Bytes := [UInt8.ofNat count] ++ Leb.encodeU 1 ++ Leb.encodeU fileForm.code ++
            Leb.encodeU 2 ++ Leb.encodeU 0x0f ++
            (if p.hasTimestamp then Leb.encodeU 3 ++ Leb.encodeU 0x0f else []) ++
            (if p.hasSize then Leb.encodeU 4 ++ Leb.encodeU 0x0f else []) ++
            (if p.hasMd5 then Leb.encodeU 5 ++ Leb.encodeU 0x1e else []) ++
            (if p.hasSource then Leb.encodeU 0x2001 ++ Leb.encodeU sourceForm.code else []) ++
            Leb.encodeU files.length
          let (fs, tabs) ← writeFilesV5 en p.format version m p fileForm sourceForm tabs files
          pure (dirHead ++ ds ++ fileHead ++ fs, tabs)
    : Out (Bytes × Tabs))
  let headerBody := fixed ++ tables
  let hl ← Ints.writeUdata en headerBody.length p.format.wordSize
  let prog ← writeInstrs en version p.addrSize p.instrs
  let body := pre ++ hl ++ headerBody ++ prog
  let il ← Ints.writeInitialLength en p.format body.length
  pure (il ++ body, tabs)

end Gimli.WLine
