import Gimli.Spec.Lists
/-!
# Model of `src/read/rnglists.rs`, `src/read/loclists.rs`, `src/read/addr.rs`, the address
helpers of `src/read/reader.rs` (`ReaderAddress for u64`) and the range helpers of
`src/read/dwarf.rs`.

The two Rust modules `rnglists.rs` / `loclists.rs` are the same code up to the entry codes, the
location description carried by location entries, `DW_LLE_default_location` and the GNU
split-DWARF v4 field widths; the Model has one copy parameterised by `Kind`.
`Entry` (from `Spec/Lists.lean`) is `RawRngListEntry<T>` / `RawLocListEntry<R>`
(`AddressOrOffsetPair` = `Entry.pair`; `data: Expression<R>` = the expression's bytes, `[]` for
range lists).

API (also used by the list *writer* property C16):

* `onesSized`, `addSized`, `wrappingAddSized`, `minTombstone` — `ReaderAddress`
* `parseData`, `parseRaw` — `parse_data`, `Raw{Rng,Loc}ListEntry::parse`
* `rawAll` — everything `Raw{Rng,Loc}ListIter::next` returns until `Ok(None)`, as a list of events
* `getAddress` — `DebugAddr::get_address`;  `getOffset` — `{RangeLists,LocationLists}::get_offset`
* `convertRaw`, `cook`, `cookedAll` — `{RngListIter,LocListIter}::{convert_raw,next}`
* `sectionFormat`, `rawAt`, `cookedAt` — `RangeLists::{raw_ranges,ranges}`,
  `LocationLists::{raw_locations,raw_locations_dwo,locations,locations_dwo}`
* `defaultListsBase`, `rangesOffsetFromRaw`, `attrRangesOffset`, `attrLocationsOffset`,
  `unitBases`, `dieRanges` — `src/read/dwarf.rs`

`usize` is 64 bits (`R::Offset::from_u64` never fails). Address sizes 1 … 8 are modelled exactly
(`ones_sized(0)` and sizes above 8 overflow the shift in the Rust code and do not occur: a parsed
unit header only admits 1, 2, 4, 8).
-/
namespace Gimli.Lists
open Gimli Gimli.Ints
export Gimli.Spec.Lists (Kind Fmt Cfg Entry)

/-! ## `ReaderAddress for u64` -/

/-- `u64::ones_sized(size)` = `!0 >> (64 - size * 8)` for `1 ≤ size ≤ 8` -/
def onesSized (size : Nat) : Nat := 2 ^ (8 * size) - 1

/-- `u64::add_sized`: checked add, then the bits above the address size must be clear -/
def addSized (a length size : Nat) : Out Nat :=
  if 2 ^ 64 ≤ a + length then .err .rAddressOverflow
  else if onesSized size < a + length then .err .rAddressOverflow
  else .ok (a + length)

/-- `u64::wrapping_add_sized`: `self.wrapping_add(length) & ones_sized(size)` -/
def wrappingAddSized (a length size : Nat) : Nat := (a + length) % 2 ^ 64 % 2 ^ (8 * size)

/-- `u64::min_tombstone(size)` = `0.wrapping_add_sized(-2i64 as u64, size)` -/
def minTombstone (size : Nat) : Nat := wrappingAddSized 0 (2 ^ 64 - 2) size

/-! ## raw entries -/

/-- `parse_data` of loclists.rs (`leb` = `encoding.version >= 5`); range entries carry no data -/
def parseData (k : Kind) (e : Endian) (leb : Bool) (bs : Bytes) : Out (Bytes × Bytes) :=
  match k with
  | .rng => .ok ([], bs)
  | .loc =>
    if leb then do
      let (len, r) ← Leb.unsigned bs
      take len r
    else do
      let (len, r) ← readFixed e 2 bs
      take len r

/-- the entry kinds behind `constants::DwRle(b)` / `constants::DwLle(b)` -/
inductive Code where
  | endOfList | baseAddressx | startxEndx | startxLength | offsetPair | defaultLocation
  | baseAddress | startEnd | startLength
  deriving DecidableEq, Repr

/-- the `match` on the entry code; `none` = the `entry => Err(Unknown…ListsEntry)` arm -/
def decodeCode : Kind → Nat → Option Code
  | _, 0 => some .endOfList
  | _, 1 => some .baseAddressx
  | _, 2 => some .startxEndx
  | _, 3 => some .startxLength
  | _, 4 => some .offsetPair
  | .rng, 5 => some .baseAddress
  | .rng, 6 => some .startEnd
  | .rng, 7 => some .startLength
  | .loc, 5 => some .defaultLocation
  | .loc, 6 => some .baseAddress
  | .loc, 7 => some .startEnd
  | .loc, 8 => some .startLength
  | _, _ => none

def unknownEntry : Kind → Err
  | .rng => .rUnknownRangeListsEntry
  | .loc => .rUnknownLocListsEntry

/-- `RawRngListEntry::parse` / `RawLocListEntry::parse`. `none` = end of list. -/
def parseRaw (k : Kind) (c : Cfg) (f : Fmt) (bs : Bytes) : Out (Option Entry × Bytes) :=
  match f with
  | .bare => do
    -- RawRange::parse
    let (b, r) ← readAddress c.endian c.addrSize bs
    let (e, r) ← readAddress c.endian c.addrSize r
    if b = 0 ∧ e = 0 then pure (none, r)                       -- is_end
    else if b = onesSized c.addrSize then pure (some (.baseAddress e), r)   -- is_base_address
    else do
      -- `.debug_loc`: 2-byte length + expression
      let (d, r) ← parseData k c.endian false r
      pure (some (.pair b e d), r)
  | .coded =>
    match bs with
    | [] => .err .rUnexpectedEof
    | t :: r =>
      let leb := decide (c.version ≥ 5)
      match decodeCode k t.toNat with
      | none => .err (unknownEntry k)
      | some .endOfList => pure (none, r)
      | some .baseAddressx => do
        let (i, r) ← Leb.unsigned r
        pure (some (.baseAddressx i), r)
      | some .startxEndx => do
        let (b, r) ← Leb.unsigned r
        let (e, r) ← Leb.unsigned r
        let (d, r) ← parseData k c.endian leb r
        pure (some (.startxEndx b e d), r)
      | some .startxLength => do
        let (b, r) ← Leb.unsigned r
        -- GNU split-DWARF v4 location lists: fixed 4-byte length
        let (len, r) ← if k = .loc ∧ ¬ c.version ≥ 5 then readFixed c.endian 4 r else Leb.unsigned r
        let (d, r) ← parseData k c.endian leb r
        pure (some (.startxLength b len d), r)
      | some .offsetPair => do
        let (b, r) ← Leb.unsigned r
        let (e, r) ← Leb.unsigned r
        let (d, r) ← parseData k c.endian leb r
        pure (some (.offsetPair b e d), r)
      | some .defaultLocation => do
        let (d, r) ← parseData k c.endian leb r
        pure (some (.defaultLocation d), r)
      | some .baseAddress => do
        let (a, r) ← readAddress c.endian c.addrSize r
        pure (some (.baseAddress a), r)
      | some .startEnd => do
        let (b, r) ← readAddress c.endian c.addrSize r
        let (e, r) ← readAddress c.endian c.addrSize r
        let (d, r) ← parseData k c.endian leb r
        pure (some (.startEnd b e d), r)
      | some .startLength => do
        let (b, r) ← readAddress c.endian c.addrSize r
        let (len, r) ← Leb.unsigned r
        let (d, r) ← parseData k c.endian leb r
        pure (some (.startLength b len d), r)

/-! ## iterators

Calling `next()` until it returns `Ok(None)` produces a finite sequence of `Ok(Some(item))` and
`Err(e)` results: a list of events. -/

/-- one result of an iterator's `next()` other than the final `Ok(None)` -/
inductive Ev (α : Type) where
  | item (a : α)
  | error (e : Err)
  deriving DecidableEq, Repr

/-- `Raw{Rng,Loc}ListIter::next` repeated. An empty input, the end-of-list entry and a parse
error all empty the input, so `Ok(None)` follows; an error is reported exactly once.
`fuel` bounds the number of `next()` calls (`rawAll`: input length + 1 always suffices,
`Props.C08.raw_terminates`). -/
def rawFuel (k : Kind) (c : Cfg) (f : Fmt) : Nat → Bytes → Out (List (Ev Entry))
  | 0, _ => .diverge
  | n + 1, bs =>
    if bs.isEmpty then .ok []
    else
      match parseRaw k c f bs with
      | .ok (some x, rest) => do
        let evs ← rawFuel k c f n rest
        pure (.item x :: evs)
      | .ok (none, _) => .ok []
      | .err e => .ok [.error e]
      | .panic w => .panic w
      | .diverge => .diverge

/-- all results of a raw iterator positioned at `bs` -/
def rawAll (k : Kind) (c : Cfg) (f : Fmt) (bs : Bytes) : Out (List (Ev Entry)) :=
  rawFuel k c f (bs.length + 1) bs

/-! ## tables -/

/-- `DebugAddr::get_address(address_size, base, index)` on the section bytes `sec` -/
def getAddress (c : Cfg) (sec : Bytes) (base index : Nat) : Out Nat :=
  if sec.length < base then .err .rUnexpectedEof                       -- input.skip(base)
  else
    let r := sec.drop base
    if 2 ^ 64 ≤ index * c.addrSize then .err .rUnsupportedOffset       -- checked_mul
    else if r.length < index * c.addrSize then .err .rUnexpectedEof    -- input.skip(index * size)
    else do
      let (a, _) ← readAddress c.endian c.addrSize (r.drop (index * c.addrSize))
      pure a

/-- `RangeLists::get_offset` / `LocationLists::get_offset(encoding, base, index)` on the bytes of
`.debug_rnglists` / `.debug_loclists` -/
def getOffset (c : Cfg) (sec : Bytes) (base index : Nat) : Out Nat :=
  if sec.length < base then .err .rUnexpectedEof
  else
    let r := sec.drop base
    if 2 ^ 64 ≤ index * c.format.wordSize then .err .rUnsupportedOffset
    else if r.length < index * c.format.wordSize then .err .rUnexpectedEof
    else do
      let (off, _) ← readWord c.endian 64 c.format (r.drop (index * c.format.wordSize))
      if 2 ^ 64 ≤ base + off then .err .rUnsupportedOffset               -- checked_add
      else pure (base + off)

/-! ## resolution -/

/-- a resolved range / location list entry: `Range { begin, end }` and the expression bytes -/
structure Item where
  b : Nat
  e : Nat
  data : Bytes
  deriving DecidableEq, Repr

/-- the common tail of `convert_raw`: skip tombstone entries (`begin >= min_tombstone`), empty and
inverted ranges (`begin >= end`); the base address is unchanged -/
def keepRange (s base b e : Nat) (d : Bytes) : Out (Nat × Option Item) :=
  if minTombstone s ≤ b ∨ e ≤ b then .ok (base, none) else .ok (base, some ⟨b, e, d⟩)

/-- `RngListIter::convert_raw` / `LocListIter::convert_raw`. The iterator state is the running
base address: returns the new base address and `Some(range)` / `None`. On `Err` the state is
unchanged (the Rust code assigns `self.base_address` only after a successful lookup). -/
def convertRaw (c : Cfg) (addr : Bytes) (addrBase : Nat) (base : Nat) (raw : Entry) :
    Out (Nat × Option Item) :=
  match raw with
  | .baseAddress a => .ok (a, none)
  | .baseAddressx i => do
    let a ← getAddress c addr addrBase i
    pure (a, none)
  | .startxEndx b e d => do
    let b ← getAddress c addr addrBase b
    let e ← getAddress c addr addrBase e
    keepRange c.addrSize base b e d
  | .startxLength b len d => do
    let b ← getAddress c addr addrBase b
    keepRange c.addrSize base b (wrappingAddSized b len c.addrSize) d
  | .defaultLocation d => keepRange c.addrSize base 0 (2 ^ 64 - 1) d
  | .pair b e d =>
    -- skip entries relative to a tombstone base address, else `add_base_address`
    if minTombstone c.addrSize ≤ base then .ok (base, none)
    else keepRange c.addrSize base (wrappingAddSized base b c.addrSize)
      (wrappingAddSized base e c.addrSize) d
  | .offsetPair b e d =>
    if minTombstone c.addrSize ≤ base then .ok (base, none)
    else keepRange c.addrSize base (wrappingAddSized base b c.addrSize)
      (wrappingAddSized base e c.addrSize) d
  | .startEnd b e d => keepRange c.addrSize base b e d
  | .startLength b len d => keepRange c.addrSize base b (wrappingAddSized b len c.addrSize) d

/-- `{Rng,Loc}ListIter::next` repeated, over the events of the underlying raw iterator: a raw
error is passed on (the raw iterator then ends); a conversion error is returned and the iteration
goes on with the next raw entry and the unchanged base address. -/
def cook (c : Cfg) (addr : Bytes) (addrBase : Nat) : Nat → List (Ev Entry) → Out (List (Ev Item))
  | _, [] => .ok []
  | base, .error e :: rest => do
    let evs ← cook c addr addrBase base rest
    pure (.error e :: evs)
  | base, .item x :: rest =>
    match convertRaw c addr addrBase base x with
    | .ok (base', some it) => do
      let evs ← cook c addr addrBase base' rest
      pure (.item it :: evs)
    | .ok (base', none) => cook c addr addrBase base' rest
    | .err e => do
      let evs ← cook c addr addrBase base rest
      pure (.error e :: evs)
    | .panic w => .panic w
    | .diverge => .diverge

/-- all results of a cooked iterator positioned at `bs` with initial base address `base` -/
def cookedAll (k : Kind) (c : Cfg) (f : Fmt) (addr : Bytes) (addrBase base : Nat) (bs : Bytes) :
    Out (List (Ev Item)) := do
  let raw ← rawAll k c f bs
  cook c addr addrBase base raw

/-! ## section and format selection -/

/-- which section and format a list offset refers to: `true` = the DWARF ≤ 4 section
(`.debug_ranges` / `.debug_loc`). `RangeLists::raw_ranges`, `LocationLists::raw_locations`
(`dwo = false`) and `LocationLists::raw_locations_dwo` (`dwo = true`: GNU split DWARF keeps
`DW_LLE_*` coded lists in `.debug_loc.dwo`). For range lists `dwo` is irrelevant. -/
def sectionFormat (k : Kind) (version : Nat) (dwo : Bool) : Bool × Fmt :=
  if version ≤ 4 then
    (true, if k = .loc ∧ dwo then .coded else .bare)
  else (false, .coded)

/-- `raw_ranges` / `raw_locations[_dwo]` at `offset`, drained -/
def rawAt (k : Kind) (c : Cfg) (dwo : Bool) (legacy v5 : Bytes) (offset : Nat) :
    Out (List (Ev Entry)) :=
  let (useLegacy, f) := sectionFormat k c.version dwo
  let sec := if useLegacy then legacy else v5
  if sec.length < offset then .err .rUnexpectedEof      -- input.skip(offset.0)
  else rawAll k c f (sec.drop offset)

/-- `ranges` / `locations[_dwo]` at `offset`, drained -/
def cookedAt (k : Kind) (c : Cfg) (dwo : Bool) (legacy v5 : Bytes) (offset base : Nat)
    (addr : Bytes) (addrBase : Nat) : Out (List (Ev Item)) :=
  let (useLegacy, f) := sectionFormat k c.version dwo
  let sec := if useLegacy then legacy else v5
  if sec.length < offset then .err .rUnexpectedEof
  else cookedAll k c f addr addrBase base (sec.drop offset)

/-! ## `src/read/dwarf.rs`: unit bases and the attribute-level helpers

A DIE is seen through `Attribute::value()` (the normalisation of forms is property C03's
subject): the Model takes the list of `(name, normalised value)` pairs in DIE order. -/

/-- the attribute names the helpers look at -/
inductive AttrName where
  | lowPc | highPc | ranges | location
  | addrBase      -- `DW_AT_addr_base` and `DW_AT_GNU_addr_base`
  | rnglistsBase  -- `DW_AT_rnglists_base` and `DW_AT_GNU_ranges_base`
  | loclistsBase
  | other
  deriving DecidableEq, Repr

/-- the normalised attribute values the helpers distinguish -/
inductive AttrVal where
  /-- `AttributeValue::Addr` -/
  | addr (a : Nat)
  /-- `AttributeValue::DebugAddrIndex` -/
  | addrx (i : Nat)
  /-- `AttributeValue::Udata` (constant-class `DW_AT_high_pc`) -/
  | udata (v : Nat)
  /-- a section offset: `RangeListsRef` / `LocationListsRef` / `DebugAddrBase` /
  `DebugRngListsBase` / `DebugLocListsBase`, depending on the attribute name -/
  | secOffset (o : Nat)
  /-- `AttributeValue::DebugRngListsIndex` / `DebugLocListsIndex` -/
  | listx (i : Nat)
  /-- any other value -/
  | other
  deriving DecidableEq, Repr

abbrev Attrs := List (AttrName × AttrVal)

/-- the sections the helpers read -/
structure Sections where
  debugAddr : Bytes
  debugRanges : Bytes
  debugRnglists : Bytes
  debugLoc : Bytes
  debugLoclists : Bytes

/-- the fields of `Unit` (+ `Dwarf::file_type`) the helpers use -/
structure UnitCtx where
  cfg : Cfg
  /-- `dwarf.file_type == DwarfFileType::Dwo` -/
  dwo : Bool
  lowPc : Nat
  addrBase : Nat
  rnglistsBase : Nat
  loclistsBase : Nat
  deriving Repr

/-- `DebugRngListsBase::default_for_encoding_and_file` = `DebugLocListsBase::…`: in a DWARF 5
`.dwo` file the base attribute is omitted and the lists follow the first table header -/
def defaultListsBase (c : Cfg) (dwo : Bool) : Nat :=
  if c.version ≥ 5 ∧ dwo then
    match c.format with
    | .dwarf32 => 12   -- initial_length_size 4 + 2 + 1 + 1 + 4
    | .dwarf64 => 20   -- initial_length_size 12 + …
  else 0

/-- `Dwarf::attr_address` -/
def attrAddress (u : UnitCtx) (secs : Sections) : AttrVal → Out (Option Nat)
  | .addr a => .ok (some a)
  | .addrx i => do
    let a ← getAddress u.cfg secs.debugAddr u.addrBase i
    pure (some a)
  | _ => .ok none

/-- one iteration of the attribute loop of `Unit::new_with_abbreviations` over the root DIE, as far
as these helpers are concerned: a base attribute counts only as a section offset and overrides what
was there; the `DW_AT_low_pc` value is remembered -/
def basesStep (st : UnitCtx × Option AttrVal) (a : AttrName × AttrVal) : UnitCtx × Option AttrVal :=
  match a with
  | (.lowPc, v) => (st.1, some v)
  | (.addrBase, .secOffset o) => ({ st.1 with addrBase := o }, st.2)
  | (.rnglistsBase, .secOffset o) => ({ st.1 with rnglistsBase := o }, st.2)
  | (.loclistsBase, .secOffset o) => ({ st.1 with loclistsBase := o }, st.2)
  | _ => st

/-- the unit before its root DIE is looked at: `low_pc = 0`, `addr_base = 0`, default list bases -/
def initialUnit (c : Cfg) (dwo : Bool) : UnitCtx :=
  { cfg := c, dwo := dwo, lowPc := 0, addrBase := 0,
    rnglistsBase := defaultListsBase c dwo, loclistsBase := defaultListsBase c dwo }

/-- `Unit::new_with_abbreviations`, the part these helpers depend on: later attributes override
earlier ones, `DW_AT_low_pc` is resolved last (with the final `addr_base`; an indexed address that
cannot be looked up fails the construction of the unit). -/
def unitBases (c : Cfg) (dwo : Bool) (secs : Sections) (root : Attrs) : Out UnitCtx :=
  let (u, low) := root.foldl basesStep (initialUnit c dwo, none)
  match low with
  | none => .ok u
  | some v => do
    match ← attrAddress u secs v with
    | some a => pure { u with lowPc := a }
    | none => pure u

/-- `Unit::copy_relocated_attributes`: a split unit takes the relocated attributes of its skeleton
unit — `low_pc`, `addr_base` and, before DWARF 5 (GNU split DWARF), the ranges base -/
def copyRelocated (self other : UnitCtx) : UnitCtx :=
  { self with
    lowPc := other.lowPc
    addrBase := other.addrBase
    rnglistsBase := if self.cfg.version < 5 then other.rnglistsBase else self.rnglistsBase }

/-- `Dwarf::ranges_offset_from_raw`: GNU split DWARF v4 offsets are relative to
`DW_AT_GNU_ranges_base` (`usize::wrapping_add`) -/
def rangesOffsetFromRaw (u : UnitCtx) (off : Nat) : Nat :=
  if u.dwo ∧ u.cfg.version < 5 then (off + u.rnglistsBase) % 2 ^ 64 else off

/-- `Dwarf::attr_ranges_offset` -/
def attrRangesOffset (u : UnitCtx) (secs : Sections) : AttrVal → Out (Option Nat)
  | .secOffset o => .ok (some (rangesOffsetFromRaw u o))
  | .listx i => do
    let o ← getOffset u.cfg secs.debugRnglists u.rnglistsBase i
    pure (some o)
  | _ => .ok none

/-- `Dwarf::attr_locations_offset` -/
def attrLocationsOffset (u : UnitCtx) (secs : Sections) : AttrVal → Out (Option Nat)
  | .secOffset o => .ok (some o)
  | .listx i => do
    let o ← getOffset u.cfg secs.debugLoclists u.loclistsBase i
    pure (some o)
  | _ => .ok none

/-- `Dwarf::ranges(unit, offset)` drained: base address `unit.low_pc`, `.debug_addr` at
`unit.addr_base` -/
def unitRangesAt (u : UnitCtx) (secs : Sections) (offset : Nat) : Out (List (Ev Item)) :=
  cookedAt .rng u.cfg false secs.debugRanges secs.debugRnglists offset u.lowPc secs.debugAddr u.addrBase

/-- `Dwarf::locations(unit, offset)` drained: `locations_dwo` in a `.dwo` file -/
def unitLocationsAt (u : UnitCtx) (secs : Sections) (offset : Nat) : Out (List (Ev Item)) :=
  cookedAt .loc u.cfg u.dwo secs.debugLoc secs.debugLoclists offset u.lowPc secs.debugAddr u.addrBase

/-- `Dwarf::attr_locations` drained; `none` = the attribute is not a location list -/
def attrLocations (u : UnitCtx) (secs : Sections) (v : AttrVal) : Out (Option (List (Ev Item))) := do
  match ← attrLocationsOffset u secs v with
  | some o => do
    let evs ← unitLocationsAt u secs o
    pure (some evs)
  | none => pure none

/-- what `RangeIter` holds: `RangeIterInner::{Single, List}` (the list already drained) -/
inductive RangesResult where
  | single (r : Option (Nat × Nat))
  | list (evs : List (Ev Item))
  deriving DecidableEq, Repr

/-- loop state of `Dwarf::die_ranges` -/
structure DieAcc where
  lowPc : Option Nat := none
  highPc : Option Nat := none
  size : Option Nat := none

/-- the `for attr in entry.attrs()` loop of `Dwarf::die_ranges`: the first usable `DW_AT_ranges`
ends it with the list, an unusable address form or a failing lookup ends it with an error -/
def dieRangesLoop (u : UnitCtx) (secs : Sections) : Attrs → DieAcc → Out (DieAcc ⊕ List (Ev Item))
  | [], acc => .ok (.inl acc)
  | (.lowPc, v) :: rest, acc => do
    match ← attrAddress u secs v with
    | some a => dieRangesLoop u secs rest { acc with lowPc := some a }
    | none => .err .rUnsupportedAttributeForm
  | (.highPc, .udata val) :: rest, acc => dieRangesLoop u secs rest { acc with size := some val }
  | (.highPc, v) :: rest, acc => do
    match ← attrAddress u secs v with
    | some a => dieRangesLoop u secs rest { acc with highPc := some a }
    | none => .err .rUnsupportedAttributeForm
  | (.ranges, v) :: rest, acc => do
    match ← attrRangesOffset u secs v with
    | some o => do
      let evs ← unitRangesAt u secs o
      pure (.inr evs)
    | none => dieRangesLoop u secs rest acc
  | _ :: rest, acc => dieRangesLoop u secs rest acc

/-- the filter of `die_ranges` on its single range: `range.filter(|r| r.begin < min_tombstone &&
r.begin < r.end)` — tombstone, empty and inverted ranges are skipped as in `convert_raw` -/
def keepSingle (s : Nat) : Option (Nat × Nat) → Option (Nat × Nat)
  | some (b, e) => if b < minTombstone s ∧ b < e then some (b, e) else none
  | none => none

/-- `Dwarf::die_ranges` (and `Dwarf::unit_ranges` on the root DIE's attributes). The single
`low_pc..high_pc` range is computed (checked add for a constant `DW_AT_high_pc`: the overflow error
comes first) and then filtered like a range-list entry. -/
def dieRangesCore (u : UnitCtx) (secs : Sections) (attrs : Attrs) : Out RangesResult := do
  match ← dieRangesLoop u secs attrs {} with
  | .inr evs => pure (.list evs)
  | .inl acc =>
    match acc.lowPc with
    | none => pure (.single none)
    | some b =>
      match acc.size with
      | some sz =>
        if 2 ^ 64 ≤ b + sz then .err .rAddressOverflow      -- checked_add
        else pure (.single (keepSingle u.cfg.addrSize (some (b, b + sz))))
      | none => pure (.single (keepSingle u.cfg.addrSize (acc.highPc.map fun e => (b, e))))

/-- everything `RangeIter::next` returns until `Ok(None)` -/
def RangesResult.events : RangesResult → List (Ev Item)
  | .single none => []
  | .single (some (b, e)) => [.item ⟨b, e, []⟩]
  | .list evs => evs

def dieRanges (u : UnitCtx) (secs : Sections) (attrs : Attrs) : Out (List (Ev Item)) := do
  let r ← dieRangesCore u secs attrs
  pure r.events

end Gimli.Lists
