import Gimli.Model.WOp
/-!
# Model of `write::Expression::from` (`src/write/op.rs`, `mod convert`)

Input side: C07's decoder (`Op.iterAll` = `OperationIter` driven to the end, each operation with
the offset at which it ends). Output side: the writer's `WOp.Operation` (C15).

`Expression::from` makes two passes over the same `OperationIter`:

1. `offsets`: the start offset of every operation, then `offsets.push(len)`;
2. one `match` arm per `read::Operation`, with `from_operations.offset_from(&from_expression)`
   (= the end offset of the operation just decoded) as the base of branch targets.

Both passes decode the same bytes with the same pure decoder, so the Model decodes once
(`Op.iterAll`) and uses the list twice; the offsets vector is built exactly as the code does
(`[0, end₀, …, endₙ₋₂] ++ [len]`, not assuming `endₙ₋₁ = len`). A decode error in the first pass is
`ConvertError::Read`.  `offsets.binary_search(&offset)` is modelled as "index of `offset` in
`offsets`": the vector is strictly increasing (`Props.C12.input_offsets_increasing`), so the index
is unique and that is what any binary search returns.

The environment of the conversion is abstract: `unitRef` (`convert_unit_ref`: input unit offset →
writer entry id), `infoRef` (`convert_debug_info_ref`), `convAddr` (`convert_address`) and
`addrIndex` (`unit.address(index)` through `.debug_addr`; `none` = no unit given).
`DW_OP_entry_value` recurses into the sub-expression (`from_nested(…, depth + 1)`), at most
`MAX_ENTRY_VALUE_DEPTH` = 64 levels deep: at depth 64 the arm returns `UnsupportedOperation`
*before* converting the nested expression (the `fix:` for finding C12-E1). The Model recurses
structurally on the number of levels still allowed, `left = 64 - depth`.
-/
namespace Gimli.ConvOp
open Gimli.Op (Encoding)

/-- `gimli::write::ConvertError` as far as `Expression::from` can produce it -/
inductive CErr where
  | read (e : Err)
  | invalidUnitRef
  | invalidDebugInfoRef
  | invalidAddress
  | unsupportedOperation
  | invalidBranchTarget
  deriving DecidableEq, Repr, Inhabited

def CErr.name : CErr → String
  | .read e => e.name
  | .invalidUnitRef => "InvalidUnitRef"
  | .invalidDebugInfoRef => "InvalidDebugInfoRef"
  | .invalidAddress => "InvalidAddress"
  | .unsupportedOperation => "UnsupportedOperation"
  | .invalidBranchTarget => "InvalidBranchTarget"

abbrev CR := Except CErr

/-- what `Expression::from` is given besides the bytes -/
structure Env where
  /-- `refs.convert_unit_ref(offset)`: the writer's entry id for the DIE at this unit offset -/
  unitRef : Nat → CR Nat
  /-- `refs.convert_debug_info_ref(offset)` -/
  infoRef : Nat → CR WOp.DRef
  /-- `convert_address(address)` -/
  convAddr : Nat → Option WOp.Addr
  /-- `unit.address(index)`; `none`: `unit` is `None` -/
  addrIndex : Option (Nat → CR Nat)

/-- the first pass: start offsets of the decoded operations, then the length -/
def inputOffsets (ops : List (Op.Operation × Nat)) (len : Nat) : List Nat :=
  (0 :: ops.map (·.2)).dropLast ++ [len]

/-- `offset_from(..).wrapping_add(i64::from(target) as usize)` then `offsets.binary_search(..)` -/
def branchIndex (offsets : List Nat) (endOff : Nat) (target : Int) : CR Nat :=
  let off := (endOff + (target % 2 ^ 64).toNat) % 2 ^ 64
  match offsets.findIdx? (· == off) with
  | some i => .ok i
  | none => .error .invalidBranchTarget

/-- one arm of the `match from_operation`; `endOff` is the offset after the operation, `sub`
converts a nested expression -/
def convertOp (env : Env) (enc : Encoding) (offsets : List Nat) (endOff : Nat)
    (sub : Bytes → CR (List WOp.Operation)) : Op.Operation → CR WOp.Operation
  | .deref baseType size space =>
    if baseType ≠ 0 then do
      let base ← env.unitRef baseType
      pure (.derefType space size base)
    else if size ≠ enc.addressSize then pure (.derefSize space size)
    else pure (.deref space)
  | .drop => pure (.simple 0x13)
  | .pick index => pure (.pick index)
  | .swap => pure (.simple 0x16)
  | .rot => pure (.simple 0x17)
  | .abs => pure (.simple 0x19)
  | .and => pure (.simple 0x1a)
  | .div => pure (.simple 0x1b)
  | .minus => pure (.simple 0x1c)
  | .mod => pure (.simple 0x1d)
  | .mul => pure (.simple 0x1e)
  | .neg => pure (.simple 0x1f)
  | .not => pure (.simple 0x20)
  | .or => pure (.simple 0x21)
  | .plus => pure (.simple 0x22)
  | .plusConstant value => pure (.plusConstant value)
  | .shl => pure (.simple 0x24)
  | .shr => pure (.simple 0x25)
  | .shra => pure (.simple 0x26)
  | .xor => pure (.simple 0x27)
  | .eq => pure (.simple 0x29)
  | .ge => pure (.simple 0x2a)
  | .gt => pure (.simple 0x2b)
  | .le => pure (.simple 0x2c)
  | .lt => pure (.simple 0x2d)
  | .ne => pure (.simple 0x2e)
  | .bra target => do
    let index ← branchIndex offsets endOff target
    pure (.branch index)
  | .skip target => do
    let index ← branchIndex offsets endOff target
    pure (.skip index)
  | .unsignedConstant value => pure (.unsignedConstant value)
  | .signedConstant value => pure (.signedConstant value)
  | .register register => pure (.register register)
  | .registerOffset register offset baseType =>
    if baseType ≠ 0 then do
      let base ← env.unitRef baseType
      pure (.registerType register base)
    else pure (.registerOffset register offset)
  | .frameOffset offset => pure (.frameOffset offset)
  | .nop => pure (.simple 0x96)
  | .pushObjectAddress => pure (.simple 0x97)
  | .call (.unitRef offset) => do
    let entry ← env.unitRef offset
    pure (.call entry)
  | .call (.debugInfoRef offset) => do
    let r ← env.infoRef offset
    pure (.callRef r)
  | .variableValue offset => do
    let r ← env.infoRef offset
    pure (.variableValue r)
  | .tls => pure (.simple 0x9b)
  | .callFrameCFA => pure (.simple 0x9c)
  | .piece sizeInBits none => pure (.piece (sizeInBits / 8))
  | .piece sizeInBits (some bitOffset) => pure (.bitPiece sizeInBits bitOffset)
  | .implicitValue data => pure (.implicitValue data)
  | .stackValue => pure (.simple 0x9f)
  | .implicitPointer value byteOffset => do
    let r ← env.infoRef value
    pure (.implicitPointer r byteOffset)
  | .entryValue expression => do
    let e ← sub expression
    pure (.entryValue e)
  | .parameterRef offset => do
    let entry ← env.unitRef offset
    pure (.parameterRef entry)
  | .address address =>
    match env.convAddr address with
    | some a => pure (.address a)
    | none => .error .invalidAddress
  | .addressIndex index =>
    match env.addrIndex with
    | none => .error .unsupportedOperation
    | some f => do
      let val ← f index
      match env.convAddr val with
      | some a => pure (.address a)
      | none => .error .invalidAddress
  | .constantIndex index =>
    match env.addrIndex with
    | none => .error .unsupportedOperation
    | some f => do
      let val ← f index
      pure (.unsignedConstant val)
  | .typedLiteral baseType value => do
    let entry ← env.unitRef baseType
    pure (.constantType entry value)
  | .convert baseType =>
    if baseType = 0 then pure (.convert none)
    else do
      let entry ← env.unitRef baseType
      pure (.convert (some entry))
  | .reinterpret baseType =>
    if baseType = 0 then pure (.reinterpret none)
    else do
      let entry ← env.unitRef baseType
      pure (.reinterpret (some entry))
  | .uninitialized => pure (.simple 0xf0)
  | .wasmLocal index => pure (.wasmLocal index)
  | .wasmGlobal index => pure (.wasmGlobal index)
  | .wasmStack index => pure (.wasmStack index)

/-- the second pass over the decoded operations -/
def convertList (env : Env) (enc : Encoding) (offsets : List Nat) (sub : Bytes → CR (List WOp.Operation)) :
    List (Op.Operation × Nat) → CR (List WOp.Operation)
  | [] => .ok []
  | (op, endOff) :: rest => do
    let w ← convertOp env enc offsets endOff sub op
    let ws ← convertList env enc offsets sub rest
    pure (w :: ws)

/-- `MAX_ENTRY_VALUE_DEPTH` -/
def maxEntryValueDepth : Nat := 64

/-- what the `EntryValue` arm does with the nested expression when `left` more levels are allowed:
`if depth >= MAX_ENTRY_VALUE_DEPTH { return Err(UnsupportedOperation) }` -/
def refuseNested : Bytes → CR (List WOp.Operation) := fun _ => .error .unsupportedOperation

/-- `Expression::from_nested(…, depth)` with `left = MAX_ENTRY_VALUE_DEPTH - depth` -/
def convertNested (env : Env) (e : Endian) (enc : Encoding) : Nat → Bytes → CR (List WOp.Operation)
  | 0, bs =>
    match Op.iterAll e enc bs.length (bs.length + 1) bs with
    | (_, some er) => .error (.read er)
    | (ops, none) => convertList env enc (inputOffsets ops bs.length) refuseNested ops
  | left + 1, bs =>
    match Op.iterAll e enc bs.length (bs.length + 1) bs with
    | (_, some er) => .error (.read er)
    | (ops, none) =>
      convertList env enc (inputOffsets ops bs.length) (fun sub => convertNested env e enc left sub) ops

/-- the `sub` the operations of a level with `left` more levels allowed are converted with -/
def subAt (env : Env) (e : Endian) (enc : Encoding) : Nat → Bytes → CR (List WOp.Operation)
  | 0 => refuseNested
  | left + 1 => convertNested env e enc left

/-- `Expression::from(expression, encoding, unit, convert_address, refs)` = `from_nested(…, 0)` -/
def convert (env : Env) (e : Endian) (enc : Encoding) (bs : Bytes) : CR (List WOp.Operation) :=
  convertNested env e enc maxEntryValueDepth bs

end Gimli.ConvOp
