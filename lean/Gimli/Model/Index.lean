import Gimli.Model.Ints
/-!
# Model of `src/read/index.rs` (`.debug_cu_index` / `.debug_tu_index`), of
`Section::dwp_range` (`src/read/mod.rs`) and of the slicing part of
`DwarfPackage::sections` (`src/read/dwarf.rs`).

A reader is the list of bytes that remain.  `usize` is 64 bits, so `R::Offset::from_u64` never
fails; every product below stays under 2^64 (`slot_count < 2^32`, `section_count ≤ 8` at the
point of the multiplication), so there is no overflow mode in this file.
-/
namespace Gimli.Index
open Gimli Gimli.Ints

/-- `IndexSectionId` -/
inductive SecKind where
  | abbrev | info | line | loc | loclists | macinfo | macro | rnglists | strOffsets | types
  deriving DecidableEq, Repr, Inhabited

/-- canonical text (the Rust variant name) -/
def SecKind.name : SecKind → String
  | .abbrev => "DebugAbbrev"
  | .info => "DebugInfo"
  | .line => "DebugLine"
  | .loc => "DebugLoc"
  | .loclists => "DebugLocLists"
  | .macinfo => "DebugMacinfo"
  | .macro => "DebugMacro"
  | .rnglists => "DebugRngLists"
  | .strOffsets => "DebugStrOffsets"
  | .types => "DebugTypes"

/-- the `match constants::DwSectV2(section)` arm table of `UnitIndex::parse` -/
def kindV2 (n : Nat) : Out SecKind :=
  if n = 1 then .ok .info
  else if n = 2 then .ok .types
  else if n = 3 then .ok .abbrev
  else if n = 4 then .ok .line
  else if n = 5 then .ok .loc
  else if n = 6 then .ok .strOffsets
  else if n = 7 then .ok .macinfo
  else if n = 8 then .ok .macro
  else .err .rUnknownIndexSectionV2

/-- the `match constants::DwSect(section)` arm table of `UnitIndex::parse` -/
def kindV5 (n : Nat) : Out SecKind :=
  if n = 1 then .ok .info
  else if n = 3 then .ok .abbrev
  else if n = 4 then .ok .line
  else if n = 5 then .ok .loclists
  else if n = 6 then .ok .strOffsets
  else if n = 7 then .ok .macro
  else if n = 8 then .ok .rnglists
  else .err .rUnknownIndexSection

/-- `UnitIndex<R>`; `sections` holds only the valid prefix (`section_count` entries) of the
fixed array of 8 -/
structure UnitIndex where
  version : Nat
  sectionCount : Nat
  unitCount : Nat
  slotCount : Nat
  hashIds : Bytes
  hashRows : Bytes
  sections : List SecKind
  offsets : Bytes
  sizes : Bytes
  deriving Repr, DecidableEq

/-- `if version == 2 { match DwSectV2 … } else { match DwSect … }` -/
def kindOf (version n : Nat) : Out SecKind := if version = 2 then kindV2 n else kindV5 n

/-- the `for i in 0..section_count` loop reading the column kinds -/
def readKinds (e : Endian) (version : Nat) : Nat → Bytes → Out (List SecKind × Bytes)
  | 0, bs => .ok ([], bs)
  | n + 1, bs => do
    let (s, bs) ← readFixed e 4 bs
    let k ← kindOf version s
    let (ks, bs) ← readKinds e version n bs
    pure (k :: ks, bs)

/-- the version test at the start of `UnitIndex::parse`: GNU v2 has a 32-bit version, DWARF 5 a
16-bit version followed by 16 bits of padding (re-read from `original_input`) -/
def parseVersion (e : Endian) (input : Bytes) : Out (Nat × Bytes) := do
  let (v32, rest) ← readFixed e 4 input
  if v32 = 2 then pure (2, rest)
  else do
    let (v16, _) ← readFixed e 2 input
    if v16 ≠ 5 then .err .rUnknownVersion else pure (v16, rest)

/-- `UnitIndex::parse` -/
def parse (e : Endian) (input : Bytes) : Out UnitIndex :=
  if input.isEmpty then
    .ok { version := 0, sectionCount := 0, unitCount := 0, slotCount := 0, hashIds := [],
          hashRows := [], sections := [], offsets := [], sizes := [] }
  else do
    let (version, rest) ← parseVersion e input
    let (sectionCount, rest) ← readFixed e 4 rest
    let (unitCount, rest) ← readFixed e 4 rest
    let (slotCount, rest) ← readFixed e 4 rest
    if slotCount ≠ 0 ∧ (slotCount &&& (slotCount - 1) ≠ 0 ∨ slotCount ≤ unitCount) then
      .err .rInvalidIndexSlotCount
    else do
    let (hashIds, rest) ← take (slotCount * 8) rest
    let (hashRows, rest) ← take (slotCount * 4) rest
    if sectionCount > 8 then .err .rUnsupportedIndexSectionCount else do
    let (sections, rest) ← readKinds e version sectionCount rest
    let (offsets, rest) ← take (unitCount * sectionCount * 4) rest
    let (sizes, _) ← take (unitCount * sectionCount * 4) rest
    pure { version, sectionCount, unitCount, slotCount, hashIds, hashRows, sections, offsets, sizes }

/-- `r.clone(); r.skip(off).ok()?; r.read_uN().ok()?` -/
def readAt (e : Endian) (n : Nat) (bs : Bytes) (off : Nat) : Option Nat :=
  if off ≤ bs.length then
    match readFixed e n (bs.drop off) with
    | .ok (v, _) => some v
    | _ => none
  else none

/-- the `for _ in 0..slot_count` loop of `UnitIndex::find`; `fuel` = iterations left.
Returns the result and the number of slots probed (reads of `hash_ids`). -/
def findLoop (e : Endian) (ix : UnitIndex) (id mask hash2 : Nat) : Nat → Nat → Option Nat × Nat
  | 0, _ => (none, 0)
  | fuel + 1, hash1 =>
    match readAt e 8 ix.hashIds (hash1 * 8) with
    | none => (none, 1)
    | some hashId =>
      if hashId = id then (readAt e 4 ix.hashRows (hash1 * 4), 1)
      else if hashId = 0 then (none, 1)
      else
        let r := findLoop e ix id mask hash2 fuel ((hash1 + hash2) &&& mask)
        (r.1, r.2 + 1)

/-- `UnitIndex::find` with the probe count -/
def findN (e : Endian) (ix : UnitIndex) (id : Nat) : Option Nat × Nat :=
  -- "An ID of 0 marks an unused slot, so it is never present."
  if ix.slotCount = 0 ∨ id = 0 then (none, 0)
  else
    let mask := ix.slotCount - 1
    let hash1 := id &&& mask
    let hash2 := ((id >>> 32) &&& mask) ||| 1
    findLoop e ix id mask hash2 ix.slotCount hash1

/-- `UnitIndex::find` -/
def find (e : Endian) (ix : UnitIndex) (id : Nat) : Option Nat := (findN e ix id).1

/-- `UnitIndexSectionIterator` run to the end: zips the kinds with successive `u32`s of the two
readers, stopping at the first failed read (`.ok()?`) -/
def sectionIter (e : Endian) : List SecKind → Bytes → Bytes → List (SecKind × Nat × Nat)
  | [], _, _ => []
  | k :: ks, offs, szs =>
    match readFixed e 4 offs with
    | .ok (o, offs') =>
      match readFixed e 4 szs with
      | .ok (s, szs') => (k, o, s) :: sectionIter e ks offs' szs'
      | _ => []
    | _ => []

/-- `UnitIndex::sections(row)` followed by draining the iterator -/
def sections (e : Endian) (ix : UnitIndex) (row : Nat) : Out (List (SecKind × Nat × Nat)) :=
  if row = 0 ∨ row > ix.unitCount then .err .rInvalidIndexRow
  else
    let rowOffset := (row - 1) * ix.sectionCount * 4
    if rowOffset > ix.offsets.length then .err .rUnexpectedEof
    else if rowOffset > ix.sizes.length then .err .rUnexpectedEof
    else .ok (sectionIter e ix.sections (ix.offsets.drop rowOffset) (ix.sizes.drop rowOffset))

/-- `Section::dwp_range`: `skip(offset)` then `truncate(size)` -/
def dwpRange (data : Bytes) (offset size : Nat) : Out Bytes :=
  if offset > data.length then .err .rUnexpectedEof
  else
    let d := data.drop offset
    if size > d.length then .err .rUnexpectedEof else .ok (d.take size)

/-- the `for section in sections { match … }` accumulation of `DwarfPackage::sections`:
the last column of a kind wins, a kind without column keeps `(0, 0)` -/
def contribution (cols : List (SecKind × Nat × Nat)) (k : SecKind) : Nat × Nat :=
  cols.foldl (fun acc c => if c.1 = k then c.2 else acc) (0, 0)

/-- order in which `DwarfPackage::sections` slices (the first failing `dwp_range` is the error) -/
def sliceOrder : List SecKind :=
  [.abbrev, .info, .line, .loc, .loclists, .macinfo, .macro, .strOffsets, .rnglists, .types]

/-- the ten `dwp_range` calls of `DwarfPackage::sections`; `pkg k` is the package's section of
kind `k` -/
def packageSlices (pkg : SecKind → Bytes) (cols : List (SecKind × Nat × Nat)) :
    List SecKind → Out (List (SecKind × Bytes))
  | [] => .ok []
  | k :: ks => do
    let c := contribution cols k
    let s ← dwpRange (pkg k) c.1 c.2
    let rest ← packageSlices pkg cols ks
    pure ((k, s) :: rest)

/-- `DwarfPackage::find_cu` / `find_tu` up to the slicing: `find`, then `sections(row)`, then the
ten `dwp_range` calls; `Ok(None)` when the id is not in the index -/
def findUnit (e : Endian) (ix : UnitIndex) (pkg : SecKind → Bytes) (id : Nat) :
    Out (Option (Nat × List (SecKind × Bytes))) :=
  match find e ix id with
  | none => .ok none
  | some row => do
    let cols ← sections e ix row
    let slices ← packageSlices pkg cols sliceOrder
    pure (some (row, slices))

end Gimli.Index
