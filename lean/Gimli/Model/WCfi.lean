import Gimli.Model.Cfi
/-!
# Model of the call-frame writer (`src/write/cfi.rs`, `Writer::write_eh_pointer(_data)` of
`src/write/writer.rs`)

Mirrors, path by path and in the order of the Rust writes (so that the *first* error is the
same one):

* `CallFrameInstruction` (writer side) → `WInstr`; `CallFrameInstruction::write` → `instrWrite`
  (which opcode form is chosen by sign / size of the operands), `write_advance_loc` →
  `writeAdvanceLoc`, `factored_code_delta` / `factored_data_offset` (with the `checked_div` of the
  `fix:` commit: a zero factor, and `i32::MIN / -1`, are the named error);
* `write_nop` → `nopCount` (`(!len + 1) & (align - 1)` on `usize`; the `u8` subtraction and the
  `debug_assert_eq!(align & (align - 1), 0)` are mode dependent);
* `CommonInformationEntry::{has_augmentation, write}` → `cieWrite`,
  `FrameDescriptionEntry::{add_instruction, write}` → `fdeAddInstruction`, `fdeWrite`;
* `FrameTable::{add_cie, add_fde, write}` → `Table.addCie`, `Table.addFde`, `writeLoop`,
  `tableWrite` (an `IndexSet` is a duplicate-free vector in insertion order; CIEs are written
  when the first FDE that refers to them is written).

Conventions: the writer is an `EndianVec` (no relocations): `Address::Symbol` is
`Error::InvalidAddress`.  An `Expression` is represented by its bytes (`Expression::raw`; the
expression writer is C15's subject).  A function that appends to the section returns the bytes
it appends; `off` / `pos` parameters are `w.len()` at the point of the call (only
`DW_EH_PE_pcrel` pointers and CIE pointers depend on them).  `usize` = 64 bits.

No Mathlib import (the driver links this file).
-/
namespace Gimli.WCfi
open Gimli

abbrev Reg := Gimli.Cfi.Reg

/-- `gimli::write::Address` as far as a relocation-free writer distinguishes it -/
inductive Addr where
  | const (v : Nat)
  | symbol
  deriving DecidableEq, Repr, Inhabited

/-- `gimli::write::CallFrameInstruction`; offsets are `i32` values, `argsSize` a `u32` -/
inductive WInstr where
  | cfa (register : Reg) (offset : Int)
  | cfaRegister (register : Reg)
  | cfaOffset (offset : Int)
  | cfaExpression (expression : Bytes)
  | restore (register : Reg)
  | undefined (register : Reg)
  | sameValue (register : Reg)
  | offset (register : Reg) (offset : Int)
  | valOffset (register : Reg) (offset : Int)
  | register (register1 register2 : Reg)
  | expression (register : Reg) (expression : Bytes)
  | valExpression (register : Reg) (expression : Bytes)
  | rememberState
  | restoreState
  | argsSize (size : Nat)
  | negateRaState
  deriving DecidableEq, Repr, Inhabited

/-! ## factoring -/

/-- `factored_code_delta(prev_offset, offset, factor)` (`u32`, `u32`, `u8`).
`factored_delta * factor ≤ delta`, so the unchecked `u32` multiplication cannot overflow. -/
def factoredCodeDelta (prev offset factor : Nat) : Out Nat :=
  if offset < prev then .err .wInvalidFrameCodeOffset
  else
    let delta := offset - prev
    if factor = 0 then .err .wInvalidFrameCodeOffset  -- `checked_div` is `None`
    else
      let factored := delta / factor
      if delta ≠ factored * factor then .err .wInvalidFrameCodeOffset else .ok factored

/-- `factored_data_offset(offset, factor)` (`i32`, `i8`).  `i32::checked_div` is `None` for a zero
divisor and for `i32::MIN / -1`; Rust's `/` truncates toward zero (`Int.tdiv`);
`|factored_offset * factor| ≤ |offset|`, so the unchecked `i32` multiplication cannot overflow. -/
def factoredDataOffset (offset factor : Int) : Out Int :=
  if factor = 0 ∨ (offset = -(2 ^ 31) ∧ factor = -1) then .err .wInvalidFrameDataOffset
  else
    let factored := Int.tdiv offset factor
    if offset ≠ factored * factor then .err .wInvalidFrameDataOffset else .ok factored

/-! ## instructions -/

/-- `w.write_uleb128(register.0.into())` -/
def regU (r : Reg) : Bytes := Leb.encodeU r.toNat

/-- `w.write_uleb128(expression.size(..)? as u64)?; expression.write(..)?` for `Expression::raw` -/
def exprW (ex : Bytes) : Bytes := Leb.encodeU ex.length ++ ex

/-- `CallFrameInstruction::write`; depends on the CIE only through `data_alignment_factor` -/
def instrWrite (daf : Int) : WInstr → Out Bytes
  | .cfa r off =>
    if off < 0 then do
      let f ← factoredDataOffset off daf
      pure ([0x12] ++ regU r ++ Leb.encodeS f)
    else pure ([0x0c] ++ regU r ++ Leb.encodeU off.toNat)
  | .cfaRegister r => pure ([0x0d] ++ regU r)
  | .cfaOffset off =>
    if off < 0 then do
      let f ← factoredDataOffset off daf
      pure ([0x13] ++ Leb.encodeS f)
    else pure ([0x0e] ++ Leb.encodeU off.toNat)
  | .cfaExpression ex => pure ([0x0f] ++ exprW ex)
  | .restore r =>
    if r.toNat < 0x40 then pure [UInt8.ofNat (0xc0 + r.toNat)]
    else pure ([0x06] ++ regU r)
  | .undefined r => pure ([0x07] ++ regU r)
  | .sameValue r => pure ([0x08] ++ regU r)
  | .offset r off => do
    let f ← factoredDataOffset off daf
    if f < 0 then pure ([0x11] ++ regU r ++ Leb.encodeS f)
    else if r.toNat < 0x40 then pure ([UInt8.ofNat (0x80 + r.toNat)] ++ Leb.encodeU f.toNat)
    else pure ([0x05] ++ regU r ++ Leb.encodeU f.toNat)
  | .valOffset r off => do
    let f ← factoredDataOffset off daf
    if f < 0 then pure ([0x15] ++ regU r ++ Leb.encodeS f)
    else pure ([0x14] ++ regU r ++ Leb.encodeU f.toNat)
  | .register r1 r2 => pure ([0x09] ++ regU r1 ++ regU r2)
  | .expression r ex => pure ([0x10] ++ regU r ++ exprW ex)
  | .valExpression r ex => pure ([0x16] ++ regU r ++ exprW ex)
  | .rememberState => pure [0x0a]
  | .restoreState => pure [0x0b]
  | .argsSize n => pure ([0x2e] ++ Leb.encodeU n)
  | .negateRaState => pure [0x2d]

/-- the form selection of `write_advance_loc` for a factored delta (`u32`):
`DW_CFA_advance_loc | delta`, `advance_loc1` + `u8`, `advance_loc2` + `u16`, `advance_loc4` + `u32` -/
def advanceLocBytes (e : Endian) (delta : Nat) : Bytes :=
  if delta < 0x40 then [UInt8.ofNat (0x40 + delta)]
  else if delta < 0x100 then 0x02 :: Ints.toBytes e 1 delta
  else if delta < 0x10000 then 0x03 :: Ints.toBytes e 2 delta
  else 0x04 :: Ints.toBytes e 4 delta

/-- `write_advance_loc(w, code_alignment_factor, prev_offset, offset)` -/
def writeAdvanceLoc (e : Endian) (caf prev offset : Nat) : Out Bytes :=
  if offset = prev then pure []
  else do
    let delta ← factoredCodeDelta prev offset caf
    pure (advanceLocBytes e delta)

/-- the `for instruction in &self.instructions` loop of `CommonInformationEntry::write` -/
def instrsWrite (daf : Int) : List WInstr → Out Bytes
  | [] => pure []
  | i :: is => do
    let a ← instrWrite daf i
    let b ← instrsWrite daf is
    pure (a ++ b)

/-- the `for (offset, instruction) in &self.instructions` loop of `FrameDescriptionEntry::write` -/
def fdeInstrsWrite (e : Endian) (caf : Nat) (daf : Int) : Nat → List (Nat × WInstr) → Out Bytes
  | _, [] => pure []
  | prev, (off, i) :: is => do
    let adv ← writeAdvanceLoc e caf prev off
    let a ← instrWrite daf i
    let b ← fdeInstrsWrite e caf daf off is
    pure (adv ++ a ++ b)

/-- `write_nop(w, len, align)`: the number of `DW_CFA_nop` bytes, `(!len + 1) & (align as usize - 1)`.
`0 < len < 2^64` at both call sites.  `align - 1` is a `u8` subtraction inside the
`debug_assert_eq!`: a zero address size panics in debug builds and, in release builds, makes
`align as usize - 1` wrap to `usize::MAX` so that the loop tries to write `2^64 − len` bytes. -/
def nopCount (m : Mode) (len align : Nat) : Out Nat :=
  if align = 0 then
    match m with
    | .debug => .panic "attempt to subtract with overflow"
    | .release => .diverge
  else if m = .debug ∧ align &&& (align - 1) ≠ 0 then .panic "assertion `left == right` failed"
  else .ok ((2 ^ 64 - len) % 2 ^ 64 &&& (align - 1))

/-! ## pointers -/

/-- `Writer::write_address` (`EndianVec`: no relocations) -/
def writeAddress (e : Endian) (a : Addr) (size : Nat) : Out Bytes :=
  match a with
  | .const v => Ints.writeUdata e v size
  | .symbol => .err .wInvalidAddress

/-- `Writer::write_eh_pointer_data(val, format, size)`; `format` is the low nibble of the encoding;
`val as i64` is `Leb.toI64` -/
def ehPointerData (e : Endian) (val format size : Nat) : Out Bytes :=
  match format with
  | 0x00 => Ints.writeUdata e val size
  | 0x01 => .ok (Leb.encodeU val)
  | 0x02 => Ints.writeUdata e val 2
  | 0x03 => Ints.writeUdata e val 4
  | 0x04 => Ints.writeUdata e val 8
  | 0x09 => .ok (Leb.encodeS (Leb.toI64 val))
  | 0x0a => Ints.writeSdata e (Leb.toI64 val) 2
  | 0x0b => Ints.writeSdata e (Leb.toI64 val) 4
  | 0x0c => Ints.writeSdata e (Leb.toI64 val) 8
  | _ => .err .wUnsupportedPointerEncoding

/-- `Writer::write_eh_pointer(address, eh_pe, size)` with `pos = self.len()` -/
def ehPointer (e : Endian) (pos : Nat) (a : Addr) (ehPe size : Nat) : Out Bytes :=
  match a with
  | .const v =>
    match (ehPe / 16) % 8 with
    | 0 => ehPointerData e v (ehPe % 16) size
    | 1 => ehPointerData e ((v + 2 ^ 64 - pos % 2 ^ 64) % 2 ^ 64) (ehPe % 16) size
    | _ => .err .wUnsupportedPointerEncoding
  | .symbol => .err .wInvalidAddress

/-! ## entries -/

/-- `gimli::write::CommonInformationEntry` (with its `Encoding`) -/
structure WCie where
  format : Format := .dwarf32
  /-- `encoding.version : u16` -/
  version : Nat := 1
  /-- `encoding.address_size : u8` -/
  addressSize : Nat := 8
  /-- `u8` -/
  codeAlign : Nat := 1
  /-- `i8` -/
  dataAlign : Int := 1
  raReg : Reg := 0
  /-- `(DwEhPe, Address)` -/
  personality : Option (Nat × Addr) := none
  lsdaEncoding : Option Nat := none
  fdeAddressEncoding : Nat := 0
  signalTrampoline : Bool := false
  instructions : List WInstr := []
  deriving DecidableEq, Repr, Inhabited

/-- `gimli::write::FrameDescriptionEntry` -/
structure WFde where
  address : Addr := .const 0
  /-- `u32` -/
  length : Nat := 0
  lsda : Option Addr := none
  instructions : List (Nat × WInstr) := []
  deriving DecidableEq, Repr, Inhabited

/-- `CommonInformationEntry::has_augmentation` -/
def WCie.hasAugmentation (c : WCie) : Bool :=
  c.personality.isSome || c.lsdaEncoding.isSome || c.signalTrampoline || c.fdeAddressEncoding != 0

/-- the augmentation string without its terminator: `z`, `L`, `P`, `R`, `S` in this order -/
def WCie.augString (c : WCie) : Bytes :=
  if c.hasAugmentation then
    [0x7a] ++ (if c.lsdaEncoding.isSome then [0x4c] else []) ++
      (if c.personality.isSome then [0x50] else []) ++
      (if c.fdeAddressEncoding != 0 then [0x52] else []) ++
      (if c.signalTrampoline then [0x53] else [])
  else []

/-- bytes taken by `write_initial_length` -/
def lenFieldSize : Format → Nat
  | .dwarf32 => 4
  | .dwarf64 => 12

/-- the CIE id: `0` (`u32`) in `.eh_frame`, all ones of the offset size in `.debug_frame` -/
def cieIdBytes (e : Endian) (eh : Bool) (f : Format) : Bytes :=
  if eh then Ints.toBytes e 4 0
  else match f with
    | .dwarf32 => Ints.toBytes e 4 0xffff_ffff
    | .dwarf64 => Ints.toBytes e 8 0xffff_ffff_ffff_ffff

/-- the version test of `CommonInformationEntry::write` -/
def versionOk (eh : Bool) (version : Nat) : Bool :=
  if eh then version = 1 else (version = 1 || version = 3 || version = 4)

/-- the return address register field: a `u8` in a version 1 CIE of either section (checked:
`ValueTooLarge` from register 256 on), a ULEB128 from version 3 on
(`fix: write the .eh_frame CIE return address register as a byte`) -/
def raBytes (version : Nat) (ra : Reg) : Out Bytes :=
  if version = 1 then
    if ra.toNat % 256 ≠ ra.toNat then .err .wValueTooLarge else .ok [UInt8.ofNat ra.toNat]
  else .ok (Leb.encodeU ra.toNat)

/-- everything of a CIE between the id and the return address register (inclusive of neither) -/
def cieFixed (c : WCie) : Bytes :=
  [UInt8.ofNat c.version] ++ c.augString ++ [0] ++
    (if c.version ≥ 4 then [UInt8.ofNat c.addressSize, 0] else []) ++
    Leb.encodeU c.codeAlign ++ Leb.encodeS c.dataAlign

/-- the augmentation data of a CIE including its length byte; `pos` = `w.len()` where the length
byte goes.  (`debug_assert!(augmentation_length < 0x80)`: at most 1 + 1 + 10 + 1 bytes.) -/
def cieAugData (e : Endian) (c : WCie) (pos : Nat) : Out Bytes :=
  if c.hasAugmentation then do
    let l : Bytes := match c.lsdaEncoding with
      | some enc => [UInt8.ofNat enc]
      | none => []
    let p ← match c.personality with
      | some (enc, a) => do
        let ptr ← ehPointer e (pos + 1 + l.length + 1) a enc c.addressSize
        pure (UInt8.ofNat enc :: ptr)
      | none => pure []
    let r : Bytes := if c.fdeAddressEncoding != 0 then [UInt8.ofNat c.fdeAddressEncoding] else []
    let data := l ++ p ++ r
    pure (UInt8.ofNat data.length :: data)
  else pure []

/-- `CommonInformationEntry::write(w, eh_frame)` with `off = w.len()`: the bytes appended -/
def cieWrite (m : Mode) (e : Endian) (eh : Bool) (c : WCie) (off : Nat) : Out Bytes :=
  if !versionOk eh c.version then .err .wUnsupportedVersion else do
    let ra ← raBytes c.version c.raReg
    let head := cieIdBytes e eh c.format ++ cieFixed c ++ ra
    let aug ← cieAugData e c (off + lenFieldSize c.format + head.length)
    let ins ← instrsWrite c.dataAlign c.instructions
    let body := head ++ aug ++ ins
    let n ← nopCount m (lenFieldSize c.format + body.length) c.addressSize
    let lf ← Ints.writeInitialLength e c.format (body.length + n)
    pure (lf ++ body ++ List.replicate n 0)

/-- `FrameDescriptionEntry::add_instruction`: the `debug_assert!` on the order of offsets -/
def fdeAddInstruction (m : Mode) (f : WFde) (offset : Nat) (i : WInstr) : Out WFde :=
  let last := match f.instructions.getLast? with
    | some x => x.1
    | none => 0
  if m = .debug ∧ ¬ last ≤ offset then
    .panic "assertion failed: self.instructions.last().map(|x| x.0).unwrap_or(0) <= offset"
  else .ok { f with instructions := f.instructions ++ [(offset, i)] }

/-- the CIE pointer of an FDE; `pos` = `w.len()` where it goes -/
def fdeCiePointer (e : Endian) (eh : Bool) (f : Format) (pos cieOff : Nat) : Out Bytes :=
  if eh then Ints.writeUdata e (pos - cieOff) 4 else Ints.writeUdata e cieOff f.wordSize

/-- address and length of an FDE; `pos` = `w.len()` where the address goes -/
def fdeAddrs (e : Endian) (c : WCie) (f : WFde) (pos : Nat) : Out Bytes :=
  if c.fdeAddressEncoding != 0 then do
    let a ← ehPointer e pos f.address c.fdeAddressEncoding c.addressSize
    let l ← ehPointerData e f.length (c.fdeAddressEncoding % 16) c.addressSize
    pure (a ++ l)
  else do
    let a ← writeAddress e f.address c.addressSize
    let l ← Ints.writeUdata e f.length c.addressSize
    pure (a ++ l)

/-- the augmentation data of an FDE including its length byte; `pos` as in `cieAugData` -/
def fdeAugData (m : Mode) (e : Endian) (c : WCie) (f : WFde) (pos : Nat) : Out Bytes :=
  if c.hasAugmentation then
    if m = .debug ∧ f.lsda.isSome ≠ c.lsdaEncoding.isSome then .panic "assertion `left == right` failed"
    else do
      let data ← match f.lsda, c.lsdaEncoding with
        | some a, some enc => ehPointer e (pos + 1) a enc c.addressSize
        | _, _ => pure []
      pure (UInt8.ofNat data.length :: data)
  else pure []

/-- `FrameDescriptionEntry::write(w, eh_frame, cie_offset, cie)` with `off = w.len()` -/
def fdeWrite (m : Mode) (e : Endian) (eh : Bool) (off cieOff : Nat) (c : WCie) (f : WFde) : Out Bytes := do
  let base := off + lenFieldSize c.format
  let ptr ← fdeCiePointer e eh c.format base cieOff
  let addrs ← fdeAddrs e c f (base + ptr.length)
  let aug ← fdeAugData m e c f (base + ptr.length + addrs.length)
  let ins ← fdeInstrsWrite e c.codeAlign c.dataAlign 0 f.instructions
  let body := ptr ++ addrs ++ aug ++ ins
  let n ← nopCount m (lenFieldSize c.format + body.length) c.addressSize
  let lf ← Ints.writeInitialLength e c.format (body.length + n)
  pure (lf ++ body ++ List.replicate n 0)

/-! ## the table -/

/-- `gimli::write::FrameTable`: `cies` is the `IndexSet` in insertion order, an FDE refers to its CIE
by index (`CieId`) -/
structure Table where
  cies : List WCie := []
  fdes : List (Nat × WFde) := []
  deriving Repr, Inhabited

/-- index of the first element equal to `c` -/
def indexOf (c : WCie) : List WCie → Option Nat
  | [] => none
  | x :: xs => if x = c then some 0 else (indexOf c xs).map (· + 1)

/-- `FrameTable::add_cie`: `insert_full` returns the index of the equal element if there is one -/
def Table.addCie (t : Table) (c : WCie) : Table × Nat :=
  match indexOf c t.cies with
  | some i => (t, i)
  | none => ({ t with cies := t.cies ++ [c] }, t.cies.length)

/-- a sequence of `add_cie` calls: the table afterwards and the id each call returned -/
def Table.addCies (t : Table) : List WCie → Table × List Nat
  | [] => (t, [])
  | c :: cs =>
    let r := t.addCie c
    let rs := r.1.addCies cs
    (rs.1, r.2 :: rs.2)

/-- `FrameTable::add_fde` -/
def Table.addFde (t : Table) (id : Nat) (f : WFde) : Table := { t with fdes := t.fdes ++ [(id, f)] }

/-- one entry as written: which CIE (index) or FDE, at which section offset, which bytes -/
inductive Entry where
  | cie (index off : Nat) (bytes : Bytes)
  | fde (cieIndex off : Nat) (bytes : Bytes)
  deriving Repr, Inhabited

def Entry.bytes : Entry → Bytes
  | .cie _ _ b => b
  | .fde _ _ b => b

/-- the loop of `FrameTable::write`; `offs` is `cie_offsets`, `pos` is `w.len()` -/
def writeLoop (m : Mode) (e : Endian) (eh : Bool) (cies : List WCie) :
    List (Nat × WFde) → List (Option Nat) → Nat → Out (List Entry)
  | [], _, _ => .ok []
  | (ci, f) :: rest, offs, pos =>
    match cies[ci]? with
    | none => .panic "called `Option::unwrap()` on a `None` value"
    | some c =>
      match offs.getD ci none with
      | some o => do
        let fb ← fdeWrite m e eh pos o c f
        let es ← writeLoop m e eh cies rest offs (pos + fb.length)
        pure (.fde ci pos fb :: es)
      | none => do
        let cb ← cieWrite m e eh c pos
        let fb ← fdeWrite m e eh (pos + cb.length) pos c f
        let es ← writeLoop m e eh cies rest (offs.set ci (some pos)) (pos + cb.length + fb.length)
        pure (.cie ci pos cb :: .fde ci (pos + cb.length) fb :: es)

/-- the entries `FrameTable::write` appends to an empty section -/
def tableEntries (m : Mode) (e : Endian) (eh : Bool) (t : Table) : Out (List Entry) :=
  writeLoop m e eh t.cies t.fdes (List.replicate t.cies.length none) 0

/-- `FrameTable::write_debug_frame` (`eh = false`) / `write_eh_frame` (`eh = true`) into an empty
section: the section bytes -/
def tableWrite (m : Mode) (e : Endian) (eh : Bool) (t : Table) : Out Bytes := do
  let es ← tableEntries m e eh t
  pure (es.flatMap Entry.bytes)

end Gimli.WCfi
