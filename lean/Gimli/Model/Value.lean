import Gimli.Model.Ints
/-!
# Model of `src/read/value.rs`

A `Value` is a `ValueType` tag plus the **bit pattern** of the Rust payload as a natural number:

* `generic` — the `u64` payload exactly as stored (`< 2^64`, *not* necessarily masked to the
  address size: `neg`, `not`, `div`, `shl`, `shra`, `abs` leave high bits set in the Rust code and so
  do they here; every operation masks its operands itself and C07 `value_refines` shows the
  garbage is harmless modulo the address size);
* `i8 … u64` — the two's complement pattern, `< 2^width`;
* `f32`/`f64` — the IEEE-754 bit pattern (`to_bits`). Float *arithmetic* is executed with Lean's
  `Float32`/`Float` (opaque to the kernel; theorems never look inside it).

Every function mirrors the Rust function of the same name (snake_case → camelCase), arm by arm;
the eleven per-type arms of each Rust `match` are written once, uniformly in the width
(`wrapping_add` on `iN`/`uN` is `(a + b) % 2^N` on patterns, signed division goes through `sval`).
`mask` is the `addr_mask : u64` argument (any value `< 2^64`, as the public API allows).
-/
namespace Gimli

/-- `gimli::read::ValueType` -/
inductive ValueType where
  | generic | i8 | u8 | i16 | u16 | i32 | u32 | i64 | u64 | f32 | f64
  deriving DecidableEq, Repr, Inhabited

/-- how the arms of the Rust `match`es group the types -/
inductive ValueKind where
  | generic | sint | uint | float
  deriving DecidableEq, Repr

namespace ValueType

def kind : ValueType → ValueKind
  | generic => .generic
  | i8 | i16 | i32 | i64 => .sint
  | u8 | u16 | u32 | u64 => .uint
  | f32 | f64 => .float

/-- width in bits of the Rust payload type (`generic` is stored in a `u64`) -/
def width : ValueType → Nat
  | generic => 64
  | i8 | u8 => 8
  | i16 | u16 => 16
  | i32 | u32 | f32 => 32
  | i64 | u64 | f64 => 64

def name : ValueType → String
  | generic => "generic" | i8 => "i8" | u8 => "u8" | i16 => "i16" | u16 => "u16"
  | i32 => "i32" | u32 => "u32" | i64 => "i64" | u64 => "u64" | f32 => "f32" | f64 => "f64"

def all : List ValueType := [generic, i8, u8, i16, u16, i32, u32, i64, u64, f32, f64]

def ofName? (s : String) : Option ValueType := all.find? (fun t => t.name == s)

end ValueType

/-- `gimli::read::Value` as (type, bit pattern) -/
structure Value where
  ty : ValueType
  bits : Nat
  deriving DecidableEq, Repr, Inhabited

namespace Value

/-- `Value::Generic(v)` -/
@[inline] def generic (v : Nat) : Value := ⟨.generic, v⟩

/-! ## integer helpers -/

/-- signed reading of a `w`-bit pattern (`as iN`) -/
def sval (w : Nat) (bits : Nat) : Int :=
  if bits % 2 ^ w < 2 ^ (w - 1) then ((bits % 2 ^ w : Nat) : Int) else ((bits % 2 ^ w : Nat) : Int) - 2 ^ w

/-- the `w`-bit two's complement pattern of an integer (`as uN` after wrapping) -/
def pat (w : Nat) (i : Int) : Nat := (i % 2 ^ w).toNat

/-- number of significant bits, `64 - n.leading_zeros()` for `n < 2^64` (fuel 64) -/
def bitLenFuel : Nat → Nat → Nat
  | 0, _ => 0
  | fuel + 1, n => if n = 0 then 0 else 1 + bitLenFuel fuel (n / 2)

/-- `mask_bit_size` -/
def maskBitSize (mask : Nat) : Nat := bitLenFuel 64 mask

/-- `sign_extend(value, mask)`: `((value & mask) ^ sign).wrapping_sub(sign)` with
`sign = (mask >> 1) + 1`, all on 64-bit patterns, result read as `i64` -/
def signExtend (value mask : Nat) : Int :=
  let v := value &&& mask
  let sign := (mask >>> 1) + 1
  Leb.toI64 (((v ^^^ sign) + (2 ^ 64 - sign)) % 2 ^ 64)

/-- `ValueType::bit_size` -/
def bitSize (t : ValueType) (mask : Nat) : Nat :=
  match t with
  | .generic => maskBitSize mask
  | t => t.width

/-- `ValueType::from_encoding(DwAte, byte_size)` (`DW_ATE_float = 4`, `signed = 5`, `unsigned = 7`) -/
def typeFromEncoding (ate byteSize : Nat) : Option ValueType :=
  match ate, byteSize with
  | 5, 1 => some .i8 | 5, 2 => some .i16 | 5, 4 => some .i32 | 5, 8 => some .i64
  | 7, 1 => some .u8 | 7, 2 => some .u16 | 7, 4 => some .u32 | 7, 8 => some .u64
  | 4, 4 => some .f32 | 4, 8 => some .f64
  | _, _ => none

/-! ## floats: bit patterns in, bit patterns out (executed, never reasoned about) -/

@[inline] def toF32 (b : Nat) : Float32 := Float32.ofBits b.toUInt32
@[inline] def toF64 (b : Nat) : Float := Float.ofBits b.toUInt64
@[inline] def ofF32 (f : Float32) : Value := ⟨.f32, f.toBits.toNat⟩
@[inline] def ofF64 (f : Float) : Value := ⟨.f64, f.toBits.toNat⟩

/-- the Rust `as` cast float → integer type (saturating, NaN ↦ 0), as a pattern -/
def f64ToInt (t : ValueType) (f : Float) : Nat :=
  match t with
  | .generic | .u64 => f.toUInt64.toNat
  | .i8 => f.toInt8.toUInt8.toNat
  | .u8 => f.toUInt8.toNat
  | .i16 => f.toInt16.toUInt16.toNat
  | .u16 => f.toUInt16.toNat
  | .i32 => f.toInt32.toUInt32.toNat
  | .u32 => f.toUInt32.toNat
  | .i64 => f.toInt64.toUInt64.toNat
  | .f32 | .f64 => 0

def f32ToInt (t : ValueType) (f : Float32) : Nat :=
  match t with
  | .generic | .u64 => f.toUInt64.toNat
  | .i8 => f.toInt8.toUInt8.toNat
  | .u8 => f.toUInt8.toNat
  | .i16 => f.toInt16.toUInt16.toNat
  | .u16 => f.toUInt16.toNat
  | .i32 => f.toInt32.toUInt32.toNat
  | .u32 => f.toUInt32.toNat
  | .i64 => f.toInt64.toUInt64.toNat
  | .f32 | .f64 => 0

/-! ## conversions -/

/-- `Value::value_type` -/
@[inline] def valueType (v : Value) : ValueType := v.ty

/-- `Value::parse(value_type, bytes)`: reads exactly the payload from the front of `bs` -/
def parse (e : Endian) (t : ValueType) (bs : Bytes) : Out Value :=
  match t with
  | .generic => .err .rUnsupportedTypeOperation
  | t => do
    let (v, _) ← Ints.readFixed e (t.width / 8) bs
    pure ⟨t, v⟩

/-- `Value::to_u64` -/
def toU64 (v : Value) (mask : Nat) : Out Nat :=
  match v.ty.kind with
  | .generic => .ok (v.bits &&& mask)
  | .sint => .ok (pat 64 (sval v.ty.width v.bits))
  | .uint => .ok v.bits
  | .float => .err .rIntegralTypeRequired

/-- `Value::from_u64` (never fails; `Result` in Rust only for uniformity) -/
def fromU64 (t : ValueType) (value : Nat) : Out Value :=
  match t with
  | .generic => .ok ⟨.generic, value⟩
  | .f32 => .ok (ofF32 value.toUInt64.toFloat32)
  | .f64 => .ok (ofF64 value.toUInt64.toFloat)
  | t => .ok ⟨t, value % 2 ^ t.width⟩

/-- `Value::from_f32` -/
def fromF32 (t : ValueType) (f : Float32) : Out Value :=
  match t with
  | .f32 => .ok (ofF32 f)
  | .f64 => .ok (ofF64 f.toFloat)
  | t => .ok ⟨t, f32ToInt t f⟩

/-- `Value::from_f64` -/
def fromF64 (t : ValueType) (f : Float) : Out Value :=
  match t with
  | .f32 => .ok (ofF32 f.toFloat32)
  | .f64 => .ok (ofF64 f)
  | t => .ok ⟨t, f64ToInt t f⟩

/-- `Value::convert` -/
def convert (v : Value) (t : ValueType) (mask : Nat) : Out Value :=
  match v.ty with
  | .f32 => fromF32 t (toF32 v.bits)
  | .f64 => fromF64 t (toF64 v.bits)
  | _ => do
    let u ← v.toU64 mask
    fromU64 t u

/-- `Value::reinterpret` -/
def reinterpret (v : Value) (t : ValueType) (mask : Nat) : Out Value :=
  if bitSize v.ty mask ≠ bitSize t mask then .err .rTypeMismatch else
  let bits : Nat := match v.ty.kind with
    | .sint => pat 64 (sval v.ty.width v.bits)
    | _ => v.bits
  match t with
  | .generic => .ok ⟨.generic, bits⟩
  | t => .ok ⟨t, bits % 2 ^ t.width⟩

/-! ## unary operations -/

/-- `Value::abs` -/
def abs (v : Value) (mask : Nat) : Out Value :=
  match v.ty.kind with
  | .generic => .ok ⟨.generic, pat 64 (Int.natAbs (signExtend v.bits mask))⟩
  | .sint => .ok ⟨v.ty, pat v.ty.width (Int.natAbs (sval v.ty.width v.bits))⟩
  | .uint => .ok v
  | .float =>
    match v.ty with
    | .f32 => let f := toF32 v.bits; .ok (ofF32 (if f < 0 then -f else f))
    | _ => let f := toF64 v.bits; .ok (ofF64 (if f < 0 then -f else f))

/-- `Value::neg` -/
def neg (v : Value) (mask : Nat) : Out Value :=
  match v.ty.kind with
  | .generic => .ok ⟨.generic, pat 64 (- signExtend v.bits mask)⟩
  | .sint => .ok ⟨v.ty, pat v.ty.width (- sval v.ty.width v.bits)⟩
  | .uint => .err .rUnsupportedTypeOperation
  | .float =>
    match v.ty with
    | .f32 => .ok (ofF32 (- toF32 v.bits))
    | _ => .ok (ofF64 (- toF64 v.bits))

/-- `Value::not` -/
def not (v : Value) (mask : Nat) : Out Value := do
  let u ← v.toU64 mask
  fromU64 v.ty (2 ^ 64 - 1 - u)

/-! ## binary arithmetic -/

/-- the shape shared by `add`, `sub`, `mul`: generic → `f64 v1 v2 & mask`, same integer type →
wrapped to the width, same float type → float op, otherwise `TypeMismatch` -/
def arith (gen : Nat → Nat → Nat) (f32op : Float32 → Float32 → Float32) (f64op : Float → Float → Float)
    (a b : Value) (mask : Nat) : Out Value :=
  if a.ty ≠ b.ty then .err .rTypeMismatch else
  match a.ty with
  | .generic => .ok ⟨.generic, (gen a.bits b.bits % 2 ^ 64) &&& mask⟩
  | .f32 => .ok (ofF32 (f32op (toF32 a.bits) (toF32 b.bits)))
  | .f64 => .ok (ofF64 (f64op (toF64 a.bits) (toF64 b.bits)))
  | t => .ok ⟨t, gen a.bits b.bits % 2 ^ t.width⟩

/-- `Value::add` (`wrapping_add`) -/
def add (a b : Value) (mask : Nat) : Out Value :=
  arith (fun x y => x + y) (· + ·) (· + ·) a b mask

/-- `Value::sub` (`wrapping_sub`; `2^64 + x - y` keeps the `Nat` subtraction exact for every width) -/
def sub (a b : Value) (mask : Nat) : Out Value :=
  arith (fun x y => 2 ^ 64 + x - y) (· - ·) (· - ·) a b mask

/-- `Value::mul` (`wrapping_mul`) -/
def mul (a b : Value) (mask : Nat) : Out Value :=
  arith (fun x y => x * y) (· * ·) (· * ·) a b mask

/-- the zero-divisor pre-check shared by `div` and `rem` for the typed integer arms:
`Value::I8(0) | Value::U8(0) | …` -/
def isTypedIntZero (b : Value) : Bool :=
  (b.ty.kind == .sint || b.ty.kind == .uint) && b.bits == 0

/-- `Value::div` -/
def div (a b : Value) (mask : Nat) : Out Value :=
  if b.ty = .generic ∧ signExtend b.bits mask = 0 then .err .rDivisionByZero
  else if isTypedIntZero b then .err .rDivisionByZero
  else if a.ty ≠ b.ty then .err .rTypeMismatch else
  match a.ty.kind with
  | .generic => .ok ⟨.generic, pat 64 (Int.tdiv (signExtend a.bits mask) (signExtend b.bits mask))⟩
  | .sint => .ok ⟨a.ty, pat a.ty.width (Int.tdiv (sval a.ty.width a.bits) (sval a.ty.width b.bits))⟩
  | .uint => .ok ⟨a.ty, a.bits / b.bits⟩
  | .float =>
    match a.ty with
    | .f32 => .ok (ofF32 (toF32 a.bits / toF32 b.bits))
    | _ => .ok (ofF64 (toF64 a.bits / toF64 b.bits))

/-- `Value::rem` -/
def rem (a b : Value) (mask : Nat) : Out Value :=
  if b.ty = .generic ∧ b.bits &&& mask = 0 then .err .rDivisionByZero
  else if isTypedIntZero b then .err .rDivisionByZero
  else if a.ty ≠ b.ty then .err .rTypeMismatch else
  match a.ty.kind with
  | .generic => .ok ⟨.generic, (a.bits &&& mask) % (b.bits &&& mask)⟩
  | .sint => .ok ⟨a.ty, pat a.ty.width (Int.tmod (sval a.ty.width a.bits) (sval a.ty.width b.bits))⟩
  | .uint => .ok ⟨a.ty, a.bits % b.bits⟩
  | .float => .err .rIntegralTypeRequired

/-- the shape shared by `and`, `or`, `xor` -/
def bitwise (f : Nat → Nat → Nat) (a b : Value) (mask : Nat) : Out Value :=
  if a.ty ≠ b.ty then .err .rTypeMismatch else do
  let v1 ← a.toU64 mask
  let v2 ← b.toU64 mask
  fromU64 a.ty (f v1 v2)

/-- `Value::and` -/
def and (a b : Value) (mask : Nat) : Out Value := bitwise (· &&& ·) a b mask
/-- `Value::or` -/
def or (a b : Value) (mask : Nat) : Out Value := bitwise (· ||| ·) a b mask
/-- `Value::xor` -/
def xor (a b : Value) (mask : Nat) : Out Value := bitwise (· ^^^ ·) a b mask

/-! ## shifts -/

/-- `Value::shift_length(self, addr_mask)`: a generic count is masked to the address size
(the `fix:` for finding C07-1) -/
def shiftLength (v : Value) (mask : Nat) : Out Nat :=
  match v.ty.kind with
  | .generic => .ok (v.bits &&& mask)
  | .uint => .ok v.bits
  | .sint => if 0 ≤ sval v.ty.width v.bits then .ok v.bits else .err .rInvalidShiftExpression
  | .float => .err .rInvalidShiftExpression

/-- `Value::shl` -/
def shl (a b : Value) (mask : Nat) : Out Value := do
  let v2 ← b.shiftLength mask
  match a.ty.kind with
  | .generic =>
    pure ⟨.generic, if v2 ≥ maskBitSize mask then 0 else ((a.bits &&& mask) <<< v2) % 2 ^ 64⟩
  | .sint | .uint =>
    pure ⟨a.ty, if v2 ≥ a.ty.width then 0 else (a.bits <<< v2) % 2 ^ a.ty.width⟩
  | .float => .err .rIntegralTypeRequired

/-- `Value::shr` -/
def shr (a b : Value) (mask : Nat) : Out Value := do
  let v2 ← b.shiftLength mask
  match a.ty.kind with
  | .generic => pure ⟨.generic, if v2 ≥ maskBitSize mask then 0 else (a.bits &&& mask) >>> v2⟩
  | .uint => pure ⟨a.ty, if v2 ≥ a.ty.width then 0 else a.bits >>> v2⟩
  | .sint => .err .rUnsupportedTypeOperation
  | .float => .err .rIntegralTypeRequired

/-- `Value::shra` (`>>` on `iN` is the arithmetic shift = floor division by `2^v2`) -/
def shra (a b : Value) (mask : Nat) : Out Value := do
  let v2 ← b.shiftLength mask
  match a.ty.kind with
  | .generic =>
    let v1 := signExtend a.bits mask
    pure ⟨.generic,
      if v2 ≥ maskBitSize mask then (if v1 < 0 then 2 ^ 64 - 1 else 0) else pat 64 (v1 / 2 ^ v2)⟩
  | .sint =>
    let w := a.ty.width
    let v1 := sval w a.bits
    pure ⟨a.ty, if v2 ≥ w then (if v1 < 0 then 2 ^ w - 1 else 0) else pat w (v1 / 2 ^ v2)⟩
  | .uint => .err .rUnsupportedTypeOperation
  | .float => .err .rIntegralTypeRequired

/-! ## comparisons -/

/-- the shape shared by the six relational operators: generic operands are compared as
sign-extended integers, signed types by value, unsigned by pattern, floats by IEEE comparison;
the result is `Value::Generic(bool as u64)` -/
def compare (ri : Int → Int → Bool) (rf32 : Float32 → Float32 → Bool) (rf64 : Float → Float → Bool)
    (a b : Value) (mask : Nat) : Out Value :=
  if a.ty ≠ b.ty then .err .rTypeMismatch else
  let r : Bool := match a.ty.kind with
    | .generic => ri (signExtend a.bits mask) (signExtend b.bits mask)
    | .sint => ri (sval a.ty.width a.bits) (sval a.ty.width b.bits)
    | .uint => ri a.bits b.bits
    | .float =>
      match a.ty with
      | .f32 => rf32 (toF32 a.bits) (toF32 b.bits)
      | _ => rf64 (toF64 a.bits) (toF64 b.bits)
  .ok ⟨.generic, r.toNat⟩

/-- `Value::eq` -/
def eq (a b : Value) (mask : Nat) : Out Value :=
  compare (fun x y => decide (x = y)) (fun x y => x == y) (fun x y => x == y) a b mask
/-- `Value::ge` -/
def ge (a b : Value) (mask : Nat) : Out Value :=
  compare (fun x y => decide (x ≥ y)) (fun x y => decide (x ≥ y)) (fun x y => decide (x ≥ y)) a b mask
/-- `Value::gt` -/
def gt (a b : Value) (mask : Nat) : Out Value :=
  compare (fun x y => decide (x > y)) (fun x y => decide (x > y)) (fun x y => decide (x > y)) a b mask
/-- `Value::le` -/
def le (a b : Value) (mask : Nat) : Out Value :=
  compare (fun x y => decide (x ≤ y)) (fun x y => decide (x ≤ y)) (fun x y => decide (x ≤ y)) a b mask
/-- `Value::lt` -/
def lt (a b : Value) (mask : Nat) : Out Value :=
  compare (fun x y => decide (x < y)) (fun x y => decide (x < y)) (fun x y => decide (x < y)) a b mask
/-- `Value::ne` -/
def ne (a b : Value) (mask : Nat) : Out Value :=
  compare (fun x y => decide (x ≠ y)) (fun x y => x != y) (fun x y => x != y) a b mask

/-! ## canonical text (line protocol) -/

/-- `<type>:<payload>`: signed decimal for `iN`, unsigned decimal otherwise, floats by bit
pattern except that every NaN is `nan` (payload propagation is not part of the property) -/
def render (v : Value) : String :=
  v.ty.name ++ ":" ++
  match v.ty.kind with
  | .sint => toString (sval v.ty.width v.bits)
  | .float =>
    match v.ty with
    | .f32 => if (toF32 v.bits).isNaN then "nan" else toString v.bits
    | _ => if (toF64 v.bits).isNaN then "nan" else toString v.bits
  | _ => toString v.bits

/-- inverse of `render` for request lines (`nan` is not accepted; floats come as bit patterns) -/
def parseText? (s : String) : Option Value :=
  match s.splitOn ":" with
  | [t, p] => do
    let t ← ValueType.ofName? t
    let i ← parseInt? p
    match t.kind with
    | .sint => pure ⟨t, pat t.width i⟩
    | _ => if i < 0 then none else pure ⟨t, i.toNat % 2 ^ t.width⟩
  | _ => none

end Value
end Gimli
