import Gimli.Model.Indexed
import Gimli.Model.Aranges
/-!
# Model of the per-unit table bases (`src/read/dwarf.rs` `Unit::new_with_abbreviations`,
`src/read/str.rs` `DebugStrOffsetsBase::default_for_encoding_and_file`, `src/read/rnglists.rs` /
`src/read/loclists.rs` `Debug{Rng,Loc}ListsBase::default_for_encoding_and_file`,
`src/read/lists.rs` `ListsHeader::size_for_encoding`)

`Unit::new` seeds the four bases from the unit's encoding and the file type, then lets the root
DIE's `DW_AT_*_base` attributes (already converted to the matching `AttributeValue` class by
`Attribute::value`, which C03 models) override them, later attributes winning.
-/
namespace Gimli.Bases
open Gimli
open Gimli.Aranges (initialLengthSize)

/-- `DwarfFileType` -/
inductive FileType where
  | main
  | dwo
  deriving DecidableEq, Repr, Inhabited

/-- `DebugStrOffsetsBase::default_for_encoding_and_file`: in a DWARF ≥ 5 `.dwo` the table's header
(`initial_length_size + version + 2 bytes of padding`) must be skipped; otherwise 0 -/
def strOffsetsBaseDefault (version : Nat) (f : Format) (ft : FileType) : Nat :=
  if version ≥ 5 ∧ ft = .dwo then initialLengthSize f + 2 + 2 else 0

/-- `ListsHeader::size_for_encoding`:
`initial_length + version + address_size + segment_selector_size + offset_entry_count` -/
def listsHeaderSize (f : Format) : Nat := initialLengthSize f + 2 + 1 + 1 + 4

/-- `DebugRngListsBase::default_for_encoding_and_file` -/
def rnglistsBaseDefault (version : Nat) (f : Format) (ft : FileType) : Nat :=
  if version ≥ 5 ∧ ft = .dwo then listsHeaderSize f else 0

/-- `DebugLocListsBase::default_for_encoding_and_file` -/
def loclistsBaseDefault (version : Nat) (f : Format) (ft : FileType) : Nat :=
  if version ≥ 5 ∧ ft = .dwo then listsHeaderSize f else 0

/-- "Because the .debug_addr section never lives in a .dwo, we can assume its base is always 0 or
provided." -/
def addrBaseDefault : Nat := 0

/-- the four bases of a `Unit` -/
structure UnitBases where
  strOffsets : Nat
  addr : Nat
  loclists : Nat
  rnglists : Nat
  deriving DecidableEq, Repr

def defaults (version : Nat) (f : Format) (ft : FileType) : UnitBases :=
  { strOffsets := strOffsetsBaseDefault version f ft, addr := addrBaseDefault,
    loclists := loclistsBaseDefault version f ft, rnglists := rnglistsBaseDefault version f ft }

/-- one arm of the `match attr.name()` in the root-DIE loop of `Unit::new`, for an attribute
`(DW_AT code, section offset)` whose value has the base class of that attribute -/
def applyAttr (b : UnitBases) (a : Nat × Nat) : UnitBases :=
  if a.1 = 0x72 then { b with strOffsets := a.2 }                       -- DW_AT_str_offsets_base
  else if a.1 = 0x73 ∨ a.1 = 0x2133 then { b with addr := a.2 }         -- DW_AT_addr_base | DW_AT_GNU_addr_base
  else if a.1 = 0x8c then { b with loclists := a.2 }                    -- DW_AT_loclists_base
  else if a.1 = 0x74 ∨ a.1 = 0x2132 then { b with rnglists := a.2 }     -- DW_AT_rnglists_base | DW_AT_GNU_ranges_base
  else b

/-- `Unit::new`, as far as the bases go: defaults, then the root DIE's attributes in order -/
def unitBases (version : Nat) (f : Format) (ft : FileType) (rootAttrs : List (Nat × Nat)) : UnitBases :=
  rootAttrs.foldl applyAttr (defaults version f ft)

/-- `Dwarf::string_offset(unit, index)` -/
def stringOffset (e : Endian) (f : Format) (b : UnitBases) (debugStrOffsets : Bytes) (index : Nat) : Out Nat :=
  Indexed.getStrOffset e f debugStrOffsets b.strOffsets index

/-- `Dwarf::address(unit, index)` -/
def address (e : Endian) (addressSize : Nat) (b : UnitBases) (debugAddr : Bytes) (index : Nat) : Out Nat :=
  Indexed.getAddress e addressSize debugAddr b.addr index

/-! ## skeleton → split unit hand-over, list-offset lookups -/

/-- the part of a `Unit` the hand-over touches -/
structure UnitState where
  version : Nat
  format : Format
  bases : UnitBases
  lowPc : Nat
  deriving DecidableEq, Repr

/-- `Unit::new` for the fields modelled here: bases from the encoding, file type and root
attributes; `low_pc` from the root DIE's `DW_AT_low_pc` (0 when absent) -/
def newUnit (version : Nat) (f : Format) (ft : FileType) (rootAttrs : List (Nat × Nat)) (lowPc : Option Nat) :
    UnitState :=
  { version, format := f, bases := unitBases version f ft rootAttrs, lowPc := lowPc.getD 0 }

/-- `Unit::copy_relocated_attributes(&mut self, other)`: `low_pc` and `addr_base` always; the
ranges base only before DWARF 5 (there it is `DW_AT_GNU_ranges_base`, an offset into the parent's
`.debug_ranges`; in DWARF 5 the split unit's lists live in its own `.debug_rnglists.dwo`) -/
def copyRelocated (self other : UnitState) : UnitState :=
  { self with
    lowPc := other.lowPc
    bases :=
      { self.bases with
        addr := other.bases.addr
        rnglists := if self.version < 5 then other.bases.rnglists else self.bases.rnglists } }

/-- the sections of a `Dwarf` that `make_dwo` / `DwarfPackage::sections` rewire -/
structure Sections where
  fileType : FileType
  debugAddr : Bytes
  debugRanges : Bytes
  debugRnglists : Bytes
  debugLoclists : Bytes
  deriving DecidableEq, Repr

/-- `Dwarf::make_dwo(parent)`: the file becomes a `.dwo`; `.debug_addr` and `.debug_ranges` are the
parent's, `.debug_rnglists` / `.debug_loclists` stay the file's own.  (`DwarfPackage::sections`
assembles the same shape from the unit's contributions.) -/
def makeDwo (self parent : Sections) : Sections :=
  { self with fileType := .dwo, debugAddr := parent.debugAddr, debugRanges := parent.debugRanges }

/-- `RangeLists::get_offset` / `LocationLists::get_offset`: entry `index` of the offsets array at
`base`, plus `base` (the entries are relative to the base); both the product and the sum are
checked -/
def getListOffset (e : Endian) (f : Format) (sec : Bytes) (base index : Nat) : Out Nat := do
  let r ← Names.skipTo sec base
  if index * f.wordSize ≥ 2 ^ 64 then .err .rUnsupportedOffset else do
  let r ← Names.skipTo r (index * f.wordSize)
  let (offset, _) ← Ints.readWord e 64 f r
  if base + offset ≥ 2 ^ 64 then .err .rUnsupportedOffset else pure (base + offset)

/-- `Dwarf::ranges_offset(unit, index)` -/
def rangesOffset (e : Endian) (u : UnitState) (s : Sections) (index : Nat) : Out Nat :=
  getListOffset e u.format s.debugRnglists u.bases.rnglists index

/-- `Dwarf::locations_offset(unit, index)` -/
def locationsOffset (e : Endian) (u : UnitState) (s : Sections) (index : Nat) : Out Nat :=
  getListOffset e u.format s.debugLoclists u.bases.loclists index

/-- `Dwarf::ranges_offset_from_raw`: `DW_AT_GNU_ranges_base` is added (wrapping) only in a
pre-DWARF 5 `.dwo` -/
def rangesOffsetFromRaw (u : UnitState) (s : Sections) (raw : Nat) : Nat :=
  if s.fileType = .dwo ∧ u.version < 5 then (raw + u.bases.rnglists) % 2 ^ 64 else raw

end Gimli.Bases
