-- Root of the `Gimli` library: Prim (conventions), Model (mirror of the Rust code),
-- Spec (declarative meaning), Lemmas, Props (property theorems, one file per property).
import Gimli.Prim.Basic
import Gimli.Model.Leb
import Gimli.Model.Ints
