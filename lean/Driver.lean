import Gimli.Drv.All
/-!
`gimli-model`: the executable Model behind a one-line-in, one-line-out protocol.
Each request is `<op> <args…>`; the same line is answered by `gvh worker` from the real crate.
Handlers are tried in order; an op nobody knows answers `bad-op`.
-/
open Gimli

def handlers : List (String → List String → Option String) := Drv.allHandlers

def answer (line : String) : String :=
  match (line.trimAscii.toString.splitOn " ").filter (· ≠ "") with
  | [] => "bad-op"
  | op :: args =>
    match handlers.findSome? (fun h => h op args) with
    | some r => r
    | none => "bad-op"

partial def loop (hin : IO.FS.Stream) (hout : IO.FS.Stream) : IO Unit := do
  let line ← hin.getLine
  if line.isEmpty then return ()
  hout.putStrLn (answer line)
  hout.flush
  loop hin hout

def main : IO Unit := do loop (← IO.getStdin) (← IO.getStdout)
