#!/usr/bin/env python3
"""
run_seeded.py [id …]   — development tool (not a registered check)

For every seeded/<id>/ (patch.diff + meta.json {"property": "Cxx", …}) : make a scratch worktree
of /repo under /var/tmp, apply the patch, run `VERIF_REPO=<worktree> ./check Cxx` for the seeded
property (and, with --all-props, every claimed property), record exit code and VIOLATION lines in
seeded/<id>/result.json, remove the worktree. Finally regenerate seeded/README.md.
Using a worktree (instead of patching /repo in place) keeps /repo untouched while other work
builds against it; the check itself is identical (it rebuilds the harness against $VERIF_REPO).
"""
import json, os, subprocess, sys, shutil, time
ROOT = os.path.dirname(os.path.dirname(os.path.abspath(__file__)))
SEEDED = os.path.join(ROOT, "seeded")


def sh(cmd, **kw):
    return subprocess.run(cmd, stdout=subprocess.PIPE, stderr=subprocess.STDOUT, text=True, **kw)


def run_one(sid, all_props):
    d = os.path.join(SEEDED, sid)
    meta = json.load(open(os.path.join(d, "meta.json")))
    wt = f"/var/tmp/seeded-{sid}"
    sh(["git", "-C", "/repo", "worktree", "remove", "--force", wt])
    r = sh(["git", "-C", "/repo", "worktree", "add", "-f", wt, "HEAD"])
    if r.returncode != 0:
        print(r.stdout)
        return None
    res = {"id": sid, "property": meta["property"], "checks": {}}
    try:
        r = sh(["git", "-C", wt, "apply", os.path.join(d, "patch.diff")])
        if r.returncode != 0:
            res["error"] = "patch does not apply: " + r.stdout[-500:]
            return res
        props = [meta["property"]]
        if all_props:
            props = sorted(f[:-5] for f in os.listdir(os.path.join(ROOT, "props")) if f.endswith(".json"))
        for p in props:
            t0 = time.time()
            env = dict(os.environ, VERIF_REPO=wt)
            r = sh([os.path.join(ROOT, "check"), p, "--tier", "quick"], cwd=ROOT, env=env)
            vio = [l for l in r.stdout.split("\n") if l.startswith("VIOLATION")]
            res["checks"][p] = {"exit": r.returncode, "violations": vio[:4], "n_violations": len(vio), "wall_s": round(time.time() - t0, 1)}
            # keep one replay as illustration
            print(f"  {sid}: ./check {p} -> exit {r.returncode}, {len(vio)} VIOLATION line(s)")
    finally:
        sh(["git", "-C", "/repo", "worktree", "remove", "--force", wt])
        shutil.rmtree(wt, ignore_errors=True)
    json.dump(res, open(os.path.join(d, "result.json"), "w"), indent=1)
    return res


def readme():
    rows = []
    for sid in sorted(os.listdir(SEEDED)):
        d = os.path.join(SEEDED, sid)
        if not os.path.isdir(d) or not os.path.exists(os.path.join(d, "meta.json")):
            continue
        meta = json.load(open(os.path.join(d, "meta.json")))
        res = json.load(open(os.path.join(d, "result.json"))) if os.path.exists(os.path.join(d, "result.json")) else {}
        caught = [p for p, c in res.get("checks", {}).items() if c["exit"] == 1 and c["n_violations"] > 0]
        own = res.get("checks", {}).get(meta["property"], {})
        rows.append(f"| {sid} | {meta['property']} | {meta.get('summary','')} | {meta.get('needs','')} | {'yes' if own.get('exit') == 1 else ('NO' if own else 'not run')} | {', '.join(caught)} |")
    out = "# Seeded breaking changes\n\nEach directory holds `patch.diff` (the change), the independent demonstration, `meta.json` and `result.json` (what `tools/run_seeded.py` observed).\n\n| id | property | change | needs to manifest | caught by its property's quick check | checks that raise a VIOLATION |\n|---|---|---|---|---|---|\n" + "\n".join(rows) + "\n"
    open(os.path.join(SEEDED, "README.md"), "w").write(out)


def main():
    args = [a for a in sys.argv[1:] if not a.startswith("--")]
    all_props = "--all-props" in sys.argv
    ids = args or sorted(x for x in os.listdir(SEEDED) if os.path.isdir(os.path.join(SEEDED, x)))
    for sid in ids:
        run_one(sid, all_props)
    readme()


if __name__ == "__main__":
    main()
