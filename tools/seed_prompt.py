#!/usr/bin/env python3
"""seed_prompt.py <Cxx> <suffix> [focus text] — prints the prompt for an independent seeding sub-agent and creates its worktree"""
import json, sys, subprocess
pid, suf = sys.argv[1], sys.argv[2]
focus = sys.argv[3] if len(sys.argv) > 3 else ""
p = [json.loads(l) for l in open('/verif/properties.jsonl') if json.loads(l)['id'] == pid][0]
d = f"/tmp/seed-{pid}-{suf}"
subprocess.run(["git", "-C", "/repo", "worktree", "add", "-q", "-f", d, "HEAD"])
print(f"""You are a careful adversarial engineer. In `{d}` you have your own scratch git worktree of the Rust crate gimli (a DWARF debug-info reader/writer library, gimli-rs/gimli 0.33.1). Work ONLY inside that directory (do not touch /repo, /verif or any other path; do not look at /verif at all). No network is available; build offline (`cargo build --offline`, `cargo test --offline`).

Here is a semantic property the library is supposed to satisfy:

```
id: {p['id']}
title: {p['title']}
statement: {p['statement']}
quantifier ({', '.join(p['quantifier']['over'])}): {p['quantifier']['text']}
relevant files: {', '.join(p['anchors']['files'])}
```

Your task: produce ONE realistic change to the library source (under `src/`, not tests) that BREAKS this property while the crate still compiles and the ENTIRE existing test suite still passes (`cargo test --offline` in the worktree: all tests green, same as before your change). The change should look like something a real developer could plausibly commit (an optimisation, a refactor, a "simplification", an off-by-one, a wrong constant, a dropped check or reset, a mishandled boundary or version/format case) — not sabotage that ordinary use would expose at once. It must need something specific to manifest: an unusual input or configuration (a particular boundary value, a rarely used form/opcode/version/format/address size/byte order), a multi-step sequence of operations or a particular history of reused state, or two cooperating sites that each look fine alone. {focus}

Deliver, inside `{d}`:
1. the change applied to the working tree (do not commit), and a patch file `{d}/patch.diff` produced with `git diff -- src > patch.diff` (only the source change);
2. a demonstration: a small standalone Rust program `{d}/demo/` (a tiny cargo project with `gimli = {{ path = ".." }}` and an empty `[workspace]` table, copying `../Cargo.lock` in first so it resolves offline) that FAILS (non-zero exit / failed assertion) with your change and PASSES without it, using only the public API. Verify both directions yourself (`git apply -R patch.diff` / `git apply patch.diff`), and verify the whole existing test suite passes with the change applied; delete `demo/target` when done;
3. a short `{d}/NOTES.md`: what the change is, why it breaks the property (which clause), what exact input/configuration/history is needed for it to manifest, why the existing tests do not notice, and the exact commands you ran with their outcomes.

Constraints: exactly one logical change (it may touch two sites if they cooperate); keep it small (a few lines); do not edit or delete tests; do not add cfg flags or features; do not change public signatures. When done, reply with the content of NOTES.md and the patch.""")
