#!/usr/bin/env python3
"""Regenerates MANIFEST.json from props.json (claimed checks) and not_applicable.json."""
import json, os
ROOT = os.path.dirname(os.path.dirname(os.path.abspath(__file__)))
props = {f[:-5]: json.load(open(os.path.join(ROOT, "props", f))) for f in sorted(os.listdir(os.path.join(ROOT, "props"))) if f.endswith(".json")}
na_path = os.path.join(ROOT, "not_applicable.json")
na = json.load(open(na_path)) if os.path.exists(na_path) else []
na = [x for x in na if x["property_id"] not in props]
checks = []
for pid in sorted(props):
    c = props[pid]
    checks.append({
        "property_id": pid,
        "quick_cmd": f"./check {pid} --tier quick",
        "thorough_cmd": f"./check {pid} --tier thorough",
        "evidence_file": f"/verif/evidence/{pid}.json",
        "replay_cmd_template": f"./check {pid} --replay {{path}}",
        "engine": "lean4-proof+correspondence",
        "level_claimed": {"category": "proof", "text": c["level_text"], "design_ref": c.get("design_ref", "DESIGN.md §7 " + pid)},
        "level_note": c["level_note"],
        "technique": c.get("technique", "Lean 4 theorems about a hand-written executable model; model tied to /repo by a differential correspondence run (same request lines to the compiled model and to the real crate) plus a direct property oracle"),
    })
m = {
    "version": 1,
    "setup_cmd": "cd /verif && ./check --setup",
    "hooks": {
        "guard": "gimli_verif",
        "enable": "none needed: every observation uses gimli's public API (RUSTFLAGS='--cfg gimli_verif' would enable hooks if any existed)",
        "baseline_off_cmd": "cd /repo && cargo test --workspace --no-fail-fast --offline",
        "source_commits": [],
        "add_only": True,
    },
    "engines": [{
        "name": "lean4-proof+correspondence",
        "path": "/verif/check",
        "serves_properties": sorted(props),
        "kind_free_text": "Lean 4.33 theorems (lean/Gimli/Props/Cxx.lean) about an executable Lean model (lean/Gimli/Model), compiled to the line server gimli-model; Rust harness gvh answers the same request lines from the real crate built from /repo's working tree; outputs diffed; direct property oracle; known_findings.json",
    }],
    "checks": checks,
    "notes": "See DESIGN.md. Every check rebuilds the harness against /repo's current working tree (cargo path dependency) and re-checks the Lean theorems (lake build is incremental).",
    "not_applicable": na,
}
json.dump(m, open(os.path.join(ROOT, "MANIFEST.json"), "w"), indent=1)
print("MANIFEST.json:", len(checks), "checks,", len(na), "not applicable")
