#!/bin/bash
# C10, thorough tier: a sample of the reader histories (all six reader kinds, incl. the unsafe
# SubRange of EndianReader and the custom CloneStableDeref buffer, clone/split/drop in scrambled
# order) executed under Miri.  Fails on any "Undefined Behavior" report, on a crash, or if the
# replies differ from the Model's.  usage: tools/miri_c10.sh [number of histories]
set -u
ROOT="$(cd "$(dirname "$0")/.." && pwd)"
N="${1:-150}"
cd "$ROOT/harness" || exit 2
if ! cargo +nightly miri --version >/dev/null 2>&1; then
  echo "SKIPPED: cargo +nightly miri is not available in this environment"
  exit 0
fi
GVH=target/debug/gvh
MODEL="$ROOT/lean/.lake/build/bin/gimli-model"
[ -x "$GVH" ] && [ -x "$MODEL" ] || { echo "harness or Model driver not built"; exit 2; }
mkdir -p target/miri-c10
"$GVH" gen C10 --tier thorough --seed "${VERIF_SEED:-1}" 2>/dev/null | grep '^rd-hist' | sed 's/@MODE@/debug/' | awk 'NR%211==0' | head -n "$N" > target/miri-c10/cases.txt
cat "$ROOT/harness/corpus/C10.txt" | grep '^rd-hist' | sed 's/@MODE@/debug/' >> target/miri-c10/cases.txt
"$MODEL" < target/miri-c10/cases.txt > target/miri-c10/model.txt
MIRIFLAGS="-Zmiri-disable-isolation" CARGO_NET_OFFLINE=true cargo +nightly miri run --offline -- worker \
  < target/miri-c10/cases.txt > target/miri-c10/impl.txt 2> target/miri-c10/err.txt
rc=$?
if grep -q "Undefined Behavior" target/miri-c10/err.txt; then
  echo "MIRI: Undefined Behavior reported:"; grep -A12 "Undefined Behavior" target/miri-c10/err.txt | head -40; exit 1
fi
if [ $rc -ne 0 ]; then echo "MIRI: worker exited with $rc"; tail -20 target/miri-c10/err.txt; exit 1; fi
n_cases=$(wc -l < target/miri-c10/cases.txt); n_impl=$(wc -l < target/miri-c10/impl.txt)
[ "$n_cases" = "$n_impl" ] || { echo "MIRI: $n_impl replies for $n_cases histories"; exit 1; }
bad=$(paste -d'\n' target/miri-c10/model.txt target/miri-c10/impl.txt | awk 'NR%2==1{m=$0} NR%2==0{split($0,a," #oracle:"); split(a[2],c," "); if (a[1]!=m || a[2]!="") n++} END{print n+0}')
[ "$bad" = "0" ] || { echo "MIRI: $bad histories differ from the Model or fail an oracle under Miri"; exit 1; }
echo "MIRI: $n_cases reader histories x 6 reader kinds executed under Miri: no undefined behaviour, all replies equal the Model's"
exit 0
