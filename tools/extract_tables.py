#!/usr/bin/env python3
"""
extract_tables.py <repo> <outdir>

Regenerates Lean tables from table-shaped Rust `match` arms of /repo (DESIGN.md §1): the theorems
over those tables are then re-checked by `lake build` on every run, so a change to a table in the
Rust source breaks a proof obligation directly (the first of the two allowed ties), in addition
to the correspondence check. Files are only rewritten when their content changes, so an
unchanged /repo costs no rebuild.
"""
import os, re, sys


def write_if_changed(path, content):
    old = open(path).read() if os.path.exists(path) else None
    if old != content:
        os.makedirs(os.path.dirname(path), exist_ok=True)
        open(path, "w").write(content)


def main():
    repo, out = sys.argv[1], sys.argv[2]
    gens = []
    # per-property generators live in tools/tables_*.py (`def generate(repo, out, write_if_changed)`),
    # so that adding one does not edit this file
    import glob, importlib.util
    for path in sorted(glob.glob(os.path.join(os.path.dirname(os.path.abspath(__file__)), "tables_*.py"))):
        spec = importlib.util.spec_from_file_location(os.path.basename(path)[:-3], path)
        mod = importlib.util.module_from_spec(spec)
        spec.loader.exec_module(mod)
        gens.append(lambda repo, out, mod=mod: mod.generate(repo, out, write_if_changed))
    for g in gens:
        g(repo, out)
    return 0


if __name__ == "__main__":
    sys.exit(main())
