#!/usr/bin/env python3
"""gen_design_table.py — regenerate the as-built table of DESIGN.md section 8 from props/*.json,
known_findings*.json and seeded/*/meta.json (between the TABLE8 markers)."""
import glob, json, os, re
ROOT = os.path.dirname(os.path.dirname(os.path.abspath(__file__)))


def short(t, n):
    t = re.sub(r"\s+", " ", t or "").strip()
    return t if len(t) <= n else t[: n - 1].rstrip() + "…"


def main():
    known = {}
    for f in [os.path.join(ROOT, "known_findings.json")] + sorted(glob.glob(os.path.join(ROOT, "known_findings.d", "*.json"))):
        d = json.load(open(f))
        for e in d.get("findings", []):
            known.setdefault(e["property"], []).append((e["id"], e["status"]))
    rows = ["| id | theorems (Props/Cxx.lean) | partial theorems | carried only by correspondence / oracle | findings (fixed / recorded) |", "|----|----|----|----|----|"]
    for f in sorted(glob.glob(os.path.join(ROOT, "props", "C*.json"))):
        pid = os.path.basename(f)[:-5]
        d = json.load(open(f))
        th = d.get("expected_theorems", [])
        partial = [t for t in th if t.endswith("_partial")]
        fixed = sorted(i for i, s in known.get(pid, []) if s == "fixed")
        rec = sorted(i for i, s in known.get(pid, []) if s != "fixed")
        rows.append("| {} | {} | {} | {} | {} |".format(
            pid, len(th), ", ".join("`%s`" % t for t in partial) or "—", short(d.get("not_modelled", ""), 260) or "—",
            (", ".join(fixed) or "—") + " / " + (", ".join(rec) or "—")))
    table = "\n".join(rows)
    p = os.path.join(ROOT, "DESIGN.md")
    s = open(p).read()
    a, b = "<!-- TABLE8 -->", "<!-- /TABLE8 -->"
    if a in s and b in s:
        s = s[: s.index(a) + len(a)] + "\n" + table + "\n" + s[s.index(b):]
        open(p, "w").write(s)
        print("DESIGN.md section 8 table regenerated:", len(rows) - 2, "properties")
    else:
        print(table)


if __name__ == "__main__":
    main()
