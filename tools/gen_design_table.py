#!/usr/bin/env python3
"""gen_design_table.py — regenerate the as-built table of DESIGN.md section 8 from props/*.json,
known_findings*.json and seeded/*/meta.json (between the TABLE8 markers)."""
import glob, json, os, re
ROOT = os.path.dirname(os.path.dirname(os.path.abspath(__file__)))


def short(t, n):
    t = re.sub(r"\s+", " ", t or "").strip()
    return t if len(t) <= n else t[: n - 1].rstrip() + "…"


def main():
    known = {}
    for f in [os.path.join(ROOT, "known_findings.json")] + sorted(glob.glob(os.path.join(ROOT, "known_findings.d", "*.json"))):
        d = json.load(open(f))
        for e in d.get("findings", []):
            known.setdefault(e["property"], []).append((e["id"], e["status"]))
    rows = ["| id | theorems (Props/Cxx.lean) | partial theorems | carried only by correspondence / oracle | findings (fixed / recorded) |", "|----|----|----|----|----|"]
    for f in sorted(glob.glob(os.path.join(ROOT, "props", "C*.json"))):
        pid = os.path.basename(f)[:-5]
        d = json.load(open(f))
        th = d.get("expected_theorems", [])
        partial = [t for t in th if t.endswith("_partial")]
        fixed = sorted(i for i, s in known.get(pid, []) if s == "fixed")
        rec = sorted(i for i, s in known.get(pid, []) if s != "fixed")
        rows.append("| {} | {} | {} | {} | {} |".format(
            pid, len(th), ", ".join("`%s`" % t for t in partial) or "—", short(d.get("not_modelled", ""), 260) or "—",
            (", ".join(fixed) or "—") + " / " + (", ".join(rec) or "—")))
    table = "\n".join(rows)
    p = os.path.join(ROOT, "DESIGN.md")
    s = open(p).read()
    # per-property "as built" blocks (section 7)
    for f in sorted(glob.glob(os.path.join(ROOT, "props", "C*.json"))):
        pid = os.path.basename(f)[:-5]
        d = json.load(open(f))
        a, b = f"<!-- ASBUILT {pid} -->", f"<!-- /ASBUILT {pid} -->"
        block = [a, f"**As built ({pid}) — generated from `props/{pid}.json`.**", "",
                 "*Modelled:* " + short(d.get("modelled", ""), 4000), "",
                 "*Not modelled (carried by the correspondence run / oracle only, or out of scope):* " + short(d.get("not_modelled", ""), 4000), "",
                 "*Theorems (`lean/Gimli/Props/%s.lean`, all required by the audit):* " % pid + ", ".join("`%s`" % t for t in d.get("expected_theorems", [])), "",
                 "*Level:* " + short(d.get("level_text", ""), 4000), "",
                 "*Trusted / partial:* " + short(d.get("level_note", ""), 4000)]
        if d.get("assumptions"):
            block += ["", "*Assumptions:* " + "; ".join(short(x, 1000) for x in d["assumptions"])]
        block += [b]
        text = "\n".join(block)
        if a in s and b in s:
            s = s[: s.index(a)] + text + s[s.index(b) + len(b):]
        else:
            m = re.search(r"^### %s .*$" % pid, s, re.M)
            if not m:
                continue
            nxt = re.search(r"^(### |## |-{20,})", s[m.end():], re.M)
            end = m.end() + (nxt.start() if nxt else len(s) - m.end())
            s = s[:end].rstrip("\n") + "\n\n" + text + "\n\n" + s[end:]
    a, b = "<!-- TABLE8 -->", "<!-- /TABLE8 -->"
    if a in s and b in s:
        s = s[: s.index(a) + len(a)] + "\n" + table + "\n" + s[s.index(b):]
        open(p, "w").write(s)
        print("DESIGN.md section 8 table regenerated:", len(rows) - 2, "properties")
    else:
        print(table)


if __name__ == "__main__":
    main()
