#!/usr/bin/env python3
"""
verify_seed.py <id> [<id> …]  — development tool

Independent confirmation of a seeded change kept under seeded/<id>/ :
  1. scratch worktree of /repo HEAD under /var/tmp; copy the demo into it (the demo depends on `..`)
  2. demo WITHOUT the patch must pass (exit 0)
  3. the patch must apply; `cargo test --offline` (whole existing suite) must pass WITH the patch
  4. demo WITH the patch must fail (non-zero exit, or no result within 60 s)
Writes the outcome into seeded/<id>/meta.json ("verification") and removes the worktree.
"""
import json, os, shutil, subprocess, sys
ROOT = os.path.dirname(os.path.dirname(os.path.abspath(__file__)))
ENV = dict(os.environ, CARGO_NET_OFFLINE="true", CARGO_TERM_COLOR="never")


def sh(cmd, cwd=None, timeout=None):
    try:
        p = subprocess.run(cmd, cwd=cwd, env=ENV, stdout=subprocess.PIPE, stderr=subprocess.STDOUT, text=True, timeout=timeout)
        return p.returncode, p.stdout
    except subprocess.TimeoutExpired as e:
        return 124, (e.stdout or b"").decode(errors="replace") if isinstance(e.stdout, bytes) else (e.stdout or "")


def verify(sid):
    d = os.path.join(ROOT, "seeded", sid)
    wt = f"/var/tmp/vseed-{sid}"
    sh(["git", "-C", "/repo", "worktree", "remove", "--force", wt])
    rc, out = sh(["git", "-C", "/repo", "worktree", "add", "-f", wt, "HEAD"])
    res = {}
    try:
        shutil.copytree(os.path.join(d, "demo"), os.path.join(wt, "demo"))
        # the worktree has no Cargo.lock checked in for the demo: resolve offline from the repo's lock
        if os.path.exists("/repo/Cargo.lock") and not os.path.exists(os.path.join(wt, "demo", "Cargo.lock")):
            shutil.copy("/repo/Cargo.lock", os.path.join(wt, "demo", "Cargo.lock"))
        rc, out = sh(["cargo", "build", "--offline"], cwd=os.path.join(wt, "demo"), timeout=1800)
        res["demo_builds"] = rc == 0
        rc0, out0 = sh(["cargo", "run", "--offline", "-q"], cwd=os.path.join(wt, "demo"), timeout=600)
        res["demo_without_patch_exit"] = rc0
        rc, out = sh(["git", "-C", wt, "apply", os.path.join(d, "patch.diff")])
        res["patch_applies"] = rc == 0
        rc, out = sh(["cargo", "test", "--offline", "--workspace", "--no-fail-fast"], cwd=wt, timeout=3600)
        passed = sum(int(x.split(" passed")[0].split()[-1]) for x in out.split("\n") if "test result:" in x and " passed" in x)
        failed = sum(int(x.split(" failed")[0].split()[-1]) for x in out.split("\n") if "test result:" in x and " failed" in x)
        res["suite_with_patch"] = {"exit": rc, "passed": passed, "failed": failed}
        rc1, out1 = sh(["cargo", "run", "--offline", "-q"], cwd=os.path.join(wt, "demo"), timeout=600)
        res["demo_with_patch_exit"] = rc1
        res["demo_with_patch_tail"] = out1[-400:]
        res["confirmed"] = bool(res["patch_applies"] and rc == 0 and failed == 0 and rc0 == 0 and rc1 != 0)
    finally:
        sh(["git", "-C", "/repo", "worktree", "remove", "--force", wt])
        shutil.rmtree(wt, ignore_errors=True)
    mp = os.path.join(d, "meta.json")
    meta = json.load(open(mp))
    meta["verification"] = res
    json.dump(meta, open(mp, "w"), indent=1)
    print(sid, "confirmed" if res.get("confirmed") else "NOT CONFIRMED", res)


if __name__ == "__main__":
    for s in sys.argv[1:]:
        verify(s)
