#!/bin/bash
# merge_branch.sh <branch>: merge a builder branch; generated registries and evidence files are
# resolved by regeneration / keeping ours.
set -u
cd "$(dirname "$0")/.."
git merge --no-edit "$1" >/tmp/merge.log 2>&1 || true
for f in harness/src/prop/registry.rs lean/Gimli.lean lean/Gimli/Drv/All.lean MANIFEST.json not_applicable.json; do
  if git status --short "$f" | grep -q '^\(UU\|AA\|DU\|UD\)'; then git checkout --ours "$f" 2>/dev/null; fi
done
for f in $(git diff --name-only --diff-filter=U | grep '^evidence/'); do git checkout --ours "$f" 2>/dev/null || git rm -q --cached "$f"; git add "$f" 2>/dev/null; done
python3 tools/gen_registry.py
python3 tools/gen_manifest.py
git add harness/src/prop/registry.rs lean/Gimli.lean lean/Gimli/Drv/All.lean MANIFEST.json not_applicable.json
echo "remaining conflicts:"; git diff --name-only --diff-filter=U
