"""
C03: the arms of `get_attribute_size` (src/read/abbrev.rs) and of `allow_section_offset`
(src/read/unit.rs), read from the Rust source text -> lean/Gimli/Tables/AttrSize.lean.
Every arm must have one of the recognised shapes; anything else is reported in `stale` (the theorem
`Props.C03.size_table_fresh` then fails) — the parser never guesses.
"""
import os, re


def _body(src, header_re):
    m = re.search(header_re, src)
    if not m:
        return None
    i = src.index("{", m.end() - 1)
    depth, j = 0, i
    while j < len(src):
        if src[j] == "{":
            depth += 1
        elif src[j] == "}":
            depth -= 1
            if depth == 0:
                return src[i + 1:j]
        j += 1
    return None


def _consts(repo, prefix):
    src = open(os.path.join(repo, "src", "constants.rs")).read()
    return {m.group(1): int(m.group(2), 16) for m in re.finditer(r"\b(" + prefix + r"\w+)\s*=\s*0x([0-9a-fA-F]+)\b", src)}


def _arms(match_body):
    """[(pattern text, expression text)] of a match body whose arms are `pats => expr,` or `pats => { … }`"""
    s = re.sub(r"//[^\n]*", "", match_body)
    arms, i = [], 0
    while True:
        m = re.compile(r"\s*((?:\|?\s*[\w:]+\s*)+)=>\s*").match(s, i)
        if not m:
            break
        j = m.end()
        if s[j] == "{":
            depth, k = 0, j
            while True:
                if s[k] == "{":
                    depth += 1
                elif s[k] == "}":
                    depth -= 1
                    if depth == 0:
                        break
                k += 1
            expr = s[j:k + 1]
            i = k + 1
            if i < len(s) and s[i:i + 1] == ",":
                i += 1
        else:
            depth, k = 0, j
            while k < len(s) and not (s[k] == "," and depth == 0):
                if s[k] in "({[":
                    depth += 1
                elif s[k] in ")}]":
                    depth -= 1
                k += 1
            expr = s[j:k]
            i = k + 1
        arms.append((m.group(1), re.sub(r"\s+", "", expr)))
    return arms, s[i:].strip()


def generate(repo, out, write_if_changed):
    stale = []
    forms = _consts(repo, "DW_FORM_")
    ats = _consts(repo, "DW_AT_")
    rows = []  # (form name, code, kind, n)
    src = open(os.path.join(repo, "src", "read", "abbrev.rs")).read()
    body = _body(src, r"fn\s+get_attribute_size\s*\([^)]*\)\s*->\s*Option<u8>\s*\{")
    mm = re.fullmatch(r"\s*match\s+form\s*\{(.*)\}\s*", body or "", re.S)
    default = None
    if not mm:
        stale.append("get_attribute_size: body is not a single `match form`")
    else:
        arms, rest = _arms(mm.group(1))
        if rest:
            stale.append("get_attribute_size: unparsed text: " + rest[:60])
        refaddr = "{Some(ifencoding.version==2{encoding.address_size}else{encoding.format.word_size()})}"
        for pats, expr in arms:
            names = [p.strip().replace("constants::", "") for p in pats.split("|") if p.strip()]
            if expr == "Some(encoding.address_size)":
                kind = ("addr", 0)
            elif expr == "Some(encoding.format.word_size())":
                kind = ("word", 0)
            elif re.fullmatch(r"Some\((\d+)\)", expr):
                kind = ("fixed", int(re.fullmatch(r"Some\((\d+)\)", expr).group(1)))
            elif expr == refaddr:
                kind = ("refaddr", 0)
            elif expr == "None":
                kind = ("variable", 0)
            else:
                stale.append("get_attribute_size: arm not understood: " + expr[:80])
                continue
            for n in names:
                if n == "_":
                    default = kind
                elif n not in forms:
                    stale.append("get_attribute_size: unknown form " + n)
                else:
                    rows.append((n, forms[n], kind[0], kind[1]))
        if default != ("variable", 0):
            stale.append("get_attribute_size: the `_` arm is not `None`")
        if len({r[1] for r in rows}) != len(rows):
            stale.append("get_attribute_size: a form appears in two arms")
    # allow_section_offset
    usrc = open(os.path.join(repo, "src", "read", "unit.rs")).read()
    body = _body(usrc, r"fn\s+allow_section_offset\s*\(\s*name:\s*constants::DwAt,\s*version:\s*u16\s*\)\s*->\s*bool\s*\{")
    mm = re.fullmatch(r"\s*match\s+name\s*\{(.*)\}\s*", body or "", re.S)
    always, v23 = [], []
    if not mm:
        stale.append("allow_section_offset: body is not a single `match name`")
    else:
        arms, rest = _arms(mm.group(1))
        if rest:
            stale.append("allow_section_offset: unparsed text: " + rest[:60])
        seen_default = False
        for pats, expr in arms:
            names = [p.strip().replace("constants::", "") for p in pats.split("|") if p.strip()]
            for n in names:
                if n == "_":
                    seen_default = True
                    if expr != "false":
                        stale.append("allow_section_offset: the `_` arm is not `false`")
                elif n not in ats:
                    stale.append("allow_section_offset: unknown attribute " + n)
                elif expr == "true":
                    always.append((n, ats[n]))
                elif expr == "version==2||version==3":
                    v23.append((n, ats[n]))
                else:
                    stale.append("allow_section_offset: arm not understood: " + expr[:80])
        if not seen_default:
            stale.append("allow_section_offset: no `_` arm")
    if stale:
        return stale
    q = lambda s: '"' + s.replace('"', "'") + '"'
    lean = "-- GENERATED by tools/tables_c03.py (via tools/extract_tables.py) from src/read/abbrev.rs, src/read/unit.rs, src/constants.rs — do not edit\n"
    lean += "namespace Gimli.Tables.AttrSize\n\n"
    lean += "/-- how an arm of `get_attribute_size` computes the size -/\ninductive Kind where\n  | addr | word | refaddr | variable\n  | fixed (n : Nat)\n  deriving DecidableEq, Repr\n\n"
    lean += "/-- one row per form named in an arm: (constant name, form code, kind); forms not listed take the `_ => None` arm -/\n"
    lean += "def sizeArms : List (String × Nat × Kind) := [\n" + ",\n".join(
        f"  ({q(n)}, 0x{c:x}, " + (f".fixed {k}" if kind == "fixed" else "." + kind) + ")" for n, c, kind, k in rows) + "]\n\n"
    lean += "/-- `allow_section_offset`: attribute names with `=> true` -/\n"
    lean += "def offsetAlways : List (String × Nat) := [" + ", ".join(f"({q(n)}, 0x{c:x})" for n, c in always) + "]\n\n"
    lean += "/-- `allow_section_offset`: attribute names with `=> version == 2 || version == 3` -/\n"
    lean += "def offsetV2V3 : List (String × Nat) := [" + ", ".join(f"({q(n)}, 0x{c:x})" for n, c in v23) + "]\n\n"
    lean += "/-- non-empty iff the Rust source could not be read as a table (the freshness theorem then fails) -/\n"
    lean += "def stale : List String := [" + ", ".join(q(x) for x in stale) + "]\n\n"
    lean += "end Gimli.Tables.AttrSize\n"
    write_if_changed(os.path.join(out, "AttrSize.lean"), lean)
    return []
