#!/usr/bin/env python3
"""
Development tool (not a registered command): detection-power self-test for C10 and C18.
Applies each realistic mutant below to a scratch worktree of the repository under test, runs
`VERIF_REPO=<scratch> ./check <prop>`, expects exit status 1 (a VIOLATION), restores the file.
  usage: tools/selftest_c10_c18.py [C10|C18] [name-substring]
The scratch worktree (/var/tmp/gimli-mut-C10C18) is created from /repo's HEAD and removed at the end.
"""
import os, subprocess, sys
ROOT = os.path.dirname(os.path.dirname(os.path.abspath(__file__)))
REPO = os.environ.get("VERIF_REPO", "/repo")
SCRATCH = "/var/tmp/gimli-mut-C10C18"

M = [
 # (property, name, file, old, new)
 ("C10", "split-does-not-advance", "src/read/endian_reader.rs",
  "            r.range.truncate(len);\n            self.range.skip(len);", "            r.range.truncate(len);"),
 ("C10", "slice-truncate-accepts-len+1", "src/read/endian_slice.rs",
  "    fn truncate(&mut self, len: usize) -> Result<()> {\n        if self.slice.len() < len {",
  "    fn truncate(&mut self, len: usize) -> Result<()> {\n        if self.slice.len() + 1 < len {"),
 ("C10", "reader-truncate-accepts-len+1", "src/read/endian_reader.rs",
  "    fn truncate(&mut self, len: usize) -> Result<()> {\n        if self.len() < len {",
  "    fn truncate(&mut self, len: usize) -> Result<()> {\n        if self.len() + 1 < len {"),
 ("C10", "offset_from-reversed", "src/read/endian_reader.rs",
  "        debug_assert!(ptr + self.bytes().len() <= base_ptr + base.bytes().len());\n        ptr - base_ptr",
  "        base_ptr.wrapping_sub(ptr)"),
 ("C10", "relocation-applied-to-read_u32", "src/read/relocate.rs",
  "    #[inline]\n    fn split(&mut self, len: Self::Offset) -> Result<Self> {",
  "    fn read_u32(&mut self) -> Result<u32> {\n        let offset = self.reader.offset_from(&self.section);\n        let value = self.reader.read_u32()?;\n        self.relocate.relocate_address(offset, u64::from(value)).map(|v| v as u32)\n    }\n\n    #[inline]\n    fn split(&mut self, len: Self::Offset) -> Result<Self> {"),
 ("C10", "lookup_offset_id-strict-upper-bound", "src/read/endian_reader.rs",
  "        if id >= self_id && id <= self_id + self_len {", "        if id >= self_id && id < self_id + self_len {"),
 ("C10", "relocate-split-wrong-half", "src/read/relocate.rs",
  "        other.reader.truncate(len)?;\n        self.reader.skip(len)?;\n        Ok(other)",
  "        other.reader.skip(len)?;\n        self.reader.truncate(len)?;\n        Ok(other)"),
 ("C10", "subrange-read_slice-does-not-move-ptr", "src/read/endian_reader.rs",
  "            let bytes = unsafe { slice::from_raw_parts(self.ptr, len) };\n            self.skip(len);",
  "            let bytes = unsafe { slice::from_raw_parts(self.ptr, len) };\n            self.len -= len;"),
 ("C10", "null-terminated-slice-keeps-nul", "src/read/reader.rs",
  "        let val = self.split(idx)?;\n        self.skip(Self::Offset::from_u8(1))?;", "        let val = self.split(idx)?;"),
 ("C10", "slice-empty-detaches-again (C10-1 reintroduced)", "src/read/endian_slice.rs",
  "        self.slice = &self.slice[..0];", "        self.slice = &[];"),
 ("C18", "write_offset_at-not-recorded", "src/write/relocate.rs",
  "        self.relocate(Relocation {\n            offset,\n            size,\n            target: RelocationTarget::Section(section),\n            addend: val as i64,\n            eh_pe: None,\n        });\n        self.writer_mut().write_udata_at(offset, 0, size)",
  "        self.writer_mut().write_udata_at(offset, val as u64, size)"),
 ("C18", "addend-sign", "src/write/relocate.rs",
  "            offset: self.len(),\n            size,\n            target: RelocationTarget::Section(section),\n            addend: val as i64,",
  "            offset: self.len(),\n            size,\n            target: RelocationTarget::Section(section),\n            addend: -(val as i64),"),
 ("C18", "read_sized_offset-not-relocated", "src/read/relocate.rs",
  "        let value = self.reader.read_sized_offset(size)?;\n        self.relocate.relocate_offset(offset, value)",
  "        let value = self.reader.read_sized_offset(size)?;\n        let _ = offset;\n        Ok(value)"),
 ("C18", "DW_FORM_strp-read-with-plain-word", "src/read/unit.rs",
  "            constants::DW_FORM_strp => {\n                let offset = input.read_offset(encoding.format)?;",
  "            constants::DW_FORM_strp => {\n                let offset = input.read_word(encoding.format)?;"),
 ("C18", "DW_AT_stmt_list-written-plainly", "src/write/unit.rs",
  "                        w.write_offset(\n                            line_program.0,\n                            SectionId::DebugLine,\n                            unit.format().word_size(),\n                        )?;",
  "                        w.write_udata(line_program.0 as u64, unit.format().word_size())?;"),
 ("C18", "DW_LNE_set_address-read-plainly", "src/read/line.rs",
  "                    let address = instr_rest.read_address(header.address_size())?;\n                    Ok(LineInstruction::SetAddress(address))",
  "                    let address = instr_rest.read_uint(header.address_size() as usize)?;\n                    Ok(LineInstruction::SetAddress(address))"),
 ("C18", "eh-pointer-symbol-size-wrong", "src/write/relocate.rs",
  "                    constants::DW_EH_PE_sdata4 => 4,", "                    constants::DW_EH_PE_sdata4 => 8,"),
 ("C18", "symbol-addend-dropped", "src/write/relocate.rs",
  "                    target: RelocationTarget::Symbol(symbol),\n                    addend,\n                    eh_pe: None,",
  "                    target: RelocationTarget::Symbol(symbol),\n                    addend: 0,\n                    eh_pe: None,"),
]


def main():
    props = [a for a in sys.argv[1:] if a in ("C10", "C18")] or ["C10", "C18"]
    sub = [a for a in sys.argv[1:] if a not in ("C10", "C18")]
    subprocess.run(["git", "-C", REPO, "worktree", "remove", "--force", SCRATCH], capture_output=True)
    subprocess.run(["git", "-C", REPO, "worktree", "add", SCRATCH, "HEAD"], check=True, capture_output=True)
    missed = 0
    try:
        for prop, name, f, old, new in M:
            if prop not in props or (sub and not any(s in name for s in sub)):
                continue
            p = os.path.join(SCRATCH, f)
            src = open(p).read()
            if old not in src:
                print(f"{prop} {name}: PATTERN NOT FOUND (the source changed)")
                missed += 1
                continue
            open(p, "w").write(src.replace(old, new, 1))
            r = subprocess.run([os.path.join(ROOT, "check"), prop], cwd=ROOT, env=dict(os.environ, VERIF_REPO=SCRATCH), capture_output=True, text=True)
            open(p, "w").write(src)
            v = [l for l in r.stdout.split("\n") if l.startswith("VIOLATION")]
            ok = r.returncode == 1 and v
            print(f"{prop} {name}: {'caught' if ok else 'MISSED'} (exit {r.returncode}, {len(v)} violation line(s))")
            missed += 0 if ok else 1
    finally:
        subprocess.run(["git", "-C", REPO, "worktree", "remove", "--force", SCRATCH], capture_output=True)
        # leave the evidence of the unchanged tree behind
        for prop in props:
            subprocess.run([os.path.join(ROOT, "check"), prop], cwd=ROOT, capture_output=True)
    return 1 if missed else 0


if __name__ == "__main__":
    sys.exit(main())
