#!/bin/bash
# C10, thorough tier: the reader histories and whole-section parses (all six reader kinds)
# executed in an AddressSanitizer build of the harness + gimli.  Fails on any sanitizer report,
# on a crash, or if the replies differ from the Model's.  usage: tools/asan_c10.sh [number of cases]
set -u
ROOT="$(cd "$(dirname "$0")/.." && pwd)"
N="${1:-60000}"
cd "$ROOT/harness" || exit 2
if ! cargo +nightly --version >/dev/null 2>&1; then
  echo "SKIPPED: no nightly toolchain (needed for -Zsanitizer=address)"; exit 0
fi
MODEL="$ROOT/lean/.lake/build/bin/gimli-model"
[ -x target/debug/gvh ] && [ -x "$MODEL" ] || { echo "harness or Model driver not built"; exit 2; }
if ! RUSTFLAGS="-Zsanitizer=address" CARGO_NET_OFFLINE=true cargo +nightly build --offline \
     --target x86_64-unknown-linux-gnu --target-dir target/asan > target/asan-build.log 2>&1; then
  if grep -q "sanitizer.*not supported\|can't find crate for .std" target/asan-build.log; then
    echo "SKIPPED: AddressSanitizer build is not possible in this environment"; exit 0
  fi
  echo "ASAN: build failed"; tail -20 target/asan-build.log; exit 1
fi
BIN=target/asan/x86_64-unknown-linux-gnu/debug/gvh
target/debug/gvh gen C10 --tier thorough --seed "${VERIF_SEED:-1}" 2>/dev/null | grep '^rd-hist\|^rd-parse' | sed 's/@MODE@/debug/' \
  | awk -v n="$N" 'BEGIN{srand(7)} {a[NR]=$0} END{step=(NR>n)?NR/n:1; for(i=1;i<=NR;i+=step) print a[int(i)]}' > target/asan/cases.txt
grep '^rd-hist' "$ROOT/harness/corpus/C10.txt" | sed 's/@MODE@/debug/' >> target/asan/cases.txt
"$MODEL" < target/asan/cases.txt > target/asan/model.txt
ASAN_OPTIONS=detect_leaks=1:abort_on_error=0 "$BIN" worker < target/asan/cases.txt > target/asan/impl.txt 2> target/asan/err.txt
rc=$?
if grep -q "AddressSanitizer\|LeakSanitizer" target/asan/err.txt; then
  echo "ASAN: sanitizer report:"; grep -A25 "AddressSanitizer\|LeakSanitizer" target/asan/err.txt | head -60; exit 1
fi
if [ $rc -ne 0 ]; then echo "ASAN: worker exited with $rc"; tail -20 target/asan/err.txt; exit 1; fi
n_cases=$(wc -l < target/asan/cases.txt); n_impl=$(wc -l < target/asan/impl.txt)
[ "$n_cases" = "$n_impl" ] || { echo "ASAN: $n_impl replies for $n_cases cases"; exit 1; }
bad=$(paste -d'\n' target/asan/model.txt target/asan/impl.txt | awk 'NR%2==1{m=$0} NR%2==0{split($0,a," #oracle:"); split(a[2],c," "); split(a[1],w," "); same=(a[1]==m)||(w[1]=="normal"&&m=="normal"); if (!same || a[2]!="") n++} END{print n+0}')
[ "$bad" = "0" ] || { echo "ASAN: $bad cases differ from the Model or fail an oracle in the sanitizer build"; exit 1; }
echo "ASAN: $n_cases histories / whole-section parses x 6 reader kinds executed under AddressSanitizer (leak detection on): no report, all replies equal the Model's"
exit 0
