#!/usr/bin/env python3
"""
Self-test of detection power for C14 (development tool, not a registered command; DESIGN 4.6).
Applies realistic breaking edits of src/write/cfi.rs / src/write/writer.rs to a scratch worktree of
/repo (/var/tmp/gimli-mut-C14, removed afterwards), runs `VERIF_REPO=<scratch> ./check C14` for
each and prints exit code, number of VIOLATION lines and the failure signatures.
  python3 tools/selftest_C14.py [mutant-name ...]
Last full run (2026-09-23, quick tier, seed 1): all 13 mutants caught (exit 1):
  M1 advance_loc `<=0x40`, M2 val_offset sign test reversed, M3 padding without the length field,
  M4 CIE equality/hash ignoring instructions (oracle class dedup), M5 data offset not
  re-multiplied (accepted-inexpressible), M6 offset_extended_sf chosen by the unfactored sign
  (bytes only: semantically equivalent for gimli's reader), M7 restore `<=0x40` (bytes only),
  M8 advance_loc2 `<=0x10000`, M9 FDE length written with the full encoding byte, M10 code delta
  not re-multiplied, M11 pcrel `wrapping_add`, M12 .eh_frame CIE pointer off by 4,
  M13 CIE offset not remembered (CIE written per FDE).
M14 / M15 re-introduce the two repaired defects (CIE padding from word_size; .eh_frame register as
ULEB128) and were added after the repairs 6ecac83 / f783db3.
"""
import subprocess, sys, os, re, shutil
MUT='/var/tmp/gimli-mut-C14'
WT=os.path.dirname(os.path.dirname(os.path.abspath(__file__)))
F=MUT+'/src/write/cfi.rs'
def sh(cmd, **kw): return subprocess.run(cmd, shell=True, text=True, stdout=subprocess.PIPE, stderr=subprocess.STDOUT, **kw)
muts = {
 'M1-advance-loc-le': [("    if delta < 0x40 {\n        w.write_u8(constants::DW_CFA_advance_loc.0", "    if delta <= 0x40 {\n        w.write_u8(constants::DW_CFA_advance_loc.0")],
 'M2-valoffset-sign': [("""                let offset = factored_data_offset(offset, cie.data_alignment_factor)?;
                if offset < 0 {
                    w.write_u8(constants::DW_CFA_val_offset_sf.0)?;""","""                let offset = factored_data_offset(offset, cie.data_alignment_factor)?;
                if offset > 0 {
                    w.write_u8(constants::DW_CFA_val_offset_sf.0)?;""")],
 'M3-padding-no-length-field': [("""        write_nop(w, w.len() - offset, encoding.address_size)?;

        let length = (w.len() - length_base) as u64;
        w.write_initial_length_at(length_offset, length, encoding.format)?;

        Ok(())""","""        write_nop(w, w.len() - length_base, encoding.address_size)?;

        let length = (w.len() - length_base) as u64;
        w.write_initial_length_at(length_offset, length, encoding.format)?;

        Ok(())""")],
 'M14-padding-word-size': [("""        write_nop(w, w.len() - offset, encoding.address_size)?;

        let length = (w.len() - length_base) as u64;
        w.write_initial_length_at(length_offset, length, encoding.format)?;

        Ok(offset)""","""        write_nop(
            w,
            encoding.format.word_size() as usize + w.len() - length_base,
            encoding.address_size,
        )?;

        let length = (w.len() - length_base) as u64;
        w.write_initial_length_at(length_offset, length, encoding.format)?;

        Ok(offset)""")],
 'M15-eh-ra-uleb': [("        if encoding.version == 1 {\n            let register = self.return_address_register.0 as u8;","        if !eh_frame && encoding.version == 1 {\n            let register = self.return_address_register.0 as u8;")],
 'M4-dedup-ignores-instructions': [("""#[derive(Debug, Clone, PartialEq, Eq, Hash)]
pub struct CommonInformationEntry {""","""#[derive(Debug, Clone)]
pub struct CommonInformationEntry {"""),("""impl CommonInformationEntry {
    /// Create a new common information entry.""","""impl PartialEq for CommonInformationEntry {
    fn eq(&self, o: &Self) -> bool {
        self.encoding == o.encoding
            && self.code_alignment_factor == o.code_alignment_factor
            && self.data_alignment_factor == o.data_alignment_factor
            && self.return_address_register == o.return_address_register
            && self.personality == o.personality
            && self.lsda_encoding == o.lsda_encoding
            && self.fde_address_encoding == o.fde_address_encoding
            && self.signal_trampoline == o.signal_trampoline
    }
}
impl Eq for CommonInformationEntry {}
impl core::hash::Hash for CommonInformationEntry {
    fn hash<H: core::hash::Hasher>(&self, h: &mut H) {
        self.encoding.hash(h);
        self.code_alignment_factor.hash(h);
        self.data_alignment_factor.hash(h);
        self.return_address_register.hash(h);
    }
}
impl CommonInformationEntry {
    /// Create a new common information entry.""")],
 'M11-pcrel-add': [("                        val.wrapping_sub(offset)","                        val.wrapping_add(offset)")],
 'M12-eh-cie-pointer-off-by-4': [("            w.write_udata((w.len() - cie_offset) as u64, 4)?;","            w.write_udata((w.len() - cie_offset + 4) as u64, 4)?;")],
 'M13-cie-written-per-fde': [("                    cie_offsets[cie_index] = Some(offset);\n","")],
 'M5-data-offset-no-remultiply': [("""    if offset != factored_offset * factor {
        return Err(Error::InvalidFrameDataOffset(offset));
    }""","")],
 'M6-offset-sf-unfactored-sign': [("""                let offset = factored_data_offset(offset, cie.data_alignment_factor)?;
                if offset < 0 {
                    w.write_u8(constants::DW_CFA_offset_extended_sf.0)?;""","""                let unfactored = offset;
                let offset = factored_data_offset(offset, cie.data_alignment_factor)?;
                if unfactored < 0 {
                    w.write_u8(constants::DW_CFA_offset_extended_sf.0)?;""")],
 'M7-restore-boundary': [("                if register.0 < 0x40 {\n                    w.write_u8(constants::DW_CFA_restore.0", "                if register.0 <= 0x40 {\n                    w.write_u8(constants::DW_CFA_restore.0")],
 'M8-advance-loc2-boundary': [("    } else if delta < 0x10000 {", "    } else if delta <= 0x10000 {")],
 'M9-fde-pcrel-length': [("""            w.write_eh_pointer_data(
                self.length.into(),
                cie.fde_address_encoding.format(),""","""            w.write_eh_pointer_data(
                self.length.into(),
                cie.fde_address_encoding,""")],
 'M10-code-delta-no-exact-check': [("""    if delta != factored_delta * factor {
        return Err(Error::InvalidFrameCodeOffset(offset));
    }""","")],
}
only = sys.argv[1:]
sh(f"git -C /repo worktree remove --force {MUT}")
print(sh(f"git -C /repo worktree add {MUT} HEAD").stdout[-200:])
F2=MUT+'/src/write/writer.rs'
orig=open(F).read()
orig2=open(F2).read()
results={}
for name, edits in muts.items():
    if only and name not in only: continue
    s=orig; s2=orig2
    ok=True
    for a,b in edits:
        if s.count(a)==1: s=s.replace(a,b)
        elif s2.count(a)==1: s2=s2.replace(a,b)
        else:
            print(name, 'PATTERN COUNT', s.count(a), s2.count(a)); ok=False
    if not ok: continue
    open(F,'w').write(s); open(F2,'w').write(s2)
    chk=sh(f"cd {MUT} && cargo check --offline 2>&1 | grep -E '^error' -A 8 | head -20")
    if chk.stdout.strip():
        print(name,'DOES NOT COMPILE',chk.stdout); continue
    r=sh(f"cd {WT} && VERIF_REPO={MUT} ./check C14", timeout=7200)
    out=r.stdout
    viol=[l for l in out.split('\n') if l.startswith('VIOLATION') or l.startswith('ERROR')]
    last=out.strip().split('\n')[-1]
    # signatures
    sigs=[]
    try:
        import json
        ev=json.load(open(WT+'/evidence/C14.json'))
        sigs=[(f['kind'],f['signature'],f['count']) for f in ev['coverage']['failures']]
    except Exception as ex: sigs=[str(ex)]
    results[name]=(r.returncode, len(viol))
    print('=====',name,'exit',r.returncode,'violations',len(viol)); print('   ',last); 
    for x in sigs: print('     ',x)
    sys.stdout.flush()
open(F,'w').write(orig); open(F2,'w').write(orig2)
print(sh(f"git -C /repo worktree remove --force {MUT}").stdout)
print(results)
