#!/bin/bash
# run_all.sh [tier]: every claimed check, one after the other; summary lines only
cd "$(dirname "$0")/.."
for f in props/C*.json; do
  id=$(basename $f .json)
  ./check $id --tier ${1:-quick} 2>&1 | grep -E "^(VIOLATION|ERROR|C[0-9]+:)|KNOWN-FINDING" | cut -c1-220
done
