//! C12, range / location list component — read-to-write conversion of lists
//! (`RangeList::from`, `LocationList::from` through `write::Dwarf::from`).
//!
//! Implementation side of the `c12-rnglist` / `c12-loclist` ops (grammar:
//! `lean/Gimli/Drv/C12Lists.lean`): a minimal unit is built around the raw list bytes (root DIE with
//! optional `DW_AT_low_pc` / `DW_AT_addr_base`, one child DIE whose `DW_AT_ranges` /
//! `DW_AT_location` is the given offset), parsed with `gimli::read`, converted with
//! `write::Dwarf::from`, written, and the written list sections are reported — the Model
//! (`Model/ConvLists.lean` + C16's writer Model) predicts the same line. Direct oracle
//! (independent of the Model): the output is parsed again and the resolution of the DIE's list
//! through `attr_ranges` / `attr_locations` must equal the resolution of the input's
//! (`ranges-differ`), and the number of raw entries must be the input's minus the empty ones
//! (`entry-lost`).
use crate::prop::Ctx;
use crate::util::{hex, unhex, werr, Rng};
use gimli::constants as k;
use gimli::read::{self, EndianSlice};
use gimli::write::{self, Address, EndianVec, Sections};
use gimli::{Encoding, Format, RunTimeEndian, SectionId};

type R<'a> = EndianSlice<'a, RunTimeEndian>;

struct Case {
    loc: bool,
    big: bool,
    enc: Encoding,
    low: Option<u64>,
    reject: Option<u64>,
    ab: u64,
    addr: Vec<u8>,
    offset: u64,
    sec: Vec<u8>,
}

fn p_u64(s: &str) -> Option<u64> {
    if s.is_empty() || !s.bytes().all(|b| b.is_ascii_digit()) {
        return None;
    }
    s.parse().ok()
}

fn p_opt(s: &str) -> Option<Option<u64>> {
    if s == "-" { Some(None) } else { p_u64(s).map(Some) }
}

fn parse(loc: bool, a: &[&str]) -> Option<Case> {
    let [m, c, low, rej, ab, addr, off, sec] = a else { return None };
    if *m != "debug" && *m != "release" {
        return None;
    }
    let f: Vec<&str> = c.split(',').collect();
    if f.len() != 4 {
        return None;
    }
    let big = match f[0] {
        "le" => false,
        "be" => true,
        _ => return None,
    };
    let asz = p_u64(f[1])?;
    let format = match f[2] {
        "32" => Format::Dwarf32,
        "64" => Format::Dwarf64,
        _ => return None,
    };
    let v = p_u64(f[3])?;
    if !matches!(asz, 1 | 2 | 4 | 8) || !(2..=5).contains(&v) {
        return None;
    }
    let low_v = p_opt(low)?;
    if low_v.map_or(false, |l| l > mask(asz as u8)) {
        // the attribute is written with the unit's address size
        return None;
    }
    Some(Case {
        loc,
        big,
        enc: Encoding { format, version: v as u16, address_size: asz as u8 },
        low: p_opt(low)?,
        reject: p_opt(rej)?,
        ab: p_u64(ab)?,
        addr: unhex(addr)?,
        offset: p_u64(off)?,
        sec: unhex(sec)?,
    })
}

fn put_uint(out: &mut Vec<u8>, big: bool, size: usize, v: u64) {
    let le = v.to_le_bytes();
    if big {
        out.extend(le[..size].iter().rev());
    } else {
        out.extend(&le[..size]);
    }
}

fn put_uleb(out: &mut Vec<u8>, mut v: u64) {
    loop {
        let b = (v & 0x7f) as u8;
        v >>= 7;
        if v == 0 {
            out.push(b);
            return;
        }
        out.push(b | 0x80);
    }
}

/// (.debug_abbrev, .debug_info) of the input unit
fn build_unit(c: &Case) -> (Vec<u8>, Vec<u8>) {
    let w: usize = if c.enc.format == Format::Dwarf64 { 8 } else { 4 };
    let v = c.enc.version;
    let off_form: u64 = if v >= 4 { 0x17 } else if w == 8 { 0x07 } else { 0x06 };
    let with_ab = c.ab != 0;
    let mut ab = Vec::new();
    // abbreviation 1: DW_TAG_compile_unit, has children
    put_uleb(&mut ab, 1);
    put_uleb(&mut ab, 0x11);
    ab.push(1);
    if c.low.is_some() {
        put_uleb(&mut ab, 0x11); // DW_AT_low_pc
        put_uleb(&mut ab, 0x01); // DW_FORM_addr
    }
    if with_ab {
        put_uleb(&mut ab, 0x73); // DW_AT_addr_base
        put_uleb(&mut ab, 0x17); // DW_FORM_sec_offset
    }
    ab.extend([0, 0]);
    // abbreviation 2: the DIE that owns the list
    put_uleb(&mut ab, 2);
    put_uleb(&mut ab, if c.loc { 0x34 } else { 0x0b });
    ab.push(0);
    put_uleb(&mut ab, if c.loc { 0x02 } else { 0x55 });
    put_uleb(&mut ab, off_form);
    ab.extend([0, 0]);
    ab.push(0);
    let mut body = Vec::new();
    put_uint(&mut body, c.big, 2, v as u64);
    if v >= 5 {
        body.push(0x01); // DW_UT_compile
        body.push(c.enc.address_size);
        put_uint(&mut body, c.big, w, 0);
    } else {
        put_uint(&mut body, c.big, w, 0);
        body.push(c.enc.address_size);
    }
    body.push(1);
    if let Some(low) = c.low {
        put_uint(&mut body, c.big, c.enc.address_size as usize, low);
    }
    if with_ab {
        put_uint(&mut body, c.big, w, c.ab);
    }
    body.push(2);
    put_uint(&mut body, c.big, w, c.offset);
    body.push(0);
    let mut info = Vec::new();
    if w == 8 {
        put_uint(&mut info, c.big, 4, 0xffff_ffff);
    }
    put_uint(&mut info, c.big, w, body.len() as u64);
    info.extend(body);
    (ab, info)
}

fn stable_byte(b: u8) -> bool {
    (0x30..=0x6f).contains(&b) || b == 0x12 || b == 0x22 || b == 0x96 || b == 0x9c || b == 0x9f
}

/// what a list attribute resolves to: every result of the cooked iterator
type Resolved = Vec<Result<(u64, u64, Vec<u8>), String>>;

struct Seen {
    resolved: Result<Resolved, String>,
    /// raw entries: (is it empty in the converter's sense?, data bytes)
    raw: Result<Vec<(bool, Vec<u8>)>, String>,
}

fn rname(e: &read::Error) -> String {
    crate::util::rerr(e)
}

/// resolve the list of the first child DIE that carries the attribute
fn observe(loc: bool, dwarf: &read::Dwarf<R>, cap: usize) -> Result<Seen, String> {
    let header = dwarf.units().next().map_err(|e| format!("units:{}", rname(&e)))?.ok_or("no-unit")?;
    let unit = dwarf.unit(header).map_err(|e| format!("unit:{}", rname(&e)))?;
    let mut cursor = unit.entries();
    let mut val = None;
    let mut steps = 0;
    while let Some(die) = cursor.next_dfs().map_err(|e| format!("dfs:{}", rname(&e)))? {
        steps += 1;
        if steps > 1000 {
            return Err("too-many-dies".into());
        }
        if let Some(v) = die.attr_value(if loc { k::DW_AT_location } else { k::DW_AT_ranges }) {
            val = Some(v);
            break;
        }
    }
    let Some(val) = val else { return Err("no-attribute".into()) };
    let lookup = |i| dwarf.address(&unit, i).ok();
    if !loc {
        let off = match dwarf.attr_ranges_offset(&unit, val) {
            Ok(Some(o)) => o,
            other => return Err(format!("ranges-attr:{other:?}")),
        };
        let resolved = (|| {
            let mut it = dwarf.ranges(&unit, off).map_err(|e| rname(&e))?;
            let mut out: Resolved = Vec::new();
            loop {
                match it.next() {
                    Ok(Some(r)) => out.push(Ok((r.begin, r.end, vec![]))),
                    Ok(None) => break,
                    Err(e) => out.push(Err(rname(&e))),
                }
                if out.len() > cap {
                    return Err("no-end".to_string());
                }
            }
            Ok(out)
        })();
        let raw = (|| {
            let mut it = dwarf.raw_ranges(&unit, off).map_err(|e| rname(&e))?;
            let mut out = Vec::new();
            loop {
                use read::RawRngListEntry as E;
                match it.next() {
                    Ok(Some(r)) => out.push((
                        match r {
                            E::AddressOrOffsetPair { begin, end } | E::OffsetPair { begin, end } | E::StartEnd { begin, end } => begin == end,
                            E::StartLength { length, .. } | E::StartxLength { length, .. } => length == 0,
                            E::StartxEndx { begin, end } => match (lookup(begin), lookup(end)) {
                                (Some(b), Some(e)) => b == e,
                                _ => false,
                            },
                            _ => false,
                        },
                        vec![],
                    )),
                    Ok(None) => break,
                    Err(e) => return Err(rname(&e)),
                }
                if out.len() > cap {
                    return Err("no-end".to_string());
                }
            }
            Ok(out)
        })();
        Ok(Seen { resolved, raw })
    } else {
        let off = match dwarf.attr_locations_offset(&unit, val) {
            Ok(Some(o)) => o,
            other => return Err(format!("locations-attr:{other:?}")),
        };
        let resolved = (|| {
            let mut it = dwarf.locations(&unit, off).map_err(|e| rname(&e))?;
            let mut out: Resolved = Vec::new();
            loop {
                match it.next() {
                    Ok(Some(r)) => out.push(Ok((r.range.begin, r.range.end, r.data.0.slice().to_vec()))),
                    Ok(None) => break,
                    Err(e) => out.push(Err(rname(&e))),
                }
                if out.len() > cap {
                    return Err("no-end".to_string());
                }
            }
            Ok(out)
        })();
        let raw = (|| {
            let mut it = dwarf.raw_locations(&unit, off).map_err(|e| rname(&e))?;
            let mut out = Vec::new();
            loop {
                use read::RawLocListEntry as E;
                match it.next() {
                    Ok(Some(r)) => out.push(match r {
                        E::AddressOrOffsetPair { begin, end, data } | E::OffsetPair { begin, end, data } | E::StartEnd { begin, end, data } => {
                            (begin == end, data.0.slice().to_vec())
                        }
                        E::StartLength { length, data, .. } | E::StartxLength { length, data, .. } => (length == 0, data.0.slice().to_vec()),
                        E::StartxEndx { begin, end, data } => (
                            match (lookup(begin), lookup(end)) {
                                (Some(b), Some(e)) => b == e,
                                _ => false,
                            },
                            data.0.slice().to_vec(),
                        ),
                        E::DefaultLocation { data } => (false, data.0.slice().to_vec()),
                        _ => (false, vec![]),
                    }),
                    Ok(None) => break,
                    Err(e) => return Err(rname(&e)),
                }
                if out.len() > cap {
                    return Err("no-end".to_string());
                }
            }
            Ok(out)
        })();
        Ok(Seen { resolved, raw })
    }
}

fn conv_name(e: &write::ConvertError) -> String {
    match e {
        write::ConvertError::Read(r) => format!("Read.{}", rname(r)),
        write::ConvertError::Write(w) => format!("Write.{}", werr(w)),
        other => {
            let s = format!("{other:?}");
            s.split(|ch: char| ch == '(' || ch == ' ' || ch == '{').next().unwrap_or("").to_string()
        }
    }
}

fn run(c: &Case) -> String {
    if c.enc.version < 5 && c.ab != 0 {
        // DW_AT_addr_base is only put into DWARF 5 units
        return "bad-op".into();
    }
    let endian = if c.big { RunTimeEndian::Big } else { RunTimeEndian::Little };
    let (abbrev, info) = build_unit(c);
    let legacy = c.enc.version <= 4;
    let empty: &[u8] = &[];
    let dwarf: read::Dwarf<R> = match read::Dwarf::load(|id| -> Result<R, ()> {
        Ok(EndianSlice::new(
            match id {
                SectionId::DebugAbbrev => &abbrev[..],
                SectionId::DebugInfo => &info[..],
                SectionId::DebugAddr => &c.addr[..],
                SectionId::DebugRanges if !c.loc && legacy => &c.sec[..],
                SectionId::DebugRngLists if !c.loc && !legacy => &c.sec[..],
                SectionId::DebugLoc if c.loc && legacy => &c.sec[..],
                SectionId::DebugLocLists if c.loc && !legacy => &c.sec[..],
                _ => empty,
            },
            endian,
        ))
    }) {
        Ok(d) => d,
        Err(_) => return "ok input-rejected load".into(),
    };
    let cap = c.sec.len() + 4;
    let seen_in = match observe(c.loc, &dwarf, cap) {
        Ok(s) => s,
        Err(why) => return format!("ok input-rejected {why}"),
    };
    // expressions outside the encoding-stable set are C12's expression component
    if c.loc {
        // the raw entries up to the first error, as the Model scans them
        let mut unstable = false;
        {
            let header = dwarf.units().next().ok().flatten().unwrap();
            let unit = dwarf.unit(header).unwrap();
            if let Ok(mut it) = dwarf.raw_locations(&unit, gimli::LocationListsOffset(c.offset as usize)) {
                let mut n = 0;
                while let Ok(Some(r)) = it.next() {
                    use read::RawLocListEntry as E;
                    let d = match r {
                        E::AddressOrOffsetPair { data, .. }
                        | E::OffsetPair { data, .. }
                        | E::StartEnd { data, .. }
                        | E::StartLength { data, .. }
                        | E::StartxLength { data, .. }
                        | E::StartxEndx { data, .. }
                        | E::DefaultLocation { data } => data.0.slice().to_vec(),
                        _ => vec![],
                    };
                    if !d.iter().all(|b| stable_byte(*b)) {
                        unstable = true;
                    }
                    n += 1;
                    if n > cap {
                        break;
                    }
                }
            }
        }
        if unstable {
            return "ok skipped-expression".into();
        }
    }
    let reject = c.reject;
    let conv = |a: u64| if Some(a) == reject { None } else { Some(Address::Constant(a)) };
    let mut out = match write::Dwarf::from(&dwarf, &conv) {
        Ok(d) => d,
        Err(e) => return format!("ok failed:convert:{}", conv_name(&e)),
    };
    let mut sections = Sections::new(EndianVec::new(endian));
    if let Err(e) = out.write(&mut sections) {
        return format!("ok failed:write:{}", werr(&e));
    }
    let (leg, v5) = if c.loc {
        (sections.debug_loc.slice().to_vec(), sections.debug_loclists.slice().to_vec())
    } else {
        (sections.debug_ranges.slice().to_vec(), sections.debug_rnglists.slice().to_vec())
    };
    let mut reply = format!("ok {} {}", hex(&leg), hex(&v5));
    // ---- direct oracle: the output means what the input means
    let dwarf2: read::Dwarf<R> = read::Dwarf::load(|id| -> Result<R, ()> {
        Ok(EndianSlice::new(
            match id {
                SectionId::DebugAbbrev => sections.debug_abbrev.slice(),
                SectionId::DebugInfo => sections.debug_info.slice(),
                SectionId::DebugRanges => sections.debug_ranges.slice(),
                SectionId::DebugRngLists => sections.debug_rnglists.slice(),
                SectionId::DebugLoc => sections.debug_loc.slice(),
                SectionId::DebugLocLists => sections.debug_loclists.slice(),
                SectionId::DebugStr => sections.debug_str.slice(),
                SectionId::DebugLineStr => sections.debug_line_str.slice(),
                SectionId::DebugLine => sections.debug_line.slice(),
                _ => empty,
            },
            endian,
        ))
    })
    .unwrap();
    let oracle = match observe(c.loc, &dwarf2, leg.len() + v5.len() + 4) {
        Err(why) => Some(format!("output-unreadable {why}")),
        Ok(seen_out) => {
            if seen_in.resolved != seen_out.resolved {
                Some(format!("ranges-differ input={:?} output={:?}", seen_in.resolved, seen_out.resolved))
            } else {
                match (&seen_in.raw, &seen_out.raw) {
                    (Ok(i), Ok(o)) => {
                        let kept = i.iter().filter(|(e, _)| !*e).count();
                        if kept != o.len() {
                            Some(format!("entry-lost input={} non-empty={} output={}", i.len(), kept, o.len()))
                        } else {
                            None
                        }
                    }
                    (i, o) => Some(format!("entry-lost raw input={:?} output={:?}", i.as_ref().map(|v| v.len()), o.as_ref().map(|v| v.len()))),
                }
            }
        }
    };
    if let Some(o) = oracle {
        reply.push_str(" #oracle:");
        reply.push_str(&o);
    }
    reply
}

pub fn handle(op: &str, a: &[&str]) -> Option<String> {
    match op {
        "c12-rnglist" => {
            let c = parse(false, a)?;
            let r = run(&c);
            if r == "bad-op" { None } else { Some(r) }
        }
        "c12-loclist" => {
            let c = parse(true, a)?;
            let r = run(&c);
            if r == "bad-op" { None } else { Some(r) }
        }
        _ => None,
    }
}

// ---------- generator ----------

#[derive(Clone, Debug)]
enum Ent {
    Pair(u64, u64, Vec<u8>),
    Base(u64),
    Basex(u64),
    XX(u64, u64, Vec<u8>),
    XL(u64, u64, Vec<u8>),
    OP(u64, u64, Vec<u8>),
    DL(Vec<u8>),
    SE(u64, u64, Vec<u8>),
    SL(u64, u64, Vec<u8>),
}

fn mask(asz: u8) -> u64 {
    if asz >= 8 { u64::MAX } else { (1u64 << (8 * asz as u32)) - 1 }
}

fn put_data(out: &mut Vec<u8>, loc: bool, big: bool, v5: bool, d: &[u8]) {
    if !loc {
        return;
    }
    if v5 {
        put_uleb(out, d.len() as u64);
    } else {
        put_uint(out, big, 2, d.len() as u64);
    }
    out.extend(d);
}

/// the encoding of a list in the section the version selects (bare pairs up to DWARF 4, DW_RLE_* /
/// DW_LLE_* in DWARF 5); entries that do not exist in the format are skipped
fn encode(loc: bool, big: bool, enc: Encoding, l: &[Ent]) -> Vec<u8> {
    let asz = enc.address_size as usize;
    let v5 = enc.version >= 5;
    let m = mask(enc.address_size);
    let mut o = Vec::new();
    for e in l {
        if !v5 {
            match e {
                Ent::Pair(b, e, d) => {
                    put_uint(&mut o, big, asz, *b & m);
                    put_uint(&mut o, big, asz, *e & m);
                    put_data(&mut o, loc, big, false, d);
                }
                Ent::Base(a) => {
                    put_uint(&mut o, big, asz, m);
                    put_uint(&mut o, big, asz, *a & m);
                }
                _ => {}
            }
        } else {
            let code = |r: u8, l: u8| if loc { l } else { r };
            match e {
                Ent::Pair(..) => {}
                Ent::Basex(i) => {
                    o.push(1);
                    put_uleb(&mut o, *i);
                }
                Ent::XX(b, e, d) => {
                    o.push(2);
                    put_uleb(&mut o, *b);
                    put_uleb(&mut o, *e);
                    put_data(&mut o, loc, big, true, d);
                }
                Ent::XL(b, l, d) => {
                    o.push(3);
                    put_uleb(&mut o, *b);
                    put_uleb(&mut o, *l);
                    put_data(&mut o, loc, big, true, d);
                }
                Ent::OP(b, e, d) => {
                    o.push(4);
                    put_uleb(&mut o, *b);
                    put_uleb(&mut o, *e);
                    put_data(&mut o, loc, big, true, d);
                }
                Ent::DL(d) => {
                    if loc {
                        o.push(5);
                        put_data(&mut o, loc, big, true, d);
                    }
                }
                Ent::Base(a) => {
                    o.push(code(5, 6));
                    put_uint(&mut o, big, asz, *a & m);
                }
                Ent::SE(b, e, d) => {
                    o.push(code(6, 7));
                    put_uint(&mut o, big, asz, *b & m);
                    put_uint(&mut o, big, asz, *e & m);
                    put_data(&mut o, loc, big, true, d);
                }
                Ent::SL(b, l, d) => {
                    o.push(code(7, 8));
                    put_uint(&mut o, big, asz, *b & m);
                    put_uleb(&mut o, *l);
                    put_data(&mut o, loc, big, true, d);
                }
            }
        }
    }
    if v5 {
        o.push(0);
    } else {
        put_uint(&mut o, big, asz, 0);
        put_uint(&mut o, big, asz, 0);
    }
    o
}

struct G<'a> {
    rng: &'a mut Rng,
}

impl<'a> G<'a> {
    /// boundary addresses: 0, 1, the all-ones marker, the tombstones -1 / -2, values whose sums wrap
    fn address(&mut self, asz: u8) -> u64 {
        let m = mask(asz);
        match self.rng.below(12) {
            0 => 0,
            1 => 1,
            2 => m,
            3 => m - 1,
            4 => m - self.rng.below(0x20),
            5 => m >> 1,
            6 => (m >> 1) + 1,
            7 => self.rng.boundary_u64() & m,
            8 => (0x1000 * self.rng.below(16)) & m,
            _ => self.rng.below(0x100) & m,
        }
    }
    fn offset(&mut self, asz: u8) -> u64 {
        match self.rng.below(8) {
            0 => self.rng.boundary_u64(),
            1 => u64::MAX - self.rng.below(0x20),
            2 => 0,
            3 => self.address(asz),
            _ => self.rng.below(0x200),
        }
    }
    fn expr(&mut self, loc: bool) -> Vec<u8> {
        if !loc {
            return vec![];
        }
        match self.rng.below(40) {
            0 => vec![],
            // an expression whose re-encoding differs (DW_OP_constu 5 -> DW_OP_lit5): skipped on both sides
            1 => vec![0x10, 0x05],
            2 => vec![0x9c],
            3 => vec![0x31, 0x9f],
            4 => vec![0x50, 0x12, 0x22],
            _ => vec![0x50 + self.rng.below(32) as u8],
        }
    }
    fn entry(&mut self, loc: bool, enc: Encoding, slots: u64) -> Ent {
        let asz = enc.address_size;
        let d = self.expr(loc);
        let idx = |g: &mut G| match g.rng.below(10) {
            0 => slots,
            1 => g.rng.boundary_u64(),
            _ => g.rng.below(slots.max(1)),
        };
        if enc.version <= 4 {
            match self.rng.below(6) {
                0 => Ent::Base(self.address(asz)),
                _ => {
                    let b = self.address(asz);
                    let e = match self.rng.below(4) {
                        0 => b,
                        1 => b.wrapping_add(1 + self.rng.below(0x40)) & mask(asz),
                        _ => self.address(asz),
                    };
                    // (all-ones, x) is a base address entry, (0, 0) ends the list: both are what they are
                    Ent::Pair(b, e, d)
                }
            }
        } else {
            match self.rng.below(if loc { 9 } else { 8 }) {
                0 => Ent::Base(self.address(asz)),
                1 => Ent::Basex(idx(self)),
                2 => {
                    let b = idx(self);
                    let e = if self.rng.chance(1, 4) { b } else { idx(self) };
                    Ent::XX(b, e, d)
                }
                3 => {
                    let b = idx(self);
                    Ent::XL(b, if self.rng.chance(1, 5) { 0 } else { self.offset(asz) }, d)
                }
                4 => {
                    let b = self.offset(asz);
                    let e = if self.rng.chance(1, 4) { b } else { self.offset(asz) };
                    Ent::OP(b, e, d)
                }
                5 => {
                    let b = self.address(asz);
                    let e = if self.rng.chance(1, 4) { b } else { self.address(asz) };
                    Ent::SE(b, e, d)
                }
                6 | 7 => Ent::SL(self.address(asz), if self.rng.chance(1, 5) { 0 } else { self.offset(asz) }, d),
                _ => Ent::DL(d),
            }
        }
    }
}

fn line(loc: bool, big: bool, enc: Encoding, low: Option<u64>, reject: Option<u64>, ab: u64, addr: &[u8], off: u64, sec: &[u8]) -> String {
    let o = |v: Option<u64>| v.map(|x| x.to_string()).unwrap_or_else(|| "-".into());
    format!(
        "{} @MODE@ {},{},{},{} {} {} {ab} {} {off} {}",
        if loc { "c12-loclist" } else { "c12-rnglist" },
        if big { "be" } else { "le" },
        enc.address_size,
        if enc.format == Format::Dwarf64 { 64 } else { 32 },
        enc.version,
        o(low),
        o(reject),
        hex(addr),
        hex(sec)
    )
}

/// every entry kind × boundary values × versions × formats × address sizes × low_pc
/// absent / zero / non-zero / tombstone, each followed by an ordinary entry
fn gen_sweep(emit: &mut dyn FnMut(String)) {
    let mut n = 0u64;
    for &version in &[2u16, 3, 4, 5] {
        for &format in &[Format::Dwarf32, Format::Dwarf64] {
            for &asz in &[4u8, 8] {
                let enc = Encoding { format, version, address_size: asz };
                let m = mask(asz);
                if format == Format::Dwarf64 && (version == 2 || version == 3) {
                    continue;
                }
                let pool = [0u64, 1, 0x10, m - 1, m];
                // .debug_addr: four slots after an 8-byte header
                let slots = [0x1000u64, 0x1000, m - 1, 0x2000];
                for &low in &[None, Some(0u64), Some(0x1000), Some(m), Some(m - 1)] {
                    n += 1;
                    let big = n % 2 == 0;
                    let mut addr = vec![0u8; 8];
                    for s in slots {
                        put_uint(&mut addr, big, asz as usize, s);
                    }
                    for loc in [false, true] {
                        let d = if loc { vec![0x51] } else { vec![] };
                        let mut ents: Vec<Ent> = Vec::new();
                        for &a in &pool {
                            ents.push(Ent::Base(a));
                            for &b in &pool {
                                if version <= 4 {
                                    ents.push(Ent::Pair(a, b, d.clone()));
                                } else {
                                    ents.push(Ent::OP(a, b, d.clone()));
                                    ents.push(Ent::SE(a, b, d.clone()));
                                    ents.push(Ent::SL(a, b, d.clone()));
                                }
                            }
                        }
                        if version >= 5 {
                            for i in 0..6u64 {
                                ents.push(Ent::Basex(i));
                                for j in 0..5u64 {
                                    ents.push(Ent::XX(i, j, d.clone()));
                                }
                                ents.push(Ent::XL(i, 0, d.clone()));
                                ents.push(Ent::XL(i, 0x20, d.clone()));
                                ents.push(Ent::XL(i, u64::MAX, d.clone()));
                            }
                            if loc {
                                ents.push(Ent::DL(d.clone()));
                            }
                        }
                        for e in ents {
                            let follower = if version <= 4 { Ent::Pair(0x10, 0x20, d.clone()) } else { Ent::OP(1, 2, d.clone()) };
                            let sec = encode(loc, big, enc, &[e, follower]);
                            let (ab, hdr) = if version >= 5 { (8, vec![0u8; 12]) } else { (0, vec![]) };
                            let mut s = hdr.clone();
                            s.extend(sec);
                            emit(line(loc, big, enc, low, None, ab, if version >= 5 { &addr } else { &[] }, hdr.len() as u64, &s));
                        }
                    }
                }
            }
        }
    }
}

pub fn gen(ctx: &Ctx, emit: &mut dyn FnMut(String)) {
    gen_sweep(emit);
    let mut rng = ctx.rng(1216);
    let n = ctx.n(12_000, 300_000);
    for i in 0..n {
        let mut g = G { rng: &mut rng };
        let loc = g.rng.chance(1, 2);
        let big = g.rng.chance(1, 3);
        let enc = Encoding {
            format: if g.rng.chance(1, 3) { Format::Dwarf64 } else { Format::Dwarf32 },
            version: 2 + g.rng.below(4) as u16,
            address_size: *g.rng.pick(&[4u8, 8, 4, 8, 4, 8, 2, 1]),
        };
        let asz = enc.address_size;
        let low = match g.rng.below(10) {
            0 | 1 | 2 => None,
            3 | 4 => Some(0),
            5 | 6 | 7 => Some(0x1000 * (1 + g.rng.below(15)) & mask(asz)),
            8 => Some(g.address(asz)),
            _ => Some(mask(asz) - g.rng.below(3)),
        };
        // .debug_addr (DWARF 5 only): header, then `slots` addresses
        let v5 = enc.version >= 5;
        let slots = if v5 { g.rng.below(5) } else { 0 };
        let (ab, addr) = if v5 {
            let ab: u64 = if g.rng.chance(1, 4) { 0 } else { 8 };
            let mut a = vec![0u8; ab as usize];
            for _ in 0..slots {
                let v = g.address(asz);
                put_uint(&mut a, big, asz as usize, v);
            }
            (ab, a)
        } else {
            (0, vec![])
        };
        let cnt = match g.rng.below(8) {
            0 => 0,
            1 | 2 => 1,
            _ => 1 + g.rng.below(5),
        };
        let ents: Vec<Ent> = (0..cnt).map(|_| g.entry(loc, enc, slots)).collect();
        let mut list = encode(loc, big, enc, &ents);
        // ~12 % malformed: truncations and byte edits (range lists only: expressions stay stable)
        if i % 8 == 0 && !list.is_empty() {
            match g.rng.below(3) {
                0 => {
                    let k = g.rng.below(list.len() as u64) as usize;
                    list.truncate(k);
                }
                1 if !loc => {
                    let k = g.rng.below(list.len() as u64) as usize;
                    list[k] = *g.rng.pick(&[0u8, 1, 4, 7, 8, 0x7f, 0x80, 0xff]);
                }
                _ => {
                    let k = g.rng.below(list.len() as u64) as usize;
                    list.truncate(k);
                }
            }
        }
        let pre = if v5 { vec![0u8; 12] } else if g.rng.chance(1, 3) { g.rng.bytes_below(9) } else { vec![] };
        let mut sec = pre.clone();
        sec.extend(&list);
        if g.rng.chance(1, 3) {
            sec.extend(g.rng.bytes_below(6));
        }
        let off = match g.rng.below(30) {
            0 => sec.len() as u64,
            1 => sec.len() as u64 + 1,
            _ => pre.len() as u64,
        };
        // `convert_address` refuses one address now and then: one that occurs, or the unit's low_pc
        let reject = match g.rng.below(25) {
            0 => low,
            1 => ents.iter().find_map(|e| match e {
                Ent::Pair(b, ..) | Ent::SE(b, ..) | Ent::SL(b, ..) | Ent::Base(b) => Some(*b & mask(asz)),
                _ => None,
            }),
            2 => Some(0x1000),
            _ => None,
        };
        emit(line(loc, big, enc, low, reject, ab, &addr, off, &sec));
    }
}
