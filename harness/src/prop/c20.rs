//! C20 — reused contexts, buffers, iterators and caches behave like fresh ones.
//!
//! Every op runs a *history* on reused state and the same steps on fresh state, and replies
//! `ok same` (what the Model answers: `Props/C20.lean` proves reuse = fresh for the modelled state
//! machines) or carries ` #oracle:<class> …` naming the first step whose result depends on what
//! the state was used for before.
use crate::asm::*;
use crate::prop::{Ctx, Tier};
use crate::util::{hex, unhex, rerr, Rng};
use gimli::read::{
    AbbreviationsCacheStrategy, BaseAddresses, DebugAbbrev, DebugFrame, DebugInfo, EndianSlice, Reader, UnwindContext,
    UnwindContextStorage, UnwindSection, UnwindTableRow,
};
use gimli::{LittleEndian, Register};

type R<'a> = EndianSlice<'a, LittleEndian>;

/// custom small storage: 2 rows on the stack, 3 register rules per row
struct Small;
impl<T: gimli::ReaderOffset> UnwindContextStorage<T> for Small {
    type Rules = [(Register, gimli::read::RegisterRule<T>); 3];
    type Stack = [UnwindTableRow<T, Self>; 2];
}

fn row_text<T: gimli::ReaderOffset, S: UnwindContextStorage<T>>(row: &UnwindTableRow<T, S>) -> String {
    let mut regs: Vec<String> = row.registers().map(|(r, rule)| format!("{}={:?}", r.0, rule)).collect();
    regs.sort();
    format!("[{:x}-{:x} cfa={:?} {} args={}]", row.start_address(), row.end_address(), row.cfa(), regs.join(","), row.saved_args_size())
}

/// all rows of FDE number `k` of the section evaluated on `ctx`, as text; errors by name
fn fde_rows<S: UnwindContextStorage<usize>>(section: &DebugFrame<R<'_>>, k: usize, ctx: &mut UnwindContext<usize, S>) -> String {
    let bases = BaseAddresses::default();
    let mut entries = section.entries(&bases);
    let mut n = 0usize;
    loop {
        match entries.next() {
            Ok(Some(gimli::read::CieOrFde::Fde(p))) => {
                if n == k {
                    let fde = match p.parse(|s, b, o| s.cie_from_offset(b, o)) {
                        Ok(f) => f,
                        Err(e) => return format!("E{}", rerr(&e)),
                    };
                    let mut out = String::new();
                    match fde.rows(section, &bases, ctx) {
                        Ok(mut table) => {
                            for _ in 0..10_000 {
                                match table.next_row() {
                                    Ok(Some(row)) => out.push_str(&row_text(row)),
                                    Ok(None) => break,
                                    Err(e) => {
                                        out.push_str(&format!("E{}", rerr(&e)));
                                        break;
                                    }
                                }
                            }
                        }
                        Err(e) => out.push_str(&format!("init-E{}", rerr(&e))),
                    }
                    // also the lookup helper that leaves the context mid-table
                    let a = fde.initial_address().wrapping_add(fde.len() / 2);
                    match fde.unwind_info_for_address(section, &bases, ctx, a) {
                        Ok(row) => out.push_str(&format!(" at={}", row_text(row))),
                        Err(e) => out.push_str(&format!(" at=E{}", rerr(&e))),
                    }
                    return out;
                }
                n += 1;
            }
            Ok(Some(_)) => {}
            Ok(None) => return "no-such-fde".into(),
            Err(e) => return format!("iterE{}", rerr(&e)),
        }
    }
}

fn build_frame(pool: &str) -> Option<(Vec<u8>, usize)> {
    let mut sec = Vec::new();
    let mut n = 0;
    for item in pool.split(';') {
        let p: Vec<&str> = item.split('/').collect();
        if p.len() != 4 {
            return None;
        }
        let cie_off = sec.len() as u32;
        let cie_insns = unhex(p[0])?;
        if cie_insns.is_empty() {
            // a CIE with ZERO-LENGTH initial instructions (no nop padding either: `debug_frame_cie`
            // pads to the address size, and padding is instructions): length 9 = id, version,
            // augmentation "", code factor 1, data factor -8, return address register 16
            sec.extend_from_slice(&[9, 0, 0, 0, 0xff, 0xff, 0xff, 0xff, 1, 0, 1, 0x78, 16]);
        } else {
            sec.extend(debug_frame_cie(8, 1, -8, 16, &cie_insns));
        }
        sec.extend(debug_frame_fde(8, cie_off, p[2].parse().ok()?, p[3].parse().ok()?, &unhex(p[1])?));
        n += 1;
    }
    Some((sec, n))
}

fn ctx_history<S: UnwindContextStorage<usize>>(sec: &[u8], hist: &[usize], mk: impl Fn() -> UnwindContext<usize, S>) -> Option<String> {
    let mut section = DebugFrame::new(sec, LittleEndian);
    section.set_address_size(8);
    let mut reused = mk();
    for (step, &k) in hist.iter().enumerate() {
        let a = fde_rows(&section, k, &mut reused);
        let mut fresh = mk();
        let b = fde_rows(&section, k, &mut fresh);
        if a != b {
            return Some(format!("reuse-differs step={step} fde={k} reused={a} fresh={b}"));
        }
    }
    None
}

// ---- entries -------------------------------------------------------------------------------

/// a small unit: abbrevs with differing attribute counts, a few levels of nesting
fn sample_unit(rng: &mut Rng) -> (Vec<u8>, Vec<u8>) {
    // abbrev codes: 1 = CU (children, 2 attrs), 2 = subprogram (children, 3 attrs), 3 = variable (no children, 1 attr),
    // 4 = base type (no children, 0 attrs), 5 = block-carrying entry (no children, 4 attrs),
    // 6 = structure (children, DW_AT_sibling ref4 + name; its child list may be empty)
    let abbrev: Vec<u8> = vec![
        1, 0x11, 1, 0x03, 0x08, 0x13, 0x0b, 0, 0, //
        2, 0x2e, 1, 0x03, 0x08, 0x3a, 0x0b, 0x3b, 0x05, 0, 0, //
        3, 0x34, 0, 0x03, 0x08, 0, 0, //
        4, 0x24, 0, 0, 0, //
        5, 0x0b, 0, 0x02, 0x0a, 0x3a, 0x0b, 0x1c, 0x0f, 0x03, 0x08, 0, 0, //
        6, 0x13, 1, 0x01, 0x13, 0x03, 0x08, 0, 0, //
        0,
    ];
    // a structure with a valid DW_AT_sibling (unit header is 11 bytes) and 0-2 children
    fn structure(dies: &mut Vec<u8>, rng: &mut Rng) {
        let k = if rng.chance(1, 2) { 0 } else { 1 + rng.below(2) as usize };
        let sib = (11 + dies.len() + 7 + 3 * k + 1) as u32;
        dies.push(6);
        dies.extend_from_slice(&sib.to_le_bytes());
        dies.extend_from_slice(&[b'S', 0]);
        for _ in 0..k {
            dies.extend_from_slice(&[3, b'm', 0]);
        }
        dies.push(0);
    }
    let mut dies = Vec::new();
    dies.extend_from_slice(&[1, b'u', 0, 0x0c]);
    let n = 2 + rng.below(4);
    for i in 0..n {
        match rng.below(5) {
            4 => structure(&mut dies, rng),
            0 => {
                dies.extend_from_slice(&[2, b'f', b'0' + i as u8, 0, 1, 0x10, 0x00]);
                for _ in 0..rng.below(3) {
                    dies.extend_from_slice(&[3, b'v', 0]);
                }
                if rng.chance(1, 3) {
                    structure(&mut dies, rng);
                }
                if rng.chance(1, 2) {
                    dies.extend_from_slice(&[5, 2, 0x91, 0x70, 7]);
                    dies.extend(uleb(rng.boundary_u64()));
                    dies.extend_from_slice(&[b'b', 0]);
                }
                dies.push(0);
            }
            1 => dies.extend_from_slice(&[3, b'g', b'0' + i as u8, 0]),
            2 => dies.push(4),
            _ => {
                dies.extend_from_slice(&[5, 0, 1]);
                dies.extend(uleb(i));
                dies.extend_from_slice(&[0]);
            }
        }
    }
    dies.push(0);
    let mut body = vec![4, 0, 0, 0, 0, 0, 8];
    body.extend(dies);
    let mut unit = (body.len() as u32).to_le_bytes().to_vec();
    unit.extend(body);
    (abbrev, unit)
}

fn entry_text(e: &gimli::read::DebuggingInformationEntry<R<'_>>) -> String {
    let attrs: Vec<String> = e.attrs().iter().map(|a| format!("{:?}={:?}", a.name(), a.raw_value())).collect();
    format!("@{} d{} {:?} c{} [{}]", e.offset().0, e.depth(), e.tag(), e.has_children(), attrs.join(","))
}

fn entry_history(abbrev: &[u8], unit: &[u8], truncs: &[usize]) -> Option<String> {
    let debug_abbrev = DebugAbbrev::new(abbrev, LittleEndian);
    // one reused buffer across several passes over (truncated copies of) the unit, incl. passes that end in an error
    let mut reused = gimli::read::DebuggingInformationEntry::null();
    for (pass, &t) in truncs.iter().enumerate() {
        let cut = &unit[..t.min(unit.len())];
        let info = DebugInfo::new(cut, LittleEndian);
        let Ok(Some(header)) = info.units().next() else { continue };
        let Ok(abbrevs) = header.abbreviations(&debug_abbrev) else { continue };
        let Ok(mut raw_a) = header.entries_raw(&abbrevs, None) else { continue };
        let Ok(mut raw_b) = header.entries_raw(&abbrevs, None) else { continue };
        for step in 0..1000 {
            if raw_a.is_empty() {
                break;
            }
            let mut fresh = gimli::read::DebuggingInformationEntry::null();
            let ra = raw_a.read_entry(&mut reused);
            let rb = raw_b.read_entry(&mut fresh);
            let ta = match &ra {
                Ok(true) => entry_text(&reused),
                Ok(false) => format!("null {}", entry_text(&reused)),
                Err(e) => format!("E{}", rerr(e)),
            };
            let tb = match &rb {
                Ok(true) => entry_text(&fresh),
                Ok(false) => format!("null {}", entry_text(&fresh)),
                Err(e) => format!("E{}", rerr(e)),
            };
            if ta != tb {
                return Some(format!("buffer-differs pass={pass} step={step} reused={ta} fresh={tb}"));
            }
            if ra.is_err() {
                break;
            }
        }
    }
    None
}

fn tree_walk<'a>(node: gimli::read::EntriesTreeNode<'_, '_, R<'a>>, budget: &mut i64, out: &mut Vec<String>) -> gimli::Result<()> {
    out.push(entry_text(node.entry()));
    let mut ch = node.children();
    while *budget > 0 {
        *budget -= 1;
        match ch.next()? {
            Some(c) => tree_walk(c, budget, out)?,
            None => break,
        }
    }
    Ok(())
}

fn tree_history(abbrev: &[u8], unit: &[u8], budgets: &[i64]) -> Option<String> {
    let debug_abbrev = DebugAbbrev::new(abbrev, LittleEndian);
    let info = DebugInfo::new(unit, LittleEndian);
    let header = info.units().next().ok()??;
    let abbrevs = header.abbreviations(&debug_abbrev).ok()?;
    let full = {
        let mut t = header.entries_tree(&abbrevs, None).ok()?;
        let mut out = Vec::new();
        let mut b = i64::MAX;
        let r = t.root().and_then(|n| tree_walk(n, &mut b, &mut out));
        (out, r.is_ok())
    };
    // the tree shares one entry buffer between all its nodes: a complete traversal must visit exactly the entries
    // (offset, depth, tag, attributes) that a cursor visits in depth-first order
    if full.1 {
        let mut cursor = header.entries(&abbrevs);
        let mut dfs = Vec::new();
        let mut ok = true;
        loop {
            match cursor.next_dfs() {
                Ok(Some(e)) => dfs.push(entry_text(e)),
                Ok(None) => break,
                Err(_) => {
                    ok = false;
                    break;
                }
            }
        }
        if ok && dfs != full.0 {
            let k = dfs.iter().zip(full.0.iter()).take_while(|(a, b)| a == b).count();
            return Some(format!("tree-differs-from-cursor tree={} cursor={} first_difference={k}", full.0.len(), dfs.len()));
        }
    }
    let mut tree = header.entries_tree(&abbrevs, None).ok()?;
    for (i, &bud) in budgets.iter().enumerate() {
        // partial traversal, abandoned
        let mut out = Vec::new();
        let mut b = bud;
        let _ = tree.root().and_then(|n| tree_walk(n, &mut b, &mut out));
        // re-root: must give the full traversal again
        let mut out = Vec::new();
        let mut b = i64::MAX;
        let r = tree.root().and_then(|n| tree_walk(n, &mut b, &mut out));
        if (out.clone(), r.is_ok()) != full {
            return Some(format!("reroot-differs round={i} after_budget={bud} got={} want={}", out.len(), full.0.len()));
        }
    }
    None
}

/// iterator clones: clone at position k, continue both; each must yield the suffix of a straight run
fn clone_history(abbrev: &[u8], unit: &[u8], line: &[u8], frame: &[u8], k: usize) -> Option<String> {
    // DIE cursor
    {
        let debug_abbrev = DebugAbbrev::new(abbrev, LittleEndian);
        let info = DebugInfo::new(unit, LittleEndian);
        if let Ok(Some(header)) = info.units().next() {
            if let Ok(abbrevs) = header.abbreviations(&debug_abbrev) {
                let straight: Vec<String> = {
                    let mut c = header.entries(&abbrevs);
                    let mut v = Vec::new();
                    while let Ok(Some(e)) = c.next_dfs() {
                        v.push(entry_text(e));
                    }
                    v
                };
                let mut c = header.entries(&abbrevs);
                for _ in 0..k {
                    let _ = c.next_dfs();
                }
                let mut d = c.clone();
                let mut va = Vec::new();
                let mut vb = Vec::new();
                // interleave
                loop {
                    let a = c.next_dfs().ok().flatten().map(entry_text);
                    let b = d.next_dfs().ok().flatten().map(entry_text);
                    if a.is_none() && b.is_none() {
                        break;
                    }
                    va.extend(a);
                    vb.extend(b);
                }
                let want: Vec<String> = straight.iter().skip(k).cloned().collect();
                if va != want || vb != want {
                    return Some(format!("clone-differs EntriesCursor k={k}"));
                }
            }
        }
    }
    // line rows
    {
        let dl = gimli::read::DebugLine::new(line, LittleEndian);
        if let Ok(prog) = dl.program(gimli::DebugLineOffset(0), 8, None, None) {
            let row = |r: &gimli::read::LineRow| format!("{:x}:{:?}:{:?}:{}", r.address(), r.line(), r.column(), r.end_sequence());
            let mut rows = prog.clone().rows();
            let mut straight = Vec::new();
            while let Ok(Some((_, r))) = rows.next_row() {
                straight.push(row(r));
            }
            let mut a = prog.rows();
            for _ in 0..k {
                let _ = a.next_row();
            }
            let mut b = a.clone();
            let mut va = Vec::new();
            let mut vb = Vec::new();
            loop {
                let x = a.next_row().ok().flatten().map(|(_, r)| row(r));
                let y = b.next_row().ok().flatten().map(|(_, r)| row(r));
                if x.is_none() && y.is_none() {
                    break;
                }
                va.extend(x);
                vb.extend(y);
            }
            let want: Vec<String> = straight.iter().skip(k).cloned().collect();
            if va != want || vb != want {
                return Some(format!("clone-differs LineRows k={k}"));
            }
        }
    }
    // CFI entries + instruction iterator
    {
        let mut section = DebugFrame::new(frame, LittleEndian);
        section.set_address_size(8);
        let bases = BaseAddresses::default();
        fn text<'a>(e: gimli::read::CieOrFde<'_, DebugFrame<R<'a>>, R<'a>>) -> String {
            match e {
                gimli::read::CieOrFde::Cie(c) => format!("cie@{}", c.offset()),
                gimli::read::CieOrFde::Fde(f) => format!("fde@{}", f.offset()),
            }
        }
        let mut it = section.entries(&bases);
        let mut straight = Vec::new();
        while let Ok(Some(e)) = it.next() {
            straight.push(text(e));
        }
        let mut a = section.entries(&bases);
        for _ in 0..k {
            let _ = a.next();
        }
        let mut b = a.clone();
        let mut va = Vec::new();
        let mut vb = Vec::new();
        loop {
            let x = a.next().ok().flatten().map(text);
            let y = b.next().ok().flatten().map(text);
            if x.is_none() && y.is_none() {
                break;
            }
            va.extend(x);
            vb.extend(y);
        }
        let want: Vec<String> = straight.iter().skip(k).cloned().collect();
        if va != want || vb != want {
            return Some(format!("clone-differs CfiEntriesIter k={k}"));
        }
    }
    None
}

/// abbreviation cache strategies vs no cache
fn cache_history(abbrev: &[u8], offsets: &[u32]) -> Option<String> {
    // units of 11 bytes each: length 7, version 4, abbrev offset, address size 8 (no DIEs needed)
    let mut info = Vec::new();
    for &o in offsets {
        info.extend_from_slice(&7u32.to_le_bytes());
        info.extend_from_slice(&4u16.to_le_bytes());
        info.extend_from_slice(&o.to_le_bytes());
        info.push(8);
    }
    let load = |strategy: Option<AbbreviationsCacheStrategy>| -> Vec<String> {
        let mut dwarf = gimli::read::Dwarf::<R<'_>>::default();
        dwarf.debug_abbrev = DebugAbbrev::new(abbrev, LittleEndian);
        dwarf.debug_info = DebugInfo::new(&info, LittleEndian);
        if let Some(s) = strategy {
            dwarf.populate_abbreviations_cache(s);
        }
        let mut out = Vec::new();
        let mut it = dwarf.units();
        while let Ok(Some(h)) = it.next() {
            // twice: the second call may hit what the first one cached
            for _ in 0..2 {
                out.push(match dwarf.abbreviations(&h) {
                    Ok(a) => format!("{:?}", a),
                    Err(e) => format!("E{}", rerr(&e)),
                });
            }
        }
        out
    };
    let none = load(None);
    for s in [AbbreviationsCacheStrategy::Duplicates, AbbreviationsCacheStrategy::All] {
        if load(Some(s)) != none {
            return Some(format!("cache-differs strategy={:?}", s));
        }
    }
    None
}

/// a cache with a past: populated (or `set`) for sections A, then re-populated for sections B —
/// in B's own `Dwarf` after moving the cache over, or in A's `Dwarf` after replacing its sections.
/// After `populate` nothing of the past may be observable: every unit of B gets what an uncached
/// parse gives.
fn cache_rehistory(ab_a: &[u8], offs_a: &[u32], ab_b: &[u8], offs_b: &[u32], first: &str, second: &str, how: &str) -> Option<String> {
    let info_of = |offsets: &[u32]| {
        let mut info = Vec::new();
        for &o in offsets {
            info.extend_from_slice(&7u32.to_le_bytes());
            info.extend_from_slice(&4u16.to_le_bytes());
            info.extend_from_slice(&o.to_le_bytes());
            info.push(8);
        }
        info
    };
    let strategy = |s: &str| match s {
        "dup" => Some(AbbreviationsCacheStrategy::Duplicates),
        "all" => Some(AbbreviationsCacheStrategy::All),
        _ => None,
    };
    let (info_a, info_b) = (info_of(offs_a), info_of(offs_b));
    let observe = |dwarf: &gimli::read::Dwarf<R<'_>>| -> Vec<String> {
        let mut out = Vec::new();
        let mut it = dwarf.units();
        while let Ok(Some(h)) = it.next() {
            for _ in 0..2 {
                out.push(match dwarf.abbreviations(&h) {
                    Ok(a) => format!("{:?}", a),
                    Err(e) => format!("E{}", rerr(&e)),
                });
            }
        }
        out
    };
    let mut fresh = gimli::read::Dwarf::<R<'_>>::default();
    fresh.debug_abbrev = DebugAbbrev::new(ab_b, LittleEndian);
    fresh.debug_info = DebugInfo::new(&info_b, LittleEndian);
    let expect = observe(&fresh);
    // the past
    let mut da = gimli::read::Dwarf::<R<'_>>::default();
    da.debug_abbrev = DebugAbbrev::new(ab_a, LittleEndian);
    da.debug_info = DebugInfo::new(&info_a, LittleEndian);
    match first {
        "set" => {
            for &o in offs_a {
                if let Ok(a) = da.debug_abbrev.abbreviations(gimli::DebugAbbrevOffset(o as usize)) {
                    da.abbreviations_cache.set::<R<'_>>(gimli::DebugAbbrevOffset(o as usize), std::sync::Arc::new(a));
                }
            }
        }
        f => da.populate_abbreviations_cache(strategy(f)?),
    }
    let _ = observe(&da);
    // the present
    let mut db = gimli::read::Dwarf::<R<'_>>::default();
    match how {
        "move" => {
            db.debug_abbrev = DebugAbbrev::new(ab_b, LittleEndian);
            db.debug_info = DebugInfo::new(&info_b, LittleEndian);
            db.abbreviations_cache = std::mem::take(&mut da.abbreviations_cache);
        }
        "replace" => {
            da.debug_abbrev = DebugAbbrev::new(ab_b, LittleEndian);
            da.debug_info = DebugInfo::new(&info_b, LittleEndian);
            db = da;
        }
        _ => return Some("bad-history".into()),
    }
    db.populate_abbreviations_cache(strategy(second)?);
    let got = observe(&db);
    if got != expect {
        let i = got.iter().zip(expect.iter()).position(|(x, y)| x != y).unwrap_or(0);
        return Some(format!("stale-cache after {first}->{second} ({how}): unit {} differs from an uncached parse", i / 2));
    }
    None
}

/// rows (address, end flag) of a line program given as `s<addr>,a<d>,r,e` instructions
fn line_rows(ins: &str) -> Option<Result<Vec<(u64, bool)>, String>> {
    let prog = crate::prop::c12::assemble_ins(ins)?;
    let secs = crate::prop::c12::assembled_line_unit_with(-5, 14, &prog);
    let line = &secs.iter().find(|(n, _)| n == "debug_line")?.1;
    let dl = gimli::read::DebugLine::new(line, LittleEndian);
    let program = match dl.program(gimli::DebugLineOffset(0), 8, None, None) {
        Ok(p) => p,
        Err(e) => return Some(Err(rerr(&e))),
    };
    let mut rows = program.rows();
    let mut out = Vec::new();
    loop {
        match rows.next_row() {
            Ok(Some((_, row))) => out.push((row.address(), row.end_sequence())),
            Ok(None) => return Some(Ok(out)),
            Err(e) => return Some(Err(rerr(&e))),
        }
    }
}

/// one `LineRows` over a program made of several sequences must report, for each sequence, what a
/// fresh `LineRows` over that sequence alone reports (and what `sequences()` + `resume_from` give)
fn line_history(seqs: &[&str]) -> Option<String> {
    let whole = seqs.join(",");
    let together = match line_rows(&whole)? {
        Ok(r) => r,
        Err(e) => return Some(format!("line-history-error {e}")),
    };
    let mut apart = Vec::new();
    for s in seqs {
        match line_rows(s)? {
            Ok(r) => apart.extend(r),
            Err(e) => return Some(format!("line-history-error {e}")),
        }
    }
    if together != apart {
        return Some(format!("line-history reused LineRows reports {:?}, fresh per sequence {:?}", together, apart));
    }
    // sequences() + resume_from
    let prog = crate::prop::c12::assemble_ins(&whole)?;
    let secs = crate::prop::c12::assembled_line_unit_with(-5, 14, &prog);
    let line = &secs.iter().find(|(n, _)| n == "debug_line")?.1;
    let dl = gimli::read::DebugLine::new(line, LittleEndian);
    if let Ok(program) = dl.program(gimli::DebugLineOffset(0), 8, None, None) {
        if let Ok((complete, sequences)) = program.sequences() {
            let mut resumed = Vec::new();
            for sq in &sequences {
                let mut rows = complete.resume_from(sq);
                while let Ok(Some((_, row))) = rows.next_row() {
                    resumed.push((row.address(), row.end_sequence()));
                }
            }
            if resumed != together {
                return Some(format!("line-resume resumed rows {:?}, straight rows {:?}", resumed, together));
            }
        }
    }
    None
}

pub fn handle(op: &str, a: &[&str]) -> Option<String> {
    let verdict = |o: Option<String>| match o {
        None => "ok same".to_string(),
        Some(w) => format!("ok same #oracle:{w}"),
    };
    match (op, a) {
        ("c20-ctx", [storage, hist, pool]) => {
            let (sec, n) = build_frame(pool)?;
            let hist: Vec<usize> = hist.split(',').filter(|s| !s.is_empty()).map(|s| s.parse().ok()).collect::<Option<_>>()?;
            if hist.iter().any(|&k| k >= n) {
                return Some("bad-op".into());
            }
            Some(verdict(match *storage {
                "heap" => ctx_history(&sec, &hist, || UnwindContext::<usize>::new()),
                "small" => ctx_history(&sec, &hist, || UnwindContext::<usize, Small>::new_in()),
                _ => return None,
            }))
        }
        ("c20-entry", [ab, unit, truncs]) => {
            let truncs: Vec<usize> = truncs.split(',').map(|s| s.parse().ok()).collect::<Option<_>>()?;
            Some(verdict(entry_history(&unhex(ab)?, &unhex(unit)?, &truncs)))
        }
        ("c20-tree", [ab, unit, budgets]) => {
            let budgets: Vec<i64> = budgets.split(',').map(|s| s.parse().ok()).collect::<Option<_>>()?;
            Some(verdict(tree_history(&unhex(ab)?, &unhex(unit)?, &budgets)))
        }
        ("c20-clone", [ab, unit, line, frame, k]) => {
            Some(verdict(clone_history(&unhex(ab)?, &unhex(unit)?, &unhex(line)?, &unhex(frame)?, k.parse().ok()?)))
        }
        ("c20-recache", [ab_a, offs_a, ab_b, offs_b, first, second, how]) => {
            let pa: Vec<u32> = offs_a.split(',').map(|s| s.parse().ok()).collect::<Option<_>>()?;
            let pb: Vec<u32> = offs_b.split(',').map(|s| s.parse().ok()).collect::<Option<_>>()?;
            if !["dup", "all", "set"].contains(first) || !["dup", "all"].contains(second) {
                return Some("bad-op".into());
            }
            Some(verdict(cache_rehistory(&unhex(ab_a)?, &pa, &unhex(ab_b)?, &pb, first, second, how)))
        }
        ("c20-line", [seqs]) => {
            let v: Vec<&str> = seqs.split(';').collect();
            Some(verdict(line_history(&v)))
        }
        ("c20-cache", [ab, offs]) => {
            let offs: Vec<u32> = offs.split(',').map(|s| s.parse().ok()).collect::<Option<_>>()?;
            Some(verdict(cache_history(&unhex(ab)?, &offs)))
        }
        _ => None,
    }
}

/// the FDE pool: (CIE initial instructions, FDE instructions, start, length)
fn fde_pool() -> Vec<(Vec<u8>, Vec<u8>, u64, u64)> {
    let cfa = vec![CFA_DEF_CFA, 7, 8];
    let one = [cfa.clone(), vec![CFA_OFFSET | 16, 1]].concat();
    let two = [one.clone(), vec![CFA_OFFSET | 6, 2]].concat();
    let many = [cfa.clone(), (0..6u8).flat_map(|r| vec![CFA_OFFSET | r, r + 1]).collect()].concat();
    let body = vec![CFA_ADVANCE_LOC | 1, CFA_DEF_CFA_OFFSET, 16, CFA_ADVANCE_LOC | 2, CFA_OFFSET | 3, 4, CFA_ADVANCE_LOC | 4, CFA_RESTORE | 16];
    vec![
        (cfa.clone(), body.clone(), 0x1000, 0x40),                                                       // 0: no initial rules
        (one.clone(), body.clone(), 0x2000, 0x40),                                                       // 1: one initial rule
        (two.clone(), body.clone(), 0x3000, 0x40),                                                       // 2: two initial rules (saved row)
        (many.clone(), vec![CFA_ADVANCE_LOC | 1, CFA_RESTORE | 2, CFA_ADVANCE_LOC | 1, CFA_UNDEFINED, 3], 0x4000, 0x20), // 3: many rules (TooManyRegisterRules on small)
        (two.clone(), vec![CFA_REMEMBER_STATE, CFA_ADVANCE_LOC | 1, CFA_OFFSET | 5, 9, CFA_ADVANCE_LOC | 1, CFA_RESTORE_STATE, CFA_ADVANCE_LOC | 1], 0x5000, 0x10), // 4
        (cfa.clone(), vec![CFA_ADVANCE_LOC | 1, CFA_RESTORE_STATE], 0x6000, 0x10),                       // 5: PopWithEmptyStack mid-FDE
        (cfa.clone(), vec![CFA_REMEMBER_STATE; 6], 0x7000, 0x10),                                        // 6: StackFull in the FDE
        ([cfa.clone(), vec![CFA_REMEMBER_STATE; 6]].concat(), body.clone(), 0x8000, 0x10),               // 7: StackFull during CIE initial instructions
        ([cfa.clone(), vec![CFA_RESTORE | 3]].concat(), body.clone(), 0x9000, 0x10),                     // 8: invalid instruction in the CIE
        (vec![], vec![CFA_ADVANCE_LOC | 1, CFA_DEF_CFA_OFFSET, 8], 0xa000, 0x10),                        // 9: def_cfa_offset without a register CFA
        (one.clone(), vec![CFA_ADVANCE_LOC | 1, 0x3f], 0xb000, 0x10),                                    // 10: unknown opcode mid-FDE
        ([one.clone(), vec![CFA_REMEMBER_STATE]].concat(), vec![CFA_ADVANCE_LOC | 1, CFA_RESTORE_STATE, CFA_ADVANCE_LOC | 1, CFA_RESTORE_STATE], 0xc000, 0x10), // 11: row left on the stack by the CIE
        (two.clone(), vec![CFA_GNU_ARGS_SIZE, 0x20, CFA_ADVANCE_LOC | 3, CFA_SAME_VALUE, 16, CFA_ADVANCE_LOC | 60, CFA_ADVANCE_LOC | 60], 0xd000, 0x20), // 12: advance beyond the end
        (cfa.clone(), vec![CFA_SET_LOC, 0, 0, 0, 0, 0, 0, 0, 0], 0xe000, 0x10),                          // 13: set_loc backwards
        (cfa.clone(), vec![CFA_GNU_ARGS_SIZE, 0x10, CFA_ADVANCE_LOC | 4, CFA_DEF_CFA_OFFSET, 16], 0xf000, 0x10),  // 14: args_size on the bottom row (no initial rules)
        ([one.clone(), vec![CFA_GNU_ARGS_SIZE, 8]].concat(), body.clone(), 0x10000, 0x40),              // 15: args_size set by the CIE
        // 16-18: a CIE that leaves TWO rows on the stack and >= 2 rules: `save_initial_rules` then
        // inserts below two live rows (ArrayVec::try_insert with a tail of 2); the FDE pops back down
        ([two.clone(), vec![CFA_REMEMBER_STATE, CFA_DEF_CFA_OFFSET, 16]].concat(), vec![CFA_ADVANCE_LOC | 4, CFA_RESTORE_STATE, CFA_ADVANCE_LOC | 4, CFA_RESTORE | 6], 0x11000, 0x20),
        ([many.clone(), vec![CFA_REMEMBER_STATE, CFA_DEF_CFA_OFFSET, 24]].concat(), vec![CFA_ADVANCE_LOC | 2, CFA_RESTORE_STATE, CFA_ADVANCE_LOC | 2, CFA_RESTORE_STATE], 0x12000, 0x20),
        ([two.clone(), vec![CFA_REMEMBER_STATE, CFA_REMEMBER_STATE, CFA_DEF_CFA_OFFSET, 32]].concat(), vec![CFA_ADVANCE_LOC | 1, CFA_RESTORE_STATE, CFA_ADVANCE_LOC | 1, CFA_RESTORE_STATE, CFA_ADVANCE_LOC | 1, CFA_RESTORE_STATE], 0x13000, 0x20),
        // 19-20: histories that leave distinctive rows in the upper slots (depth 3 and 4)
        (two.clone(), vec![CFA_REMEMBER_STATE, CFA_DEF_CFA, 3, 0x33, CFA_GNU_ARGS_SIZE, 0x30, CFA_ADVANCE_LOC | 1, CFA_REMEMBER_STATE, CFA_DEF_CFA, 4, 0x44, CFA_GNU_ARGS_SIZE, 0x40, CFA_ADVANCE_LOC | 1], 0x14000, 0x20),
        (cfa.clone(), vec![CFA_REMEMBER_STATE, CFA_DEF_CFA, 5, 0x55, CFA_REMEMBER_STATE, CFA_DEF_CFA, 6, 0x66, CFA_REMEMBER_STATE, CFA_ADVANCE_LOC | 1], 0x15000, 0x20),
        // 21 (and 9): a CIE with zero-length initial instructions — `initialize` has nothing to run, but must still
        // start from a reset context; the FDE restores a register (to "no rule") and pops a remembered row
        (vec![], vec![CFA_DEF_CFA, 3, 8, CFA_ADVANCE_LOC | 1, CFA_OFFSET | 3, 1, CFA_ADVANCE_LOC | 1, CFA_RESTORE | 3, CFA_ADVANCE_LOC | 1, CFA_REMEMBER_STATE, CFA_ADVANCE_LOC | 1, CFA_RESTORE_STATE], 0x16000, 0x20),
    ]
}

fn pool_text(pool: &[(Vec<u8>, Vec<u8>, u64, u64)]) -> String {
    pool.iter().map(|(c, f, s, l)| format!("{}/{}/{}/{}", hex(c), hex(f), s, l)).collect::<Vec<_>>().join(";")
}

pub fn gen(ctx: &Ctx, emit: &mut dyn FnMut(String)) {
    let mut rng = ctx.rng(20);
    let pool = fde_pool();
    let n = pool.len();
    let ptxt = pool_text(&pool);
    // all histories up to length 3 (quick) / 4 (thorough)
    let maxlen = if ctx.tier == Tier::Thorough { 4 } else { 3 };
    for storage in ["heap", "small"] {
        let mut hists: Vec<Vec<usize>> = vec![vec![]];
        for _ in 0..maxlen {
            let mut next = Vec::new();
            for h in &hists {
                if h.len() == next.len() && false {
                    continue;
                }
                for k in 0..n {
                    let mut t = h.clone();
                    t.push(k);
                    next.push(t);
                }
            }
            // emit the histories of the new length that end in different states, in chunks of one line each
            for h in &next {
                if storage == "small" && h.len() == 4 && (h[0] + h[1]) % 3 != 0 {
                    continue; // keep the thorough small-storage space at a third
                }
                emit(format!("c20-ctx {storage} {} {ptxt}", h.iter().map(|k| k.to_string()).collect::<Vec<_>>().join(",")));
            }
            hists = next;
        }
    }
    // random longer histories over randomly perturbed pools
    for _ in 0..ctx.n(150, 5000) {
        let mut p = pool.clone();
        for _ in 0..rng.below(3) {
            let i = rng.below(n as u64) as usize;
            let which = rng.chance(1, 2);
            let v = if which { &mut p[i].0 } else { &mut p[i].1 };
            let ins: Vec<u8> = match rng.below(7) {
                6 => vec![CFA_GNU_ARGS_SIZE, rng.below(64) as u8],
                0 => vec![CFA_REMEMBER_STATE],
                1 => vec![CFA_RESTORE_STATE],
                2 => vec![CFA_OFFSET | rng.below(20) as u8, rng.below(9) as u8],
                3 => vec![CFA_ADVANCE_LOC | (1 + rng.below(5) as u8)],
                4 => vec![CFA_RESTORE | rng.below(20) as u8],
                _ => vec![CFA_DEF_CFA_REGISTER, rng.below(20) as u8],
            };
            let at = rng.below(v.len() as u64 + 1) as usize;
            v.splice(at..at, ins);
        }
        let len = 4 + rng.below(8);
        let h: Vec<String> = (0..len).map(|_| rng.below(n as u64).to_string()).collect();
        let storage = if rng.chance(1, 2) { "heap" } else { "small" };
        emit(format!("c20-ctx {storage} {} {}", h.join(","), pool_text(&p)));
    }
    // entry buffers, tree re-rooting, clones, caches
    let (lab, lunit) = sample_unit(&mut ctx.rng(21));
    let seeds = crate::prop::c01::write_seeds(4, gimli::Format::Dwarf32, 8, gimli::RunTimeEndian::Little, &mut ctx.rng(22));
    for i in 0..ctx.n(300, 5000) {
        let (ab, unit) = if i == 0 { (lab.clone(), lunit.clone()) } else { sample_unit(&mut rng) };
        let truncs: Vec<String> = (0..(2 + rng.below(4))).map(|_| if rng.chance(1, 2) { unit.len() } else { rng.below(unit.len() as u64 + 1) as usize }.to_string()).collect();
        emit(format!("c20-entry {} {} {}", hex(&ab), hex(&unit), truncs.join(",")));
        let budgets: Vec<String> = (0..(1 + rng.below(4))).map(|_| rng.below(12).to_string()).collect();
        emit(format!("c20-tree {} {} {}", hex(&ab), hex(&unit), budgets.join(",")));
        // a truncated unit for the tree as well (errors mid-traversal)
        let cut = rng.below(unit.len() as u64 + 1) as usize;
        emit(format!("c20-tree {} {} {}", hex(&ab), hex(&unit[..cut]), budgets.join(",")));
        if let Some(s) = &seeds {
            let k = rng.below(12);
            let frame = {
                let mut sec = Vec::new();
                for (c, f, st, l) in pool.iter().take(4) {
                    let off = sec.len() as u32;
                    sec.extend(debug_frame_cie(8, 1, -8, 16, c));
                    sec.extend(debug_frame_fde(8, off, *st, *l, f));
                }
                sec
            };
            emit(format!("c20-clone {} {} {} {} {k}", hex(&ab), hex(&unit), hex(&s.line), hex(&frame)));
        }
    }
    // caches: two valid tables at offsets 0 and `second`, an invalid one (duplicate code) and an out-of-range offset
    let t1: Vec<u8> = vec![1, 0x11, 1, 0x03, 0x08, 0, 0, 2, 0x34, 0, 0x03, 0x08, 0, 0, 0];
    let t2: Vec<u8> = vec![1, 0x2e, 0, 0x3a, 0x0b, 0, 0, 0];
    let bad: Vec<u8> = vec![1, 0x11, 0, 0, 0, 1, 0x11, 0, 0, 0, 0];
    let mut ab = t1.clone();
    let o2 = ab.len() as u32;
    ab.extend(&t2);
    let o3 = ab.len() as u32;
    ab.extend(&bad);
    let offs = [0u32, o2, o3, 1000, 3];
    for _ in 0..ctx.n(200, 3000) {
        let n = 1 + rng.below(6);
        let l: Vec<String> = (0..n).map(|_| rng.pick(&offs).to_string()).collect();
        emit(format!("c20-cache {} {}", hex(&ab), l.join(",")));
    }
    // line-number rows: every history of up to 3 (4 in the thorough tier) sequences of these kinds
    // on one LineRows vs each sequence on its own
    {
        let kinds = [
            "s4096,r,a4,r,a4,e",                       // live
            "s18446744073709551615,r,a4,r,e",          // wholly tombstoned
            "s8192,r,a4,r,s18446744073709551615,r,e",  // partially tombstoned tail
            "s12288,r,a8,s16,r,s12400,r,e",            // a tombstoned stretch in the middle
            "e",                                       // only an end row
            "r,a4,e",                                  // no set_address
            "s18446744073709551614,e",                 // tombstone, no rows
        ];
        let maxlen = if ctx.tier == Tier::Thorough { 4 } else { 3 };
        let mut level: Vec<Vec<usize>> = vec![vec![]];
        for _ in 0..maxlen {
            let mut next = Vec::new();
            for h in &level {
                for k in 0..kinds.len() {
                    let mut t = h.clone();
                    t.push(k);
                    next.push(t);
                }
            }
            for h in &next {
                emit(format!("c20-line {}", h.iter().map(|&k| kinds[k]).collect::<Vec<_>>().join(";")));
            }
            level = next;
        }
    }
    // caches with a past: another file whose tables sit at the same offsets with other contents
    // (valid where the first is invalid and the other way round)
    let mut ab2 = t2.clone();
    ab2.resize(o2 as usize, 0);
    ab2.extend(&t1);
    ab2.resize(o3 as usize, 0);
    ab2.extend(&t2);
    for _ in 0..ctx.n(300, 4000) {
        let pick = |rng: &mut Rng| -> String {
            let n = 1 + rng.below(5);
            (0..n).map(|_| rng.pick(&offs).to_string()).collect::<Vec<_>>().join(",")
        };
        let (fa, fb) = if rng.chance(1, 2) { (&ab, &ab2) } else { (&ab2, &ab) };
        let first = *rng.pick(&["dup", "all", "all", "set"]);
        let second = *rng.pick(&["dup", "all", "all"]);
        let how = *rng.pick(&["move", "replace"]);
        emit(format!("c20-recache {} {} {} {} {first} {second} {how}", hex(fa), pick(&mut rng), hex(fb), pick(&mut rng)));
    }
}
