//! C03 — every attribute form decodes to its DWARF value; skipping equals reading.
//! Implementation side of the `attr-*` ops (see lean/Gimli/Drv/C03.lean) + direct oracle:
//!   * the generator builds every attribute with its own encoder (not gimli::write) and passes the
//!     expected consumed size and payload along (`exp=<consumed>:<payload>`), so the oracle knows the
//!     DWARF value independently of the Model;
//!   * `AttributeSpecification::size` = what reading consumed (whenever it is `Some`);
//!   * position after `skip_attributes` = position after reading (`EntriesRaw::next_offset`);
//!   * `Attribute::value()` has the same numeric payload / bytes / flag as `raw_value()`.
use crate::prop::{Ctx, Tier};
use crate::util::{hex, rerr, unhex, Rng};
use gimli::constants::{DwAt, DwForm};
use gimli::{
    Abbreviations, Attribute, AttributeSpecification, AttributeValue, DebugAbbrevOffset, Encoding, EndianSlice, EntriesRaw, Format,
    RunTimeEndian, SectionId, UnitHeader, UnitOffset, UnitSectionOffset, UnitType,
};

type R<'a> = EndianSlice<'a, RunTimeEndian>;

#[derive(Clone, Debug, PartialEq)]
pub enum P {
    N(u128),
    I(i64),
    B(Vec<u8>),
    F(bool),
}

impl P {
    pub fn s(&self) -> String {
        match self {
            P::N(n) => format!("n{n}"),
            P::I(i) => format!("i{i}"),
            P::B(b) => format!("b{}", hex(b)),
            P::F(b) => format!("f{}", *b as u8),
        }
    }
    /// "numeric payload / target": a number, bytes, or a flag
    fn same(&self, o: &P) -> bool {
        match (self, o) {
            (P::N(a), P::N(b)) => a == b,
            (P::I(a), P::I(b)) => a == b,
            (P::N(a), P::I(b)) | (P::I(b), P::N(a)) => *b >= 0 && *a == *b as u128,
            (P::B(a), P::B(b)) => a == b,
            (P::F(a), P::F(b)) => a == b,
            _ => false,
        }
    }
}

pub fn variant<T: std::fmt::Debug>(v: &T) -> String {
    let s = format!("{:?}", v);
    let end = s.find(|c: char| c == '(' || c == ' ' || c == '{').unwrap_or(s.len());
    s[..end].to_string()
}

pub fn payload(v: &AttributeValue<R<'_>>) -> P {
    use AttributeValue::*;
    match *v {
        Addr(x) => P::N(x as u128),
        Block(r) => P::B(r.slice().to_vec()),
        Data1(x) => P::N(x as u128),
        Data2(x) => P::N(x as u128),
        Data4(x) => P::N(x as u128),
        Data8(x) => P::N(x as u128),
        Data16(x) => P::N(x),
        Sdata(x) => P::I(x),
        Udata(x) => P::N(x as u128),
        Exprloc(e) => P::B(e.0.slice().to_vec()),
        Flag(b) => P::F(b),
        SecOffset(o) => P::N(o as u128),
        DebugAddrBase(o) => P::N(o.0 as u128),
        DebugAddrIndex(o) => P::N(o.0 as u128),
        UnitRef(o) => P::N(o.0 as u128),
        DebugInfoRef(o) => P::N(o.0 as u128),
        DebugInfoRefSup(o) => P::N(o.0 as u128),
        DebugLineRef(o) => P::N(o.0 as u128),
        LocationListsRef(o) => P::N(o.0 as u128),
        DebugLocListsBase(o) => P::N(o.0 as u128),
        DebugLocListsIndex(o) => P::N(o.0 as u128),
        DebugMacinfoRef(o) => P::N(o.0 as u128),
        DebugMacroRef(o) => P::N(o.0 as u128),
        RangeListsRef(o) => P::N(o.0 as u128),
        DebugRngListsBase(o) => P::N(o.0 as u128),
        DebugRngListsIndex(o) => P::N(o.0 as u128),
        DebugTypesRef(s) => P::N(s.0 as u128),
        DebugStrRef(o) => P::N(o.0 as u128),
        DebugStrRefSup(o) => P::N(o.0 as u128),
        DebugStrOffsetsBase(o) => P::N(o.0 as u128),
        DebugStrOffsetsIndex(o) => P::N(o.0 as u128),
        DebugLineStrRef(o) => P::N(o.0 as u128),
        String(r) => P::B(r.slice().to_vec()),
        Encoding(x) => P::N(x.0 as u128),
        DecimalSign(x) => P::N(x.0 as u128),
        Endianity(x) => P::N(x.0 as u128),
        Accessibility(x) => P::N(x.0 as u128),
        Visibility(x) => P::N(x.0 as u128),
        Virtuality(x) => P::N(x.0 as u128),
        Language(x) => P::N(x.0 as u128),
        AddressClass(x) => P::N(x.0 as u128),
        IdentifierCase(x) => P::N(x.0 as u128),
        CallingConvention(x) => P::N(x.0 as u128),
        Inline(x) => P::N(x.0 as u128),
        Ordering(x) => P::N(x.0 as u128),
        FileIndex(x) => P::N(x as u128),
        DwoId(x) => P::N(x.0 as u128),
    }
}

pub fn value_s(v: &AttributeValue<R<'_>>) -> String {
    format!("{}:{}", variant(v), payload(v).s())
}

pub fn endian(s: &str) -> Option<RunTimeEndian> {
    match s {
        "le" => Some(RunTimeEndian::Little),
        "be" => Some(RunTimeEndian::Big),
        _ => None,
    }
}

pub fn encoding(a: &str, f: &str, v: &str) -> Option<Encoding> {
    let address_size: u8 = a.parse().ok()?;
    let format = match f {
        "32" => Format::Dwarf32,
        "64" => Format::Dwarf64,
        _ => return None,
    };
    let version: u16 = v.parse().ok()?;
    Some(Encoding { address_size, format, version })
}

const IMPLICIT_CONST: u16 = 0x21;

pub fn mkspec(name: u16, form: u16, imp: i64) -> AttributeSpecification {
    AttributeSpecification::new(DwAt(name), DwForm(form), if form == IMPLICIT_CONST { Some(imp) } else { None })
}

fn spec_tok(s: &str) -> Option<AttributeSpecification> {
    let p: Vec<&str> = s.split(':').collect();
    match p.as_slice() {
        [n, f] => Some(mkspec(n.parse().ok()?, f.parse().ok()?, 0)),
        [n, f, i] => Some(mkspec(n.parse().ok()?, f.parse().ok()?, i.parse().ok()?)),
        _ => None,
    }
}

pub fn specs_tok(s: &str) -> Option<Vec<AttributeSpecification>> {
    if s == "-" {
        return Some(vec![]);
    }
    s.split(',').map(spec_tok).collect()
}

fn header<'a>(enc: Encoding, e: RunTimeEndian) -> UnitHeader<R<'a>> {
    UnitHeader::new(enc, 0, UnitType::Compilation, DebugAbbrevOffset(0), SectionId::DebugInfo, UnitSectionOffset(0), EndianSlice::new(&[], e))
}

fn opt<T: std::fmt::Display>(o: Option<T>) -> String {
    match o {
        Some(v) => v.to_string(),
        None => "-".into(),
    }
}

/// the generator's expectation token `exp=<…>@<hash of the hex token>`: only honoured while the
/// bytes are the ones it was computed for (the shrinker and the neighbourhood search edit tokens)
pub fn find_exp<'a>(a: &'a [&'a str], hex_tok: &str) -> Option<&'a str> {
    let t = a.iter().find_map(|t| t.strip_prefix("exp="))?;
    let (body, h) = t.rsplit_once('@')?;
    if h.parse::<u64>().ok()? == crate::util::str_hash(hex_tok) { Some(body) } else { None }
}
pub fn exp_tok(body: &str, hex_tok: &str) -> String {
    format!("exp={body}@{}", crate::util::str_hash(hex_tok))
}

pub fn handle(op: &str, a: &[&str]) -> Option<String> {
    let with_oracle = |s: String, o: Option<String>| match o {
        Some(w) => format!("{s} #oracle:{w}"),
        None => s,
    };
    match (op, a) {
        ("attr-parse", [e, asz, f, v, name, form, imp, h, ..]) => {
            let e = endian(e)?;
            let enc = encoding(asz, f, v)?;
            let name: u16 = name.parse().ok()?;
            let form: u16 = form.parse().ok()?;
            let imp: i64 = if *imp == "-" { 0 } else { imp.parse().ok()? };
            let bs = unhex(h)?;
            let spec = mkspec(name, form, imp);
            let abbrevs = Abbreviations::default();
            let mut raw = EntriesRaw::new(EndianSlice::new(&bs, e), enc, &abbrevs, UnitOffset(0));
            let res: gimli::Result<Attribute<R>> = raw.read_attribute(spec);
            let consumed = raw.next_offset().0;
            let exp = find_exp(a, h);
            let mut oracle: Option<String> = None;
            let reply = match &res {
                Ok(attr) => {
                    let rawv = attr.raw_value();
                    let normv = attr.value();
                    // (1) advertised fixed size = consumed
                    if let Some(n) = spec.size(&header(enc, e)) {
                        if n != consumed {
                            oracle.get_or_insert(format!("fixed-size advertised={n} consumed={consumed}"));
                        }
                    }
                    // (2) normalisation keeps the payload
                    if !payload(&rawv).same(&payload(&normv)) {
                        oracle.get_or_insert(format!("normalise-payload raw={} norm={}", value_s(&rawv), value_s(&normv)));
                    }
                    // (3) skipping this one attribute ends where reading ended
                    let mut sk = EntriesRaw::new(EndianSlice::new(&bs, e), enc, &abbrevs, UnitOffset(0));
                    match sk.skip_attributes(&[spec]) {
                        Ok(()) => {
                            if sk.next_offset().0 != consumed {
                                oracle.get_or_insert(format!("skip-position read={consumed} skip={}", sk.next_offset().0));
                            }
                        }
                        Err(err) => {
                            oracle.get_or_insert(format!("skip-fails read={consumed} skip={}", rerr(&err)));
                        }
                    }
                    // (4) the generator's expectation: consumed size and DWARF value
                    if let Some(x) = exp {
                        if let Some((c, p)) = x.split_once(':') {
                            if c.parse::<usize>().ok() != Some(consumed) {
                                oracle.get_or_insert(format!("encoded-size expected={c} consumed={consumed}"));
                            }
                            if p != payload(&rawv).s() {
                                oracle.get_or_insert(format!("value expected={p} got={}", payload(&rawv).s()));
                            }
                        }
                    }
                    // the accessor views agree with the raw payload
                    if let (Some(u), P::N(n)) = (rawv.udata_value(), payload(&rawv)) {
                        if u as u128 != n {
                            oracle.get_or_insert(format!("udata_value {u} != {n}"));
                        }
                    }
                    format!(
                        "ok {} {} {} u={} s={}",
                        value_s(&rawv),
                        value_s(&normv),
                        consumed,
                        opt(rawv.udata_value()),
                        opt(rawv.sdata_value())
                    )
                }
                Err(err) => {
                    if exp.is_some() {
                        oracle.get_or_insert(format!("rejected-valid {}", rerr(err)));
                    }
                    format!("err {}", rerr(err))
                }
            };
            Some(with_oracle(reply, oracle))
        }
        ("attr-skip", [e, asz, f, v, specs, h, ..]) => {
            let e = endian(e)?;
            let enc = encoding(asz, f, v)?;
            let specs = specs_tok(specs)?;
            let bs = unhex(h)?;
            let abbrevs = Abbreviations::default();
            let mut rd = EntriesRaw::new(EndianSlice::new(&bs, e), enc, &abbrevs, UnitOffset(0));
            let mut attrs = Vec::new();
            let r = rd.read_attributes(&specs, &mut attrs);
            let rpos = rd.next_offset().0;
            // reading one by one is the same path
            let mut rd1 = EntriesRaw::new(EndianSlice::new(&bs, e), enc, &abbrevs, UnitOffset(0));
            let mut r1: gimli::Result<()> = Ok(());
            for s in &specs {
                if let Err(x) = rd1.read_attribute(*s) {
                    r1 = Err(x);
                    break;
                }
            }
            let mut sk = EntriesRaw::new(EndianSlice::new(&bs, e), enc, &abbrevs, UnitOffset(0));
            let s = sk.skip_attributes(&specs);
            let spos = sk.next_offset().0;
            let mut oracle: Option<String> = None;
            if format!("{:?}", r) != format!("{:?}", r1) || (r.is_ok() && rd1.next_offset().0 != rpos) {
                oracle.get_or_insert("read_attributes-vs-read_attribute".into());
            }
            if r.is_ok() {
                match &s {
                    Ok(()) if spos != rpos => {
                        oracle.get_or_insert(format!("skip-position read={rpos} skip={spos}"));
                    }
                    Err(x) => {
                        oracle.get_or_insert(format!("skip-fails read={rpos} skip={}", rerr(x)));
                    }
                    _ => {}
                }
            }
            if let Some(x) = find_exp(a, h) {
                match &r {
                    Ok(()) => {
                        if x.parse::<usize>().ok() != Some(rpos) {
                            oracle.get_or_insert(format!("encoded-size expected={x} consumed={rpos}"));
                        }
                    }
                    Err(err) => {
                        oracle.get_or_insert(format!("rejected-valid {}", rerr(err)));
                    }
                }
            }
            let rs = match &r {
                Ok(()) => rpos.to_string(),
                Err(x) => rerr(x),
            };
            let ss = match &s {
                Ok(()) => spos.to_string(),
                Err(x) => rerr(x),
            };
            Some(with_oracle(format!("ok read={rs} skip={ss}"), oracle))
        }
        ("attr-unit", [e, sect, ah, h, ..]) => {
            let e = endian(e)?;
            let abbrev = unhex(ah)?;
            let sec = unhex(h)?;
            let (hd, abbrevs) = match crate::prop::c02::first_unit(sect, &sec, &abbrev, e) {
                Ok(x) => x,
                Err(x) => return Some(format!("err {}", rerr(&x))),
            };
            let mut raw = match hd.entries_raw(&abbrevs, None) {
                Ok(r) => r,
                Err(x) => return Some(format!("err {}", rerr(&x))),
            };
            let mut entry = gimli::DebuggingInformationEntry::null();
            let mut parts: Vec<String> = Vec::new();
            // (offset, [(name, form, raw payload)]) for the oracle
            let mut seen: Vec<(usize, Vec<(u16, u16, String)>)> = Vec::new();
            let mut end = "ok".to_string();
            let mut oracle: Option<String> = None;
            let mut n = 0;
            while !raw.is_empty() && n < 200_000 {
                n += 1;
                match raw.read_entry(&mut entry) {
                    Ok(_) => {
                        let mut a = Vec::new();
                        let mut o = Vec::new();
                        for at in entry.attrs() {
                            let (rv, nv) = (at.raw_value(), at.value());
                            if !payload(&rv).same(&payload(&nv)) {
                                oracle.get_or_insert(format!("normalise-payload at={} raw={} norm={}", entry.offset().0, value_s(&rv), value_s(&nv)));
                            }
                            a.push(format!("{}/{}/{}/{}", at.name().0, at.form().0, value_s(&rv), value_s(&nv)));
                            o.push((at.name().0, at.form().0, payload(&rv).s()));
                        }
                        parts.push(format!("{}:{}", entry.offset().0, if a.is_empty() { "-".to_string() } else { a.join(",") }));
                        seen.push((entry.offset().0, o));
                    }
                    Err(x) => {
                        end = rerr(&x);
                        break;
                    }
                }
            }
            if let Some(x) = find_exp(a, h) {
                // `<offset>:<name|?>/<form>/<payload|?>,…;…` from llvm-dwarfdump -v
                let want: Vec<&str> = if x == "-" { vec![] } else { x.split(';').collect() };
                if end != "ok" {
                    oracle.get_or_insert(format!("rejected-valid {end}"));
                } else if want.len() != seen.len() {
                    oracle.get_or_insert(format!("entries expected={} got={}", want.len(), seen.len()));
                } else {
                    'outer: for (w, (off, attrs)) in want.iter().zip(seen.iter()) {
                        let Some((wo, wa)) = w.split_once(':') else { continue };
                        if wo.parse::<usize>().ok() != Some(*off) {
                            oracle.get_or_insert(format!("offset expected={wo} got={off}"));
                            break;
                        }
                        let wl: Vec<&str> = if wa == "-" { vec![] } else { wa.split(',').collect() };
                        if wl.len() != attrs.len() {
                            oracle.get_or_insert(format!("attribute-count at={off} expected={} got={}", wl.len(), attrs.len()));
                            break;
                        }
                        for (wx, (gn, gf, gp)) in wl.iter().zip(attrs.iter()) {
                            let f: Vec<&str> = wx.splitn(3, '/').collect();
                            if f.len() != 3 {
                                continue;
                            }
                            if (f[0] != "?" && f[0] != gn.to_string()) || (f[1] != "?" && f[1] != gf.to_string()) {
                                oracle.get_or_insert(format!("attribute at={off} expected={}/{} got={gn}/{gf}", f[0], f[1]));
                                break 'outer;
                            }
                            if f[2] != "?" && f[2] != gp {
                                oracle.get_or_insert(format!("value at={off} attr={gn}/{gf} expected={} got={gp}", f[2]));
                                break 'outer;
                            }
                        }
                    }
                }
            }
            Some(with_oracle(format!("ok {} {end}", if parts.is_empty() { "-".to_string() } else { parts.join(";") }), oracle))
        }
        ("attr-size", [asz, f, v, form]) => {
            let enc = encoding(asz, f, v)?;
            let form: u16 = form.parse().ok()?;
            let spec = mkspec(1, form, 0);
            let n = spec.size(&header(enc, RunTimeEndian::Little));
            Some(format!("ok {}", match n {
                Some(n) => n.to_string(),
                None => "none".into(),
            }))
        }
        _ => None,
    }
}

// ---------------------------------------------------------------------------------------------
// generator: an encoder of its own for every form

#[derive(Clone, Copy)]
pub struct Cfg {
    pub big: bool,
    pub addr: u8,
    pub f64: bool,
    pub ver: u16,
}

impl Cfg {
    pub fn toks(&self) -> String {
        format!("{} {} {} {}", if self.big { "be" } else { "le" }, self.addr, if self.f64 { 64 } else { 32 }, self.ver)
    }
    pub fn word(&self) -> usize {
        if self.f64 { 8 } else { 4 }
    }
    pub fn random(rng: &mut Rng) -> Cfg {
        Cfg { big: rng.chance(1, 2), addr: *rng.pick(&[1u8, 2, 4, 8]), f64: rng.chance(1, 2), ver: rng.range(2, 5) as u16 }
    }
}

pub fn put(big: bool, n: usize, v: u128) -> Vec<u8> {
    let mut out: Vec<u8> = (0..n).map(|i| (v >> (8 * i)) as u8).collect();
    if big {
        out.reverse();
    }
    out
}

pub fn uleb(mut v: u64) -> Vec<u8> {
    let mut out = Vec::new();
    loop {
        let b = (v & 0x7f) as u8;
        v >>= 7;
        if v == 0 {
            out.push(b);
            return out;
        }
        out.push(b | 0x80);
    }
}

/// the same number with `pad` redundant groups appended (still a valid LEB128 number)
pub fn uleb_padded(v: u64, pad: usize) -> Vec<u8> {
    let mut out = uleb(v);
    if pad == 0 {
        return out;
    }
    let n = out.len();
    out[n - 1] |= 0x80;
    for _ in 0..pad - 1 {
        out.push(0x80);
    }
    out.push(0);
    out
}

pub fn sleb(mut v: i64) -> Vec<u8> {
    let mut out = Vec::new();
    loop {
        let b = (v & 0x7f) as u8;
        v >>= 7;
        let done = (v == 0 && b & 0x40 == 0) || (v == -1 && b & 0x40 != 0);
        if done {
            out.push(b);
            return out;
        }
        out.push(b | 0x80);
    }
}

pub const FORMS: &[u16] = &[
    0x01, 0x03, 0x04, 0x05, 0x06, 0x07, 0x08, 0x09, 0x0a, 0x0b, 0x0c, 0x0d, 0x0e, 0x0f, 0x10, 0x11, 0x12, 0x13, 0x14, 0x15, 0x16, 0x17, 0x18,
    0x19, 0x1a, 0x1b, 0x1c, 0x1d, 0x1e, 0x1f, 0x20, 0x21, 0x22, 0x23, 0x24, 0x25, 0x26, 0x27, 0x28, 0x29, 0x2a, 0x2b, 0x2c, 0x1f01, 0x1f02,
    0x1f20, 0x1f21,
];
const UNKNOWN_FORMS: &[u16] = &[0x00, 0x02, 0x2d, 0x2e, 0x7f, 0x80, 0x1f00, 0x1f03, 0x1f1f, 0x1f22, 0x3fff, 0x4000, 0xffff];
const INDIRECT: u16 = 0x16;

/// attribute names: every name with a normalisation rule or a legacy-offset rule, neighbours, vendor names
pub fn names() -> Vec<u16> {
    let mut v: Vec<u16> = (0u16..=0x8f).collect();
    v.extend_from_slice(&[0x2007, 0x2107, 0x2111, 0x2130, 0x2131, 0x2132, 0x2133, 0x2134, 0x2137, 0x3fff, 0x4000, 0xffff]);
    v
}

fn mask(n: usize) -> u128 {
    if n >= 16 { u128::MAX } else { (1u128 << (8 * n)) - 1 }
}

fn bval(rng: &mut Rng, n: usize) -> u128 {
    let m = mask(n);
    match rng.below(8) {
        0 => 0,
        1 => m,
        2 => m >> 1,
        3 => (m >> 1) + 1,
        4 => 1,
        5 => m - 1,
        _ => (((rng.boundary_u64() as u128) << 64) | rng.next() as u128) & m | (rng.boundary_u64() as u128 & m),
    }
}

fn blob(rng: &mut Rng, max: usize) -> Vec<u8> {
    let n = match rng.below(6) {
        0 => 0,
        1 => 1,
        2 => max.min(rng.range(2, 40) as usize),
        3 => max.min(127 + rng.below(3) as usize),
        4 => max.min(*rng.pick(&[255usize, 256, 257, 300])),
        _ => rng.below(12.min(max as u64 + 1)) as usize,
    };
    rng.bytes(n)
}

/// encode one valid attribute of form `form`: (bytes, payload). `None` when the form has no valid
/// encoding under `c` (unknown form; address size not 1/2/4/8 for address-sized forms).
pub fn encode_form(rng: &mut Rng, c: &Cfg, form: u16, imp: i64, depth: u32) -> Option<(Vec<u8>, P)> {
    let fixed = |rng: &mut Rng, n: usize| {
        let v = bval(rng, n);
        (put(c.big, n, v), P::N(v))
    };
    let lebn = |rng: &mut Rng| {
        let v = rng.boundary_u64();
        let pad = if rng.chance(1, 6) { rng.below((10 - uleb(v).len()) as u64 + 1) as usize } else { 0 };
        (uleb_padded(v, pad), P::N(v as u128))
    };
    let addr_ok = matches!(c.addr, 1 | 2 | 4 | 8);
    Some(match form {
        0x01 => {
            if !addr_ok {
                return None;
            }
            fixed(rng, c.addr as usize)
        }
        0x0a | 0x03 | 0x04 => {
            let (w, max) = match form {
                0x0a => (1, 255),
                0x03 => (2, 400),
                _ => (4, 400),
            };
            let b = blob(rng, max);
            let mut out = put(c.big, w, b.len() as u128);
            out.extend_from_slice(&b);
            (out, P::B(b))
        }
        0x09 | 0x18 => {
            let b = blob(rng, 400);
            let pad = if rng.chance(1, 6) { rng.below(4) as usize } else { 0 };
            let mut out = uleb_padded(b.len() as u64, pad);
            out.extend_from_slice(&b);
            (out, P::B(b))
        }
        0x0b | 0x11 | 0x25 | 0x29 => fixed(rng, 1),
        0x05 | 0x12 | 0x26 | 0x2a => fixed(rng, 2),
        0x27 | 0x2b => fixed(rng, 3),
        0x06 | 0x13 | 0x1c | 0x28 | 0x2c => fixed(rng, 4),
        0x07 | 0x14 | 0x20 | 0x24 => fixed(rng, 8),
        0x1e => fixed(rng, 16),
        0x0f | 0x15 | 0x1a | 0x1b | 0x22 | 0x23 | 0x1f01 | 0x1f02 => lebn(rng),
        0x0d => {
            let v = rng.boundary_i64();
            (sleb(v), P::I(v))
        }
        0x0c => {
            let b = *rng.pick(&[0u8, 1, 2, 0x80, 0xff]);
            (vec![b], P::F(b != 0))
        }
        0x19 => (vec![], P::F(true)),
        0x17 | 0x0e | 0x1d | 0x1f | 0x1f20 | 0x1f21 => fixed(rng, c.word()),
        0x10 => {
            if c.ver == 2 {
                if !addr_ok {
                    return None;
                }
                fixed(rng, c.addr as usize)
            } else {
                fixed(rng, c.word())
            }
        }
        0x08 => {
            let mut s = blob(rng, 300);
            for b in s.iter_mut() {
                if *b == 0 {
                    *b = 0x41;
                }
            }
            let mut out = s.clone();
            out.push(0);
            (out, P::B(s))
        }
        0x21 => {
            if depth > 0 {
                return None; // reached through DW_FORM_indirect: not a valid encoding
            }
            (vec![], P::I(imp))
        }
        INDIRECT => {
            if depth > 6 {
                return None;
            }
            // the real form: any valid one, sometimes DW_FORM_indirect again
            let inner = loop {
                let f = if rng.chance(1, 5) { INDIRECT } else { *rng.pick(FORMS) };
                if f != IMPLICIT_CONST {
                    break f;
                }
            };
            let (b, p) = encode_form(rng, c, inner, imp, depth + 1)?;
            let pad = if rng.chance(1, 8) && inner < 0x80 { 1 } else { 0 };
            let mut out = uleb_padded(inner as u64, pad);
            out.extend_from_slice(&b);
            (out, p)
        }
        _ => return None,
    })
}

fn spec_s(name: u16, form: u16, imp: i64) -> String {
    if form == IMPLICIT_CONST { format!("{name}:{form}:{imp}") } else { format!("{name}:{form}") }
}

/// the value llvm-dwarfdump -v prints for an attribute, as a payload (`None`: not comparable)
fn dump_value(form: &str, text: &str) -> Option<String> {
    let hex_after = |pat: &str| -> Option<u128> {
        let i = text.find(pat)? + pat.len();
        let t: String = text[i..].chars().take_while(|c| c.is_ascii_hexdigit()).collect();
        u128::from_str_radix(&t, 16).ok()
    };
    let inner = text.strip_prefix('(')?.trim_end();
    let inner = inner.strip_suffix(')').unwrap_or(inner);
    let plain_hex = || -> Option<u128> {
        let t = inner.strip_prefix("0x")?;
        if !t.is_empty() && t.chars().all(|c| c.is_ascii_hexdigit()) { u128::from_str_radix(t, 16).ok() } else { None }
    };
    let plain_dec = || -> Option<i128> { if !inner.is_empty() && inner.trim_start_matches('-').chars().all(|c| c.is_ascii_digit()) { inner.parse().ok() } else { None } };
    match form {
        "DW_FORM_strp" | "DW_FORM_line_strp" | "DW_FORM_strp_sup" | "DW_FORM_GNU_strp_alt" => hex_after("[0x").map(|v| P::N(v).s()),
        "DW_FORM_string" => {
            let t = inner.strip_prefix('"')?.strip_suffix('"')?;
            if t.contains('"') || t.contains('\\') { None } else { Some(P::B(t.as_bytes().to_vec()).s()) }
        }
        "DW_FORM_ref1" | "DW_FORM_ref2" | "DW_FORM_ref4" | "DW_FORM_ref8" | "DW_FORM_ref_udata" => hex_after("cu + 0x").map(|v| P::N(v).s()),
        "DW_FORM_ref_addr" | "DW_FORM_ref_sig8" | "DW_FORM_addr" | "DW_FORM_sec_offset" => hex_after("(0x").map(|v| P::N(v).s()),
        "DW_FORM_flag_present" => Some(P::F(true).s()),
        "DW_FORM_flag" => match inner {
            "true" => Some(P::F(true).s()),
            "false" => Some(P::F(false).s()),
            _ => plain_hex().map(|v| P::F(v != 0).s()),
        },
        "DW_FORM_data1" | "DW_FORM_data2" | "DW_FORM_data4" | "DW_FORM_data8" | "DW_FORM_udata" => {
            plain_hex().map(|v| P::N(v).s()).or_else(|| plain_dec().filter(|v| *v >= 0).map(|v| P::N(v as u128).s()))
        }
        "DW_FORM_sdata" | "DW_FORM_implicit_const" => plain_dec().map(|v| P::I(v as i64).s()),
        "DW_FORM_strx" | "DW_FORM_strx1" | "DW_FORM_strx2" | "DW_FORM_strx3" | "DW_FORM_strx4" | "DW_FORM_addrx" | "DW_FORM_addrx1"
        | "DW_FORM_addrx2" | "DW_FORM_addrx3" | "DW_FORM_addrx4" | "DW_FORM_GNU_str_index" | "DW_FORM_GNU_addr_index" => {
            hex_after("indexed (").map(|v| P::N(v).s())
        }
        _ => None,
    }
}

/// `attr-unit` lines for the compiler-built corpus, with what llvm-dwarfdump -v reports as expectation
pub fn corpus_lines() -> Vec<String> {
    let mut at_no = std::collections::HashMap::new();
    let mut form_no = std::collections::HashMap::new();
    for v in 0..=0xffffu16 {
        if let Some(s) = DwAt(v).static_string() {
            at_no.entry(s).or_insert(v);
        }
        if let Some(s) = DwForm(v).static_string() {
            form_no.entry(s).or_insert(v);
        }
    }
    let mut out = Vec::new();
    for u in crate::prop::c02::corpus_units() {
        let parts: Vec<String> = u
            .dies
            .iter()
            .map(|d| {
                let attrs: Vec<String> = d
                    .attrs
                    .iter()
                    .map(|(n, f, v)| {
                        format!(
                            "{}/{}/{}",
                            at_no.get(n.as_str()).map_or("?".to_string(), |x| x.to_string()),
                            form_no.get(f.as_str()).map_or("?".to_string(), |x| x.to_string()),
                            if u.relocatable
                                && matches!(
                                    f.as_str(),
                                    "DW_FORM_strp" | "DW_FORM_line_strp" | "DW_FORM_strp_sup" | "DW_FORM_GNU_strp_alt" | "DW_FORM_sec_offset"
                                        | "DW_FORM_addr" | "DW_FORM_ref_addr" | "DW_FORM_data4" | "DW_FORM_data8"
                                )
                            {
                                "?".to_string()
                            } else {
                                dump_value(f, v).unwrap_or("?".into())
                            }
                        )
                    })
                    .collect();
                format!("{}:{}", d.off - u.start, if attrs.is_empty() { "-".to_string() } else { attrs.join(",") })
            })
            .collect();
        out.push(format!("attr-unit {} {} {} {} {}", u.endian, u.sect, u.abbrev_hex, u.unit_hex, exp_tok(&parts.join(";"), &u.unit_hex)));
    }
    out
}

pub fn gen(ctx: &Ctx, emit: &mut dyn FnMut(String)) {
    let mut rng = ctx.rng(3);
    let names = names();
    let rule_names: Vec<u16> = vec![
        0x02, 0x09, 0x0b, 0x0c, 0x0d, 0x10, 0x12, 0x13, 0x17, 0x19, 0x20, 0x22, 0x2a, 0x2c, 0x2e, 0x2f, 0x32, 0x33, 0x36, 0x37, 0x38, 0x39, 0x3a,
        0x3b, 0x3e, 0x40, 0x42, 0x43, 0x46, 0x48, 0x4a, 0x4c, 0x4d, 0x4e, 0x4f, 0x50, 0x51, 0x55, 0x57, 0x58, 0x59, 0x5e, 0x65, 0x71, 0x72, 0x73,
        0x74, 0x79, 0x7e, 0x7f, 0x83, 0x84, 0x85, 0x86, 0x8c, 0x2131, 0x2132, 0x2133,
    ];
    let mut all_forms: Vec<u16> = FORMS.to_vec();
    all_forms.extend_from_slice(UNKNOWN_FORMS);
    let cfgs: Vec<Cfg> = {
        let mut v = Vec::new();
        for big in [false, true] {
            for f64 in [false, true] {
                for ver in 2..=5u16 {
                    for addr in [1u8, 2, 4, 8] {
                        v.push(Cfg { big, addr, f64, ver });
                    }
                }
            }
        }
        v
    };

    // ---- attr-size: the whole table, incl. address sizes / versions outside the usual range
    for &form in &all_forms {
        for addr in [0u8, 1, 2, 3, 4, 8, 16, 255] {
            for f in [32, 64] {
                for ver in [0u16, 1, 2, 3, 4, 5, 6, 0xffff] {
                    emit(format!("attr-size {addr} {f} {ver} {form}"));
                }
            }
        }
    }

    let pick_name = |rng: &mut Rng| -> u16 {
        match rng.below(10) {
            0..=5 => *rng.pick(&rule_names),
            6..=8 => *rng.pick(&names),
            _ => rng.next() as u16,
        }
    };
    let one_case = |rng: &mut Rng, c: &Cfg, name: u16, form: u16, emit: &mut dyn FnMut(String)| {
        let imp = rng.boundary_i64();
        let imps = if form == IMPLICIT_CONST { imp.to_string() } else { "-".into() };
        match encode_form(rng, c, form, imp, 0) {
            Some((mut bs, p)) => {
                let n = bs.len();
                bs.extend(rng.bytes_below(4));
                let hx = hex(&bs);
                emit(format!("attr-parse {} {name} {form} {imps} {hx} {}", c.toks(), exp_tok(&format!("{n}:{}", p.s()), &hx)));
                // malformed neighbours: a truncation, a one-byte mutation (no expectation)
                if n > 0 && rng.chance(1, 3) {
                    let k = rng.below(n as u64) as usize;
                    emit(format!("attr-parse {} {name} {form} {imps} {}", c.toks(), hex(&bs[..k])));
                }
                if n > 0 && rng.chance(1, 6) {
                    let mut m = bs.clone();
                    let k = rng.below(n.min(4) as u64) as usize;
                    m[k] = *rng.pick(&[0u8, 0x7f, 0x80, 0xff, 0x16, 0x21]);
                    emit(format!("attr-parse {} {name} {form} {imps} {}", c.toks(), hex(&m)));
                }
            }
            None => {
                let bs = rng.bytes_below(20);
                emit(format!("attr-parse {} {name} {form} {imps} {}", c.toks(), hex(&bs)));
            }
        }
    };

    // ---- attr-parse: every form x every encoding x boundary payloads, names biased to the ones with rules
    let reps = ctx.n(4, 40);
    for &form in &all_forms {
        for c in &cfgs {
            for _ in 0..reps {
                let name = pick_name(&mut rng);
                one_case(&mut rng, c, name, form, emit);
            }
        }
    }
    // ---- every name x every form (normalisation table, legacy section offsets), random encoding
    let reps = ctx.n(1, 8);
    for &name in &names {
        for &form in FORMS {
            for _ in 0..reps {
                let c = Cfg::random(&mut rng);
                one_case(&mut rng, &c, name, form, emit);
            }
        }
    }
    // data4/data8 x legacy names x every format/version: the allow_section_offset rule
    for &name in &[0x02u16, 0x10, 0x19, 0x2a, 0x2c, 0x38, 0x40, 0x43, 0x46, 0x48, 0x4a, 0x4d, 0x55, 0x79, 0x37, 0x39, 0x03] {
        for c in &cfgs {
            if c.addr != 4 {
                continue;
            }
            for form in [0x06u16, 0x07] {
                one_case(&mut rng, c, name, form, emit);
            }
        }
    }
    // ---- unusual encodings: address sizes outside 1/2/4/8, versions outside 2..5
    for _ in 0..ctx.n(1500, 30000) {
        let c = Cfg {
            big: rng.chance(1, 2),
            addr: *rng.pick(&[0u8, 1, 2, 3, 4, 5, 7, 8, 9, 16, 255]),
            f64: rng.chance(1, 2),
            ver: *rng.pick(&[0u16, 1, 2, 3, 4, 5, 6, 0xffff]),
        };
        let form = *rng.pick(&all_forms);
        let name = pick_name(&mut rng);
        one_case(&mut rng, &c, name, form, emit);
    }
    // ---- malformed: indirect to implicit_const / unknown / overlong form codes, raw junk
    for _ in 0..ctx.n(1500, 30000) {
        let c = Cfg::random(&mut rng);
        let name = pick_name(&mut rng);
        let mut bs = Vec::new();
        for _ in 0..rng.below(4) {
            bs.extend(uleb_padded(INDIRECT as u64, rng.below(3) as usize));
        }
        match rng.below(5) {
            0 => bs.extend(uleb(IMPLICIT_CONST as u64)),
            1 => bs.extend(uleb(*rng.pick(UNKNOWN_FORMS) as u64)),
            2 => bs.extend(uleb_padded(*rng.pick(FORMS) as u64, rng.below(4) as usize)),
            3 => bs.extend(uleb(rng.boundary_u64())),
            _ => {}
        }
        bs.extend(rng.bytes_below(12));
        let form = if rng.chance(3, 4) { INDIRECT } else { *rng.pick(&all_forms) };
        let imps = if form == IMPLICIT_CONST { rng.boundary_i64().to_string() } else { "-".into() };
        emit(format!("attr-parse {} {name} {form} {imps} {}", c.toks(), hex(&bs)));
        // LEB128 forms with over-long / overflowing numbers: reading rejects, skipping does not look
        if rng.chance(1, 3) {
            let form = *rng.pick(&[0x0fu16, 0x0d, 0x15, 0x1a, 0x1b, 0x22, 0x23, 0x09, 0x18]);
            let mut bs = vec![*rng.pick(&[0x80u8, 0xff, 0x81]); rng.range(8, 11) as usize];
            bs.push(*rng.pick(&[0u8, 1, 2, 0x7f, 0x7e, 0x40]));
            bs.extend(rng.bytes_below(3));
            emit(format!("attr-parse {} {name} {form} - {}", c.toks(), hex(&bs)));
            emit(format!("attr-skip {} {name}:{form},3:11 {}", c.toks(), hex(&bs)));
        }
    }

    // ---- attr-skip: arbitrary specification lists over the concatenated encodings
    let n = ctx.n(12000, 200_000);
    for i in 0..n {
        let c = if rng.chance(9, 10) {
            Cfg::random(&mut rng)
        } else {
            Cfg { big: rng.chance(1, 2), addr: *rng.pick(&[0u8, 3, 4, 8, 16]), f64: rng.chance(1, 2), ver: *rng.pick(&[1u16, 2, 3, 5, 6]) }
        };
        let len = match rng.below(8) {
            0 => 0,
            1 => 1,
            2 => rng.range(13, 40),
            _ => rng.range(2, 12),
        } as usize;
        // three flavours: mostly fixed-size runs, mostly variable, mixed (the accumulator crosses)
        let flavour = rng.below(3);
        let fixed_forms: &[u16] = &[0x01, 0x05, 0x06, 0x07, 0x0b, 0x0c, 0x0e, 0x10, 0x11, 0x12, 0x13, 0x14, 0x17, 0x19, 0x1c, 0x1d, 0x1e, 0x1f, 0x20, 0x21, 0x24, 0x25, 0x26, 0x27, 0x28, 0x29, 0x2a, 0x2b, 0x2c, 0x1f20, 0x1f21];
        let var_forms: &[u16] = &[0x03, 0x04, 0x08, 0x09, 0x0a, 0x0d, 0x0f, 0x15, 0x16, 0x18, 0x1a, 0x1b, 0x22, 0x23, 0x1f01, 0x1f02];
        let mut specs = Vec::new();
        let mut bytes = Vec::new();
        let mut valid = true;
        for _ in 0..len {
            let form = match (flavour, rng.below(10)) {
                (0, 0..=7) | (2, 0..=4) => *rng.pick(fixed_forms),
                (1, 0..=7) | (2, 5..=8) => *rng.pick(var_forms),
                _ => *rng.pick(FORMS),
            };
            let name = pick_name(&mut rng);
            let imp = rng.boundary_i64();
            specs.push(spec_s(name, form, imp));
            match encode_form(&mut rng, &c, form, imp, 0) {
                Some((b, _)) => bytes.extend(b),
                None => {
                    valid = false;
                    bytes.extend(rng.bytes_below(6));
                }
            }
        }
        let total = bytes.len();
        bytes.extend(rng.bytes_below(5));
        let specs_s = if specs.is_empty() { "-".to_string() } else { specs.join(",") };
        if valid {
            let hx = hex(&bytes);
            emit(format!("attr-skip {} {specs_s} {hx} {}", c.toks(), exp_tok(&total.to_string(), &hx)));
        } else {
            emit(format!("attr-skip {} {specs_s} {}", c.toks(), hex(&bytes)));
        }
        // malformed: truncation at a random point / every point for short ones; a mutated byte; an unknown form spliced in
        if i % 4 == 0 && total > 0 {
            if total <= 12 && i % 16 == 0 {
                for k in 0..total {
                    emit(format!("attr-skip {} {specs_s} {}", c.toks(), hex(&bytes[..k])));
                }
            } else {
                let k = rng.below(total as u64) as usize;
                emit(format!("attr-skip {} {specs_s} {}", c.toks(), hex(&bytes[..k])));
            }
        }
        if i % 7 == 0 && total > 0 {
            let mut m = bytes.clone();
            let k = rng.below(total as u64) as usize;
            m[k] = *rng.pick(&[0u8, 0x7f, 0x80, 0xff, 0x16, 0x21]);
            emit(format!("attr-skip {} {specs_s} {}", c.toks(), hex(&m)));
        }
        if i % 11 == 0 && !specs.is_empty() {
            let mut sp = specs.clone();
            let k = rng.below(sp.len() as u64) as usize;
            sp[k] = format!("{}:{}", pick_name(&mut rng), *rng.pick(UNKNOWN_FORMS));
            emit(format!("attr-skip {} {} {}", c.toks(), sp.join(","), hex(&bytes)));
        }
    }
    if ctx.tier == Tier::Thorough {
        for l in corpus_lines() {
            emit(l);
        }
        // every (form, form) pair as neighbours, every encoding
        for &f1 in FORMS {
            for &f2 in FORMS {
                let c = Cfg::random(&mut rng);
                let i1 = rng.boundary_i64();
                let i2 = rng.boundary_i64();
                if let (Some((mut b1, _)), Some((b2, _))) = (encode_form(&mut rng, &c, f1, i1, 0), encode_form(&mut rng, &c, f2, i2, 0)) {
                    b1.extend(b2);
                    let n = b1.len();
                    b1.extend(rng.bytes_below(3));
                    let hx = hex(&b1);
                    emit(format!("attr-skip {} {},{} {hx} {}", c.toks(), spec_s(3, f1, i1), spec_s(0x55, f2, i2), exp_tok(&n.to_string(), &hx)));
                }
            }
        }
    }
}
